(* Correspondence checker: runs the EXTRACTED Coq models on the operation sequences / histories that the Go harness
   recorded from the implementation, and reports every disagreement.
   Input: text file, one record per line:
     K1 <model> <caseid> <op> ; <op> ; ... | <out> ; <out> ; ...      (sequential: model run must produce these outs)
     K2 <model> <caseid> <inv> <ret> : <op> : <out> ; ...              (concurrent history: must be linearizable)
   where <op>/<out> are space separated integers in a per-model encoding (see the adapters below).
   Output: one line per disagreement "MISMATCH ..." and a final "SUMMARY model=<m> kind=<k> cases=<n> bad=<b> steps=<s>".
   The search (linearization) is untrusted: a found witness order is re-validated by replaying it through the model. *)

module L = Stdlib.List

(* ---------- glue for Coq's inductive numbers ---------- *)
let rec pos_of_int (n : int) : BinNums.positive =
  if n <= 1 then BinNums.Coq_xH
  else if n land 1 = 0 then BinNums.Coq_xO (pos_of_int (n lsr 1))
  else BinNums.Coq_xI (pos_of_int (n lsr 1))
let z_of_int (n : int) : BinNums.coq_Z =
  if n = 0 then BinNums.Z0 else if n > 0 then BinNums.Zpos (pos_of_int n) else BinNums.Zneg (pos_of_int (-n))
let rec int_of_pos (p : BinNums.positive) : int =
  match p with BinNums.Coq_xH -> 1 | BinNums.Coq_xO q -> 2 * int_of_pos q | BinNums.Coq_xI q -> 2 * int_of_pos q + 1
let int_of_z (z : BinNums.coq_Z) : int =
  match z with BinNums.Z0 -> 0 | BinNums.Zpos p -> int_of_pos p | BinNums.Zneg p -> - (int_of_pos p)
let rec nat_of_int (n : int) : Datatypes.nat = if n <= 0 then Datatypes.O else Datatypes.S (nat_of_int (n - 1))
let rec int_of_nat (n : Datatypes.nat) : int = match n with Datatypes.O -> 0 | Datatypes.S m -> 1 + int_of_nat m

(* ---------- generic model signature ---------- *)
module type MODEL = sig
  type st
  type op
  type out
  val name : string
  val init : int list -> st                 (* configuration ints -> initial state *)
  val step : st -> op -> st * out
  val internal : st -> st list              (* optional internal steps that may precede any operation *)
  val op_of_ints : int list -> op
  val ints_of_out : out -> int list
  val blocked : out -> bool                 (* this result means "the real call would still be blocked" *)
end

let split_on (sep : string) (toks : string list) : string list list =
  let rec go cur acc = function
    | [] -> L.rev (L.rev cur :: acc)
    | t :: rest when t = sep -> go [] (L.rev cur :: acc) rest
    | t :: rest -> go (t :: cur) acc rest in
  go [] [] toks

let ints (l : string list) = L.map int_of_string l
let show_ints l = String.concat " " (L.map string_of_int l)

module type MODEL_ND = sig
  include MODEL
  val step_nd : st -> op -> (st * out) list (* all outcomes of a composite operation whose sub-steps may interleave with
                                               internal steps; [step s o] alone for atomic operations *)
end

module CheckND (M : MODEL_ND) = struct
  (* K1: sequential run *)
  let k1 (caseid : string) (cfg : int list) (ops : int list list) (outs : int list list) : int * string option =
    let rec go s i ops outs =
      match ops, outs with
      | [], [] -> (i, None)
      | o :: ops', r :: outs' ->
          let (s', r') = M.step s (M.op_of_ints o) in
          let r'i = M.ints_of_out r' in
          if r'i = r then go s' (i + 1) ops' outs'
          else (i, Some (Printf.sprintf "MISMATCH model=%s kind=K1 case=%s step=%d op=[%s] model=[%s] impl=[%s]"
                           M.name caseid i (show_ints o) (show_ints r'i) (show_ints r)))
      | _ -> (i, Some (Printf.sprintf "MISMATCH model=%s kind=K1 case=%s malformed (ops/outs length differ)" M.name caseid))
    in go (M.init cfg) 0 ops outs

  let last_diag = ref ""
  (* K2: linearizability (Wing-Gong with memoisation) *)
  type hop = { inv : int; ret : int; (* max_int when pending *) o : M.op; oi : int list; r : int list; pending : bool }

  let k2 (caseid : string) (cfg : int list) (h : hop array) : bool * int =
    let n = Array.length h in
    let memo : (string * M.st, unit) Hashtbl.t = Hashtbl.create 1024 in
    let visited = ref 0 in
    let key (don : Bytes.t) = Bytes.to_string don in
    let witness = ref [] in
    let best = ref (-1) and best_info = ref "" in
    let rec search (don : Bytes.t) (ndone : int) (s : M.st) (acc : int list) : bool =
      if ndone = n then (witness := L.rev acc; true)
      else begin
        let k = (key don, s) in
        if Hashtbl.mem memo k then false
        else begin
          incr visited;
          if ndone > !best then begin
            best := ndone;
            (* describe what the model would answer for each candidate at this deepest point *)
            let minret = ref max_int in
            for i = 0 to n - 1 do
              if Bytes.get don i = '0' && not h.(i).pending && h.(i).ret < !minret then minret := h.(i).ret
            done;
            let b = Stdlib.Buffer.create 256 in
            for i = 0 to n - 1 do
              if Bytes.get don i = '0' && h.(i).inv < !minret then begin
                let (_, r') = M.step s h.(i).o in
                Stdlib.Buffer.add_string b (Printf.sprintf " {#%d inv=%d op=[%s] impl=[%s] model=[%s]%s}" i h.(i).inv (show_ints h.(i).oi)
                  (show_ints h.(i).r) (show_ints (M.ints_of_out r')) (if h.(i).pending then " pending" else ""))
              end
            done;
            best_info := Stdlib.Buffer.contents b
          end;
          (* earliest return among not-yet-linearized, non-pending ops *)
          let minret = ref max_int in
          for i = 0 to n - 1 do
            if Bytes.get don i = '0' && not h.(i).pending && h.(i).ret < !minret then minret := h.(i).ret
          done;
          let states = s :: M.internal s in
          let found = ref false in
          let i = ref 0 in
          while not !found && !i < n do
            let idx = !i in
            if Bytes.get don idx = '0' && h.(idx).inv < !minret then begin
              (* option A: linearize op idx now *)
              L.iter (fun s0 ->
                L.iter (fun (s', r') ->
                  if not !found then begin
                    let ok = if h.(idx).pending then true else (M.ints_of_out r' = h.(idx).r) in
                    if ok then begin
                      let don' = Bytes.copy don in
                      Bytes.set don' idx '1';
                      if search don' (ndone + 1) s' (idx :: acc) then found := true
                    end
                  end) (M.step_nd s0 h.(idx).o)) states;
              (* option B: a pending op may never take effect *)
              if not !found && h.(idx).pending then begin
                let don' = Bytes.copy don in
                Bytes.set don' idx '1';
                if search don' (ndone + 1) s (acc) then found := true
              end
            end;
            incr i
          done;
          if not !found then Hashtbl.replace memo k ();
          !found
        end
      end in
    let ok = search (Bytes.make n '0') 0 (M.init cfg) [] in
    if not ok then last_diag := Printf.sprintf "deepest=%d/%d candidates:%s" !best n !best_info;
    (ok, !visited)

  let parse_hist (toks : string list) : hop array =
    let recs = split_on ";" toks in
    let recs = L.filter (fun r -> r <> []) recs in
    Array.of_list (L.map (fun r ->
      match split_on ":" r with
      | [times; o; out] ->
          let t = ints times in
          let inv = L.nth t 0 and ret = L.nth t 1 in
          let oi = ints o in
          { inv; ret = (if ret < 0 then max_int else ret); o = M.op_of_ints oi; oi; r = ints out; pending = ret < 0 }
      | _ -> failwith "bad K2 record") recs)

  let stats_cases = ref 0 and stats_bad = ref 0 and stats_steps = ref 0 and stats_k2 = ref 0 and stats_k2bad = ref 0
  and stats_visited = ref 0

  let handle (kind : string) (caseid : string) (rest : string list) : unit =
    (* rest = cfg ints "#" payload *)
    let cfg, payload =
      match split_on "#" rest with
      | [c; p] -> (ints c, p)
      | [p] -> ([], p)
      | _ -> failwith "bad record (#)" in
    match kind with
    | "K1" ->
        (match split_on "|" payload with
         | [opsT; outsT] ->
             let ops = L.map ints (L.filter (fun x -> x <> []) (split_on ";" opsT)) in
             let outs = L.map ints (L.filter (fun x -> x <> []) (split_on ";" outsT)) in
             incr stats_cases;
             let (steps, err) = k1 caseid cfg ops outs in
             stats_steps := !stats_steps + steps;
             (match err with None -> () | Some m -> incr stats_bad; print_endline m)
         | _ -> failwith "bad K1 record")
    | "K2" ->
        let h = parse_hist payload in
        incr stats_k2;
        let (ok, visited) = k2 caseid cfg h in
        stats_visited := !stats_visited + visited;
        stats_steps := !stats_steps + Array.length h;
        if not ok then begin
          incr stats_k2bad;
          Printf.printf "MISMATCH model=%s kind=K2 case=%s not-linearizable ops=%d %s\n" M.name caseid (Array.length h) !last_diag
        end
    | _ -> failwith ("unknown kind " ^ kind)

  let summary () =
    Printf.printf "SUMMARY model=%s k1_cases=%d k1_bad=%d k2_cases=%d k2_bad=%d steps=%d search_nodes=%d\n"
      M.name !stats_cases !stats_bad !stats_k2 !stats_k2bad !stats_steps !stats_visited
end


module Check (M : MODEL) = CheckND (struct include M let step_nd s o = [M.step s o] end)

(* ---------- registry: adapters register a handler per model name ---------- *)
let handlers : (string, (string -> string -> string list -> unit)) Hashtbl.t = Hashtbl.create 16
let summaries : (unit -> unit) list ref = ref []
let register (model : string) (h : string -> string -> string list -> unit) (summary : unit -> unit) : unit =
  Hashtbl.replace handlers model h; summaries := !summaries @ [summary]
(* pure-function cases: "F <fn> <caseid> args | result"; adapters register an evaluator per function name *)
let fns : (string, (int list -> int list)) Hashtbl.t = Hashtbl.create 16
let register_fn (name : string) (f : int list -> int list) : unit = Hashtbl.replace fns name f
