(* adapter for Model/CleanerProto.v (C04): TRACE ACCEPTANCE of the cleaner / cooldown-timer protocol.
   The instrumented implementation logs, in order, the synchronisation points executed by the cleaner goroutine and by the
   cooldown-timer goroutines of one Buffer, and the Broadcast (made under the Buffer's write lock) of every external state
   change.  The function decides whether the log is a run of the extracted [CleanerProto.step] (repaired protocol), and
   whether, the implementation having gone quiet at the end of the log, the model can be in a terminal state.
   args: cooldown_pos nchg nev (kind)*nev
         kind 1 CHG | 10 cleaner about to b.mutex.Lock() | 11 cleaner enters cleanup(d) (inner mutex.Lock) | 12 cleaner about to
         cond.Wait() | 20 timer about to <-timer.C | 21 timer about to b.mutex.Lock() | 22 timer about to take the inner mutex
   result: [1] accepted | [0; index] the first observation no model state explains | [2] no terminal state at the end *)
open Core
module L = Stdlib.List
module P = CleanerProto

type xs = { s : P.st; ac : bool; atm : bool }

let stepx cd x p = match P.step true cd x.s p with Some s' -> Some { x with s = s' } | None -> None

let internal cd (x : xs) : xs list =
  let c = x.s.P.ctl_of in
  let csteps =
    match c.P.cl with
    | P.ClLock | P.ClFn | P.ClEnq ->
        if x.ac then (match stepx cd x P.PCl with Some y -> [{ y with ac = false }] | None -> []) else []
    | P.ClRelock ->
        (* re-acquiring L inside cond.Wait is not an announced point; it leads to ClFn, whose body IS announced *)
        (match stepx cd x P.PCl with Some y -> [y] | None -> [])
    | _ -> (match stepx cd x P.PCl with Some y -> [y] | None -> []) in
  let tsteps =
    match c.P.tm with
    | Some P.TmWait | Some P.TmLockB | Some P.TmSect ->
        if x.atm then (match stepx cd x P.PTm with Some y -> [{ y with atm = false }] | None -> []) else []
    | Some P.TmUnlockB -> (match stepx cd x P.PTm with Some y -> [y] | None -> [])
    | None -> [] in
  csteps @ tsteps

let closure cd (xs : xs list) : xs list =
  let seen = Hashtbl.create 64 in
  let rec go acc = function
    | [] -> acc
    | x :: rest -> if Hashtbl.mem seen x then go acc rest else (Hashtbl.add seen x (); go (x :: acc) (internal cd x @ rest)) in
  go [] xs

let observe cd kind (x : xs) : xs list =
  let c = x.s.P.ctl_of in
  match kind with
  | 1 -> (match stepx cd x P.PChg with Some y -> [y] | None -> [])
  | 10 -> if c.P.cl = P.ClLock && not x.ac then [{ x with ac = true }] else []
  | 11 -> if c.P.cl = P.ClFn && not x.ac then [{ x with ac = true }] else []
  | 12 -> if c.P.cl = P.ClEnq && not x.ac then [{ x with ac = true }] else []
  | 20 -> if c.P.tm = Some P.TmWait && not x.atm then [{ x with atm = true }] else []
  | 21 -> if c.P.tm = Some P.TmLockB && not x.atm then [{ x with atm = true }] else []
  | 22 -> if c.P.tm = Some P.TmSect && not x.atm then [{ x with atm = true }] else []
  | _ -> failwith "cleaner_trace: bad observation"

let trace (args : int list) : int list =
  match args with
  | cdp :: nchg :: nev :: obs when L.length obs = nev ->
      let cd = cdp <> 0 in
      let rec go i xs = function
        | [] ->
            if L.exists (fun x -> P.is_terminal true cd x.s) (closure cd xs) then [1] else [2]
        | o :: os ->
            let xs' = L.concat_map (observe cd o) (closure cd xs) in
            if xs' = [] then [0; i] else go (i + 1) (L.sort_uniq compare xs') os in
      go 0 [{ s = P.init (nat_of_int nchg) false; ac = false; atm = false }] obs
  | _ -> failwith "cleaner_trace: args"

let init () = register_fn "cleaner_trace" trace
