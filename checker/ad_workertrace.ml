(* adapter for Model/Worker.v + Model/WorkerWait.v (C17): TRACE ACCEPTANCE of the Worker protocol, one Worker.
   The instrumented implementation logs, in the order they happen and with the goroutine that executes them, the synchronisation
   points of worker.go (announced BEFORE the operation executes) and the harness-side events (Do called / returned, done() called /
   returned, instance function entered with which stop channel / saw stop closed / about to return, what a holder found in x.stop).
   [trace] decides whether the log is a run of the EXTRACTED lock-granularity [Worker.step faithful], driven through
   [WorkerWait.pstep] (the same steps plus the Do callers parked on x.mu as state: PArrive at Do's Lock announcement, PEnter = LDo);
   every step is taken a second time through [Worker.step] itself and the two results compared.

   Where the model steps are placed.  A model step that is one critical section on x.mu (LDo; the watcher's "take the wait group or
   break" LW at WLoop; its final "clear and unlock" LW at WClear) is taken at an announcement its goroutine makes INSIDE that section
   (Do: the first of its go / Add announcements after the Lock; the watcher: the Unlock resp. close announcement that follows its
   Lock; the final Unlock), so the order of those announcements is the order of the sections.  wg.Wait returning (WWait -> WLoop) is
   taken at the watcher's next Lock announcement and needs the model's counter of that WaitGroup object to be zero.  The instance
   function's steps are the harness events inside it (entered = the read of x.stop, saw stop closed, about to return / returning on
   its own).  Three steps happen some time AFTER an announcement with nothing logged when they do: a done() call's wg.Done (between
   DONECALL and DONERET), close(stop) (between the watcher's close announcement and its receive announcement) and close(done)
   (after the do goroutine's close announcement).  For these the adapter keeps a SET of candidate states: before every observation
   it is closed under the pending steps, an observation keeps the candidates that explain it.
   Checked on top of "pstep is enabled": the branch taken (Do announces go statements iff the model creates an instance; the
   watcher announces Unlock iff the model's x.wg is set, close iff it is nil), the Add is announced inside Do's section, the
   function is entered with the channel of ITS OWN instance (never nil, never a channel seen with another instance) and is the
   function passed to the Do call that created the instance, a holder
   between DORET and DONECALL finds x.stop to be the current instance's channel and open, Worker.single_okb / held_okb hold after
   every step, and at END: every goroutine at rest, the model at rest (WorkerTraceAux.p_at_restb), stop/done/wg nil, every stop
   channel closed.

   args: seed case ncalls nev (goroutine kind a b)*nev
   kinds: 1 LOCK 2 UNLOCK 3 GO 4 ADD 5 WAIT 6 CLOSE 7 RECV 8 DONE 9 SELECT 10 OTHER | 20 SPAWNED parent | 30 DOCALL h quick | 31 DORET h
          32 DONECALL h | 33 DONERET h | 34 FNENTER i chan | 38 FNOF i h | 35 SAW i | 36 FNRET i early | 37 HELD h 2*chan+closed | 40 END nonnil open
   result: [1] accepted | [0; i] observation i is the first that no candidate explains | [2; n] the log ends (after n observations,
           all explained) without END: the implementation did not finish. *)
open Core
module L = Stdlib.List
module W = Worker
module P = WorkerWait
module X = WorkerTraceAux

type phase =
  | Fresh of int                              (* no event of its own yet; created by goroutine (index, -1 unknown) *)
  | HIdle                                     (* a holder goroutine between two rounds *)
  | HCalled of int                            (* DOCALL logged; expects LOCK *)
  | HLocking of int                           (* LOCK announced (PArrive); expects the first announcement inside the section *)
  | HIn of int * bool * int * int * bool      (* LDo taken: call, created an instance, go announcements, Add announcements, Unlock announced *)
  | HHeld of int                              (* Do returned; expects HELD / DONECALL *)
  | HDoneCall of int                          (* done() in progress *)
  | WTop of int                               (* watcher of instance k about to lock (model pc WLoop); expects LOCK *)
  | WLockAnn of int                           (* expects UNLOCK (wait group taken) or CLOSE (none: stop phase) *)
  | WUnlockAnn of int                         (* model pc WWait; expects WAIT *)
  | WWaitAnn of int                           (* expects LOCK (= wg.Wait has returned) *)
  | WCloseAnn of int                          (* holds mu; close(stop) executed or not (model pc WClose / WRecv); expects RECV *)
  | WRecvAnn of int                           (* expects the final UNLOCK *)
  | WGone of int
  | DFresh of int                             (* do goroutine of instance k; expects FNENTER *)
  | DLockAnn of int * int                     (* a critical section of its own without a model step (0 before, 1 after the function) *)
  | DIn of int * int                          (* inside the function: instance, ordinal given by the harness *)
  | DSaw of int * int
  | DRet of int                               (* function returned; expects CLOSE *)
  | DCloseAnn of int                          (* close(done) executed or not (model pc IRet / IExit) *)

type xs = {
  m : P.pst;
  ph : (int * phase) list;                    (* goroutine -> phase, sorted *)
  calls : (int * int) list;                   (* Do call -> holder index of the model *)
  pend : int list;                            (* calls whose done() has been called and whose LDone has not been taken *)
  spawn : (int * (int * bool * bool)) list;   (* goroutine that executed the go statements -> instance, watcher seen, do goroutine seen *)
  chans : (int * int) list;                   (* stop channel identity -> instance *)
  blocked : int list;                         (* calls whose Lock was announced while a stopping watcher held x.mu *)
  creator : (int * int) list;                 (* instance -> the Do call whose critical section created it *)
  cv : string list;                           (* coverage tags of this candidate's history (not part of its identity) *)
}

let n2i = int_of_nat and i2n = nat_of_int

(* ------------------------------------------------------------------------------------------------------------------ *)
let s_wp = function W.WLoop -> "WLoop" | W.WWait g -> Printf.sprintf "WWait(wg%d)" (n2i g) | W.WLock -> "WLock" | W.WClose -> "WClose"
  | W.WRecv -> "WRecv" | W.WRecvL _ -> "WRecvL" | W.WClear -> "WClear" | W.WExit -> "WExit"
let s_ip = function W.IReady -> "IReady" | W.IRun -> "IRun" | W.ISaw -> "ISaw" | W.IRet -> "IRet" | W.IExit -> "IExit"
let s_on = function Some n -> string_of_int (n2i n) | None -> "nil"
let s_ph = function
  | Fresh p -> Printf.sprintf "Fresh(parent g%d)" p | HIdle -> "idle" | HCalled h -> Printf.sprintf "do%d:called" h
  | HLocking h -> Printf.sprintf "do%d:at-Lock" h
  | HIn (h, c, ngo, nadd, u) -> Printf.sprintf "do%d:in-section(%s,go=%d,add=%d%s)" h (if c then "new-instance" else "joined") ngo nadd (if u then ",unlock" else "")
  | HHeld h -> Printf.sprintf "do%d:held" h | HDoneCall h -> Printf.sprintf "do%d:in-done()" h
  | WTop k -> Printf.sprintf "watcher%d:before-Lock" k | WLockAnn k -> Printf.sprintf "watcher%d:at-Lock" k
  | WUnlockAnn k -> Printf.sprintf "watcher%d:took-wg,at-Unlock" k | WWaitAnn k -> Printf.sprintf "watcher%d:wg.Wait" k
  | WCloseAnn k -> Printf.sprintf "watcher%d:stop-phase,at-close(stop)" k | WRecvAnn k -> Printf.sprintf "watcher%d:stop-phase,at-<-done" k
  | WGone k -> Printf.sprintf "watcher%d:exited" k | DFresh k -> Printf.sprintf "inst%d:goroutine-started" k
  | DLockAnn (k, _) -> Printf.sprintf "inst%d:own-critical-section" k | DIn (k, _) -> Printf.sprintf "inst%d:in-fn" k
  | DSaw (k, _) -> Printf.sprintf "inst%d:in-fn,saw-stop" k | DRet k -> Printf.sprintf "inst%d:fn-returned" k
  | DCloseAnn k -> Printf.sprintf "inst%d:at-close(done)" k

let s_kind = function 1 -> "LOCK" | 2 -> "UNLOCK" | 3 -> "GO" | 4 -> "ADD(wg.Add)" | 5 -> "WAIT(wg.Wait)" | 6 -> "CLOSE" | 7 -> "RECV"
  | 8 -> "DONE(wg.Done)" | 9 -> "SELECT" | 10 -> "OTHER" | 20 -> "SPAWNED" | 30 -> "DOCALL" | 31 -> "DORET" | 32 -> "DONECALL" | 33 -> "DONERET"
  | 34 -> "FNENTER" | 35 -> "SAW" | 36 -> "FNRET" | 37 -> "HELD" | 38 -> "FNOF" | 40 -> "END" | k -> Printf.sprintf "?%d" k
let s_obs (g, k, a, b) =
  match k with
  | 34 -> Printf.sprintf "g%d:FNENTER(entry#%d,stop=%s)" g a (if b = 0 then "nil" else Printf.sprintf "chan%d" b)
  | 36 -> Printf.sprintf "g%d:FNRET(entry#%d%s)" g a (if b = 1 then ",on-its-own" else "")
  | 37 -> Printf.sprintf "g%d:HELD(do%d,x.stop=%s,%s)" g a (if b / 2 = 0 then "nil" else Printf.sprintf "chan%d" (b / 2)) (if b land 1 = 1 then "CLOSED" else "open")
  | 20 -> Printf.sprintf "g%d:SPAWNED(by g%d)" g a
  | 38 -> Printf.sprintf "g%d:FNOF(entry#%d,function-of-do%d)" g a b
  | 40 -> Printf.sprintf "END(non-nil fields=%d,stop channels still open=%d)" a b
  | _ when k < 20 -> Printf.sprintf "g%d:%s" g (s_kind k)
  | _ -> Printf.sprintf "g%d:%s(%d)" g (s_kind k) a

let s_state (x : xs) : string =
  let s = x.m.P.base in
  let insts = L.mapi (fun k (i : W.inst) -> Printf.sprintf "inst%d{w=%s,fn=%s,got=%s%s%s%s}" k (s_wp i.W.wp) (s_ip i.W.ip) (s_on i.W.isc)
                         (if i.W.stopc then ",stop-closed" else "") (if i.W.donec then ",done-closed" else "") (if i.W.early then ",early" else ""))
      s.W.insts in
  let hs = L.mapi (fun h (hh : W.holder) -> Printf.sprintf "%d:wg%d%s" h (n2i hh.W.hgen) (if hh.W.hdone then "+" else "")) s.W.holders in
  let gs = L.filter_map (fun (g, p) -> match p with HIdle | WGone _ -> None | _ -> Some (Printf.sprintf "g%d=%s" g (s_ph p))) x.ph in
  Printf.sprintf "{model:mu=%s,x.wg=%s,x.stop/done=%s,counters=[%s],parked-Do=%d,%s,holders(+ = done)=[%s];goroutines:%s;done()-in-progress:[%s]}"
    (if s.W.mu then "HELD-by-watcher" else "free") (match s.W.xwg with Some g -> "wg" ^ string_of_int (n2i g) | None -> "nil")
    (match s.W.xinst with Some j -> "inst" ^ string_of_int (n2i j) | None -> "nil")
    (String.concat "," (L.map (fun c -> string_of_int (n2i c)) s.W.gens)) (n2i x.m.P.waiting)
    (if insts = [] then "no-instance" else String.concat "," insts) (String.concat "," hs)
    (if gs = [] then "-" else String.concat "," gs) (String.concat "," (L.map string_of_int x.pend))

(* ------------------------------------------------------------------------------------------------------------------ *)
let steps_taken = ref 0
let cov : (string, int) Hashtbl.t = Hashtbl.create 32
let count_tag (k : string) = Hashtbl.replace cov k (1 + (try Hashtbl.find cov k with Not_found -> 0))
(* tags raised while one candidate handles one observation; attached to its successors, counted for the accepted candidate only *)
let cur_tags : string list ref = ref []
let hit (k : string) = cur_tags := k :: !cur_tags

(* one model step: WorkerWait.pstep, re-done through Worker.step; a step into a panicked state is not a step of the trace
   (the implementation did not panic) *)
let mstep (x : xs) (a : P.plabel) : xs option =
  match P.pstep x.m a with
  | None -> None
  | Some m' ->
      incr steps_taken;
      let b = x.m.P.base in
      (match a with
       | P.PArrive -> if m'.P.base <> b then failwith "worker_trace: PArrive changed the base state"
       | P.PEnter -> (match W.step W.faithful b W.LDo with
           | Some s' when s' = m'.P.base -> () | _ -> failwith "worker_trace: Worker.step differs from WorkerWait.pstep (LDo)")
       | P.PL l -> (match W.step W.faithful b l with
           | Some s' when s' = m'.P.base -> () | _ -> failwith "worker_trace: Worker.step differs from WorkerWait.pstep"));
      if m'.P.base.W.panicked then None
      else begin
        if not (X.single_okb m'.P.base) then failwith "worker_trace: two instance functions running in a model state (contradicts C17_single_instance)";
        if not (X.held_okb m'.P.base) then failwith "worker_trace: held but no instance with an open stop channel in a model state (contradicts C17_held...)";
        Some { x with m = m' }
      end

let set_ph (x : xs) g p =
  let rec ins = function
    | [] -> [(g, p)]
    | (g', _) :: r when g' = g -> (g, p) :: r
    | (g', p') :: r when g' > g -> (g, p) :: (g', p') :: r
    | e :: r -> e :: ins r in
  { x with ph = ins x.ph }
let opt_l = function Some y -> [y] | None -> []
let guard b l = if b then l else []
let wp_of (x : xs) k = X.wp_of x.m.P.base (i2n k)
let ip_of (x : xs) k = X.ip_of x.m.P.base (i2n k)

(* bind stop channel identity c to instance j: a channel belongs to one instance, an instance has one channel *)
let bind (x : xs) c j : xs option =
  if c = 0 then None else
  match L.assoc_opt c x.chans with
  | Some j' -> if j' = j then Some x else None
  | None -> if L.exists (fun (_, j') -> j' = j) x.chans then None else Some { x with chans = L.sort compare ((c, j) :: x.chans) }

(* steps that happen some time after an announcement, with nothing logged when they do *)
let internal (x : xs) : xs list =
  let dones = L.filter_map (fun h ->
      match mstep x (P.PL (W.LDone (i2n (L.assoc h x.calls)))) with
      | Some y -> Some { y with pend = L.filter (fun h' -> h' <> h) x.pend }
      | None -> None) x.pend in
  let closes = L.filter_map (fun (_, p) ->
      match p with
      | WCloseAnn k when wp_of x k = Some W.WClose -> mstep x (P.PL (W.LW (i2n k)))
      | DCloseAnn k when ip_of x k = Some W.IRet -> mstep x (P.PL (W.LI (i2n k)))
      | _ -> None) x.ph in
  dones @ closes

let same (x : xs) (y : xs) = ({ x with cv = [] } = { y with cv = [] })
let closure (xs : xs list) : xs list =
  let rec go acc = function
    | [] -> acc
    | x :: rest -> if L.exists (same x) acc then go acc rest else go (x :: acc) (internal x @ rest) in
  L.rev (go [] xs)
let dedupe (xs : xs list) : xs list =
  let rec go acc = function
    | [] -> L.rev acc
    | x :: rest -> if L.exists (same x) acc then go acc rest else go (x :: acc) rest in
  go [] xs

(* ------------------------------------------------------------------------------------------------------------------ *)
let rec handle ncalls (x : xs) (g : int) (ph : phase) (k : int) (a : int) (b : int) : xs list =
  let st p = [set_ph x g p] in
  let base = x.m.P.base in
  let lw kk = mstep x (P.PL (W.LW (i2n kk))) in
  let li kk = mstep x (P.PL (W.LI (i2n kk))) in
  match ph, k with
  (* ---- a goroutine that has not done anything yet ---- *)
  | Fresh _, 30 -> handle ncalls x g HIdle k a b
  | Fresh _, (9 | 10) -> [x]
  | Fresh par, _ ->
      L.concat_map (fun (p, (kk, ws, ds)) ->
          if par >= 0 && p <> par then [] else
          let upd w d = { x with spawn = (p, (kk, w, d)) :: L.remove_assoc p x.spawn } in
          (if ws then [] else (let x1 = set_ph (upd true ds) g (WTop kk) in handle ncalls x1 g (WTop kk) k a b))
          @ (if ds then [] else (let x1 = set_ph (upd ws true) g (DFresh kk) in handle ncalls x1 g (DFresh kk) k a b)))
        x.spawn
  (* ---- holders ---- *)
  | HIdle, 30 -> guard (a >= 0 && a < ncalls && not (L.mem_assoc a x.calls)) (st (HCalled a))
  | HCalled h, 1 ->
      (match mstep x P.PArrive with
       | Some y ->
           let y = if base.W.mu then (hit "do_lock_announced_during_stop_phase"; { y with blocked = h :: y.blocked }) else y in
           [set_ph y g (HLocking h)]
       | None -> [])
  | HLocking h, (3 | 4) ->
      (* the critical section of Do: LDo, placed at its first announcement inside the section *)
      let created = (base.W.xinst = None) in
      let hidx = L.length base.W.holders and knew = L.length base.W.insts in
      (match mstep x P.PEnter with
       | Some y ->
           if created && knew > 0 then hit "fresh_instance_after_a_stopped_one";
           if created && L.mem h x.blocked then hit "do_blocked_by_stop_phase_then_fresh_instance";
           if (not created) && L.mem h x.blocked then hit "do_blocked_by_stop_phase_then_joined";
           if not created then hit "do_joined_running_instance";
           let y = { y with calls = (h, hidx) :: y.calls; creator = if created then (knew, h) :: y.creator else y.creator;
                            spawn = if created then (g, (knew, false, false)) :: L.remove_assoc g y.spawn else y.spawn } in
           guard (created || k = 4) [set_ph y g (HIn (h, created, (if k = 3 then 1 else 0), (if k = 4 then 1 else 0), false))]
       | None -> [])
  | HIn (h, c, ngo, nadd, false), 3 -> guard (c && ngo < 2) (st (HIn (h, c, ngo + 1, nadd, false)))
  | HIn (h, c, ngo, nadd, false), 4 -> guard (nadd = 0) (st (HIn (h, c, ngo, 1, false)))
  | HIn (h, c, ngo, nadd, false), 2 -> guard (nadd = 1 && ngo = (if c then 2 else 0)) (st (HIn (h, c, ngo, nadd, true)))
  | HIn (h, c, ngo, nadd, _), 31 -> guard (a = h && nadd = 1 && ngo = (if c then 2 else 0)) (st (HHeld h))
  | HHeld h, 37 ->
      (* a holder looked at x.stop: the current instance's channel, open *)
      (match base.W.xinst with
       | Some j when a = h && b land 1 = 0 && not (X.stopc_of base j) -> hit "held_peeks"; opt_l (bind x (b / 2) (n2i j))
       | _ -> [])
  | HHeld h, 32 -> guard (a = h) [set_ph { x with pend = L.sort compare (h :: x.pend) } g (HDoneCall h)]
  | HDoneCall _, 8 -> [x]
  | HDoneCall h, 33 -> guard (a = h && not (L.mem h x.pend)) (st HIdle)
  (* ---- watchers ---- *)
  | WTop kk, 1 -> guard (wp_of x kk = Some W.WLoop) (st (WLockAnn kk))
  | WLockAnn kk, 2 ->
      (match lw kk with
       | Some y -> (match wp_of y kk with Some (W.WWait _) -> hit "watcher_took_wait_group"; [set_ph y g (WUnlockAnn kk)] | _ -> [])
       | None -> [])
  | WLockAnn kk, 6 ->
      (match lw kk with
       | Some y -> (match wp_of y kk with Some W.WClose -> hit "watcher_stop_phase"; [set_ph y g (WCloseAnn kk)] | _ -> [])
       | None -> [])
  | WUnlockAnn kk, 5 -> st (WWaitAnn kk)
  | WWaitAnn kk, 1 ->
      (match lw kk with
       | Some y -> guard (wp_of y kk = Some W.WLoop) [set_ph y g (WLockAnn kk)]
       | None -> [])
  | WCloseAnn kk, (7 | 9) -> guard (wp_of x kk = Some W.WRecv) (st (WRecvAnn kk))
  | WRecvAnn kk, 2 ->
      (match lw kk with
       | Some y when wp_of y kk = Some W.WClear ->
           (match mstep y (P.PL (W.LW (i2n kk))) with
            | Some z when wp_of z kk = Some W.WExit -> [set_ph z g (WGone kk)]
            | _ -> [])
       | _ -> [])
  (* ---- do goroutines / the instance function ---- *)
  | DFresh kk, 34 ->
      (match li kk with
       | Some y ->
           (match X.isc_of y.m.P.base (i2n kk) with
            | Some (Some j) when n2i j = kk && a = kk ->
                if b = 0 then [] else (hit "instance_entered"; L.map (fun z -> set_ph z g (DIn (kk, a))) (opt_l (bind y b kk)))
            | _ -> [])
       | None -> [])
  | DFresh kk, 1 -> st (DLockAnn (kk, 0))
  | DRet kk, 1 -> st (DLockAnn (kk, 1))
  | DLockAnn (kk, w), 2 -> guard (not base.W.mu) (hit "instance_goroutine_own_section"; st (if w = 0 then DFresh kk else DRet kk))
  | DIn (kk, i), 38 -> guard (a = i && L.assoc_opt kk x.creator = Some b) [x]     (* it runs the function of the Do that started it *)
  | DIn (kk, i), 35 -> guard (a = i) (L.map (fun y -> hit "instance_saw_stop"; set_ph y g (DSaw (kk, i))) (opt_l (li kk)))
  | DSaw (kk, i), 36 -> guard (a = i && b = 0) (L.map (fun y -> set_ph y g (DRet kk)) (opt_l (li kk)))
  | DIn (kk, i), 36 ->
      guard (a = i && b = 1)
        (L.map (fun y -> hit "instance_returned_on_its_own"; set_ph y g (DRet kk)) (opt_l (mstep x (P.PL (W.LIE (i2n kk))))))
  | DRet kk, 6 -> st (DCloseAnn kk)
  (* ---- announced operations the model has no step for (Sleep, NewTimer, select, ...) ---- *)
  | _, (9 | 10) -> hit "announcements_without_model_step"; [x]
  | _ -> []

let observe ncalls (x : xs) (g, k, a, b) : xs list =
  match k with
  | 20 -> guard (not (L.mem_assoc g x.ph)) [set_ph x g (Fresh a)]
  | 40 ->
      let at_rest = (function
          | HIdle | WGone _ -> true
          | DCloseAnn kk -> ip_of x kk = Some W.IExit
          | _ -> false) in
      guard (L.for_all (fun (_, p) -> at_rest p) x.ph && x.pend = [] && X.p_at_restb x.m && a = 0 && b = 0
             && n2i x.m.P.arrived = ncalls && L.length x.calls = ncalls) [x]
  | _ -> (match L.assoc_opt g x.ph with
      | Some ph ->
          cur_tags := [];
          let ys = handle ncalls x g ph k a b in
          let tags = !cur_tags in
          if tags = [] then ys else L.map (fun y -> { y with cv = tags @ y.cv }) ys
      | None -> [])

(* ------------------------------------------------------------------------------------------------------------------ *)
let n_traces = ref 0 and n_obs = ref 0 and n_rejected = ref 0 and max_states = ref 0

let rec take n = function [] -> [] | y :: r -> if n <= 0 then [] else y :: take (n - 1) r

let trace (args : int list) : int list =
  match args with
  | seed :: case :: ncalls :: nev :: evs ->
      incr n_traces;
      let rec quad l acc = (match l with
          | g :: k :: a :: b :: r -> quad r ((g, k, a, b) :: acc) | [] -> L.rev acc | _ -> failwith "worker_trace: truncated") in
      let obs = quad evs [] in
      if L.length obs <> nev then failwith "worker_trace: event count";
      let x0 = { m = P.pinit; ph = []; calls = []; pend = []; spawn = []; chans = []; blocked = []; creator = []; cv = [] } in
      let diag what i o (xs : xs list) (recent : (int * int * int * int) list) =
        incr n_rejected;
        Printf.printf "MISMATCH model=worker_trace kind=F case=t-%d-%d %s observation#%d=%s candidates-just-before=%d %s recent=[%s]\n" seed case what i
          (match o with Some o -> s_obs o | None -> "-") (L.length xs)
          (String.concat " | " (L.map s_state (take 4 xs)))
          (String.concat " " (L.rev_map s_obs (take 16 recent))) in
      let rec go i xs recent = function
        | [] -> diag "log-ends-without-END(implementation-did-not-finish)" i None (closure xs) recent; [2; i]
        | ((_, 40, _, _) as o) :: _ ->
            let cl = closure xs in
            (match L.concat_map (fun x -> observe ncalls x o) cl with
             | y :: _ -> L.iter count_tag y.cv; [1]
             | [] -> diag "not-at-rest-at-END" i (Some o) cl recent; [0; i])
        | o :: os ->
            incr n_obs;
            let cl = closure xs in
            let xs' = dedupe (L.concat_map (fun x -> observe ncalls x o) cl) in
            if L.length xs' > !max_states then max_states := L.length xs';
            if xs' = [] then begin diag "no-model-state-explains" i (Some o) cl recent; [0; i] end
            else go (i + 1) xs' (o :: recent) os in
      go 0 [x0] [] obs
  | _ -> failwith "worker_trace: args"

let init () =
  register_fn "worker_trace" trace;
  summaries := !summaries @ [fun () ->
    if !n_traces > 0 then
      Printf.printf "SUMMARY model=worker_trace cases=%d bad=%d observations=%d model_steps=%d max_states=%d%s\n"
        !n_traces !n_rejected !n_obs !steps_taken !max_states
        (String.concat "" (L.map (fun (k, v) -> Printf.sprintf " %s=%d" k v) (L.sort compare (Hashtbl.fold (fun k v acc -> (k, v) :: acc) cov []))))]
