(* Entry point of the correspondence checker; see core.ml for the record format. *)
open Core
module L = Stdlib.List

let () =
  Ad_chan.init ();
  Ad_buffer.init ();
  Ad_callable.init ();
  Ad_retry.init ();
  Ad_caster.init ();
  Ad_workers.init ();
  Ad_worker.init ();
  Ad_attempt.init ();
  Ad_context.init ();
  Ad_pubsub.init ();
  Ad_notifier.init ();
  Ad_exclusive.init ();
  Ad_waitcond.init ();
  Ad_cleanerproto.init ();
  Ad_castertrace.init ();
  Ad_notiftrace.init ();
  Ad_excltrace.init ();
  Ad_pubsubtrace.init ();
  Ad_workertrace.init ();
  let fn_cases = ref 0 and fn_bad = ref 0 in
  let file = Sys.argv.(1) in
  let ic = open_in file in
  (try
     while true do
       let line = input_line ic in
       let toks = L.filter (fun s -> s <> "") (String.split_on_char ' ' (String.trim line)) in
       match toks with
       | [] -> ()
       | "F" :: fn :: caseid :: rest ->
           incr fn_cases;
           (match split_on "|" rest with
            | [argsT; resT] ->
                let args = ints argsT and res = ints resT in
                let f = try Hashtbl.find fns fn with Not_found -> failwith ("unknown fn " ^ fn) in
                let model = f args in
                if model <> res then begin
                  incr fn_bad;
                  Printf.printf "MISMATCH model=%s kind=F case=%s args=[%s] model=[%s] impl=[%s]\n" fn caseid (show_ints args)
                    (show_ints model) (show_ints res)
                end
            | _ -> failwith "bad F record")
       | (("K1" | "K2") as kind) :: m :: caseid :: rest ->
           let h = try Hashtbl.find handlers m with Not_found -> failwith ("unknown model " ^ m) in
           h kind caseid rest
       | _ -> ()   (* STAT / MONITOR / comment records are for bin/check *)
     done
   with End_of_file -> close_in ic);
  L.iter (fun f -> f ()) !summaries;
  Printf.printf "SUMMARY model=fn cases=%d bad=%d\n" !fn_cases !fn_bad
