(* adapters for Model/Worker.v (C17) *)
open Core
module L = Stdlib.List

(* ---- K1: the harness-level view, one action then run to quiescence (Worker.kstep) ---- *)
type wk_kop = KOp of Worker.kop | KNop

module WorkerK = struct
  type st = Worker.kst
  type op = wk_kop
  type out = int list
  let name = "workerk"
  let init _ = Worker.kinit
  let step s = function
    | KOp o -> let (s', obs) = Worker.kstep s o in (s', L.map int_of_nat obs)
    | KNop -> (s, L.map int_of_nat (Worker.kobs s))       (* Do(nil): panics in the caller, changes nothing *)
  let internal _ = []
  let op_of_ints = function
    | [0] -> KOp Worker.KDo
    | [1; h] -> KOp (Worker.KDone (nat_of_int h))
    | [2; k] -> KOp (Worker.KRelease (nat_of_int k))
    | [3] -> KNop
    | [4; k] -> KOp (Worker.KEarly (nat_of_int k))
    | l -> failwith ("workerk: bad op " ^ show_ints l)
  let ints_of_out o = o
  let blocked _ = false
end
module WorkerKC = Check (WorkerK)

(* ---- K2: free-running histories against the interleaving model (Worker.step faithful) ----
   The model numbers holders in the order of their Do steps; the harness tags them itself, so the adapter state carries
   the tag -> holder map.  Watcher steps and close(done) are invisible to the harness: `internal` is their closure. *)
type wk_op = WDo of int | WDone of int | WInst of int | WEarly of int

module WorkerM = struct
  type st = Worker.st * (int * int) list
  type op = wk_op
  type out = int
  let name = "worker"
  let init _ = (Worker.init, [])
  let fl = Worker.faithful
  let blocked_out = 99
  let inst s k = try Some (L.nth s.Worker.insts k) with _ -> None
  let step (s, m) = function
    | WDo tag ->
        (match Worker.step fl s Worker.LDo with
         | Some s' -> ((s', (tag, L.length s.Worker.holders) :: m), 0)
         | None -> ((s, m), blocked_out))
    | WDone tag ->
        (match L.assoc_opt tag m with
         | None -> ((s, m), blocked_out)
         | Some h ->
             (match Worker.step fl s (Worker.LDone (nat_of_int h)) with
              | Some s' -> ((s', m), 0)
              | None -> ((s, m), blocked_out)))
    | WInst k ->
        (match inst s k with
         | None -> ((s, m), blocked_out)
         | Some i ->
             let phase = match i.Worker.ip with
               | Worker.IReady -> 1 | Worker.IRun -> 2 | Worker.ISaw -> 3 | Worker.IRet | Worker.IExit -> 0 in
             if phase = 0 then ((s, m), blocked_out)
             else match Worker.step fl s (Worker.LI (nat_of_int k)) with
               | Some s' -> ((s', m), phase)
               | None -> ((s, m), blocked_out))
    | WEarly k ->   (* the function returns on its own, stop not seen *)
        (match Worker.step fl s (Worker.LIE (nat_of_int k)) with
         | Some s' -> ((s', m), 4)
         | None -> ((s, m), blocked_out))
  (* all states reachable through watcher steps and close(done) steps (not including the start state) *)
  let internal (s, m) =
    let succs s =
      let n = L.length s.Worker.insts in
      let acc = ref [] in
      for k = 0 to n - 1 do
        (match Worker.step fl s (Worker.LW (nat_of_int k)) with Some s' -> acc := s' :: !acc | None -> ());
        (match inst s k with
         | Some i when i.Worker.ip = Worker.IRet ->
             (match Worker.step fl s (Worker.LI (nat_of_int k)) with Some s' -> acc := s' :: !acc | None -> ())
         | _ -> ())
      done;
      !acc in
    let seen = ref [s] and out = ref [] and frontier = ref [s] in
    while !frontier <> [] do
      let next = L.concat_map succs !frontier in
      frontier := [];
      L.iter (fun s' -> if not (L.mem s' !seen) then begin
                  seen := s' :: !seen; out := s' :: !out; frontier := s' :: !frontier end) next
    done;
    L.rev_map (fun s' -> (s', m)) !out
  let op_of_ints = function
    | [0; tag] -> WDo tag
    | [1; tag] -> WDone tag
    | [2; k] -> WInst k
    | [3; k] -> WEarly k
    | l -> failwith ("worker: bad op " ^ show_ints l)
  let ints_of_out o = [o]
  let blocked o = (o = blocked_out)
end
module WorkerC = Check (WorkerM)

let init () =
  register "workerk" (fun kind caseid rest -> WorkerKC.handle kind caseid rest) WorkerKC.summary;
  register "worker" (fun kind caseid rest -> WorkerC.handle kind caseid rest) WorkerC.summary
