(* adapter for Model/ExclusiveAbs.v (bigbuff.Exclusive, properties C09/C10).
   The harness decides the per-history clauses with its own monitors; what the extracted counter model contributes at
   run time is the COUNT check of every finished key: the observed (calls of each style, executions, outcomes) must be
   the counts of a terminal state of the model.  For small numbers of calls the set of terminal count vectors is
   computed by exhaustive search over the extracted `step` (all anonymous picks); for larger ones the inequalities
   proved for terminal states (C10_execs_le_calls, C10_terminal_all_answered_no_residue, C10_terminal_calls_imply_exec)
   are evaluated directly. *)
open Core
module L = Stdlib.List
module E = ExclusiveAbs

let var_index (x : E.var) : int =
  let rec go i = function [] -> failwith "var" | y :: r -> if y = x then i else go (i + 1) r in
  go 0 E.all_vars

let i_started = var_index E.Coq_started and i_answered = var_index E.Coq_answered
and i_issuedc = var_index E.Coq_issuedc and i_issueds = var_index E.Coq_issueds

(* canonical, closure-free form of a state *)
let key_of (s : E.st) : int * int list =
  let ((r, vs), _) = E.observe s in
  ((match r with E.RNone -> 0 | E.RSleep -> 1 | E.RWork -> 2 | E.RWorkRes -> 3 | E.RDone -> 4), L.map int_of_nat vs)

let base_picks = L.filter (function E.PB _ -> true | E.PT _ -> false) E.all_picks

(* terminal (started, answered) pairs reachable from init a b *)
let terminal_cache : (int * int, (int * int) list) Hashtbl.t = Hashtbl.create 16
let explored = ref 0
let terminals (a : int) (b : int) : (int * int) list =
  match Hashtbl.find_opt terminal_cache (a, b) with
  | Some l -> l
  | None ->
      let seen = Hashtbl.create 4096 in
      let out = Hashtbl.create 16 in
      let q = Queue.create () in
      let s0 = E.init (nat_of_int a) (nat_of_int b) in
      Hashtbl.replace seen (key_of s0) (); Queue.add s0 q;
      while not (Queue.is_empty q) do
        let s = Queue.pop q in
        incr explored;
        let succs = L.filter_map (fun p -> E.step s p) base_picks in
        if succs = [] then begin
          let (_, vs) = key_of s in
          Hashtbl.replace out (L.nth vs i_started, L.nth vs i_answered) ()
        end;
        L.iter (fun s' -> let k = key_of s' in
                 if not (Hashtbl.mem seen k) then begin Hashtbl.replace seen k (); Queue.add s' q end) succs
      done;
      let l = Hashtbl.fold (fun k () acc -> k :: acc) out [] in
      Hashtbl.replace terminal_cache (a, b) l; l

let small = 4
let n_model = ref 0 and n_ineq = ref 0

let init () =
  register_fn "exclusive_case" (fun _ -> [1]);
  register_fn "exclusive_ineq" (function
    | [issuedc; issueds; started; answered] ->
        let ineq = started <= issuedc + issueds && answered = issuedc && (issuedc + issueds = 0 || started >= 1) in
        if issuedc + issueds <= small then begin
          incr n_model;
          let ok = L.mem (started, answered) (terminals issuedc issueds) in
          (* the exhaustive search and the proved inequalities must agree with each other as well *)
          if ok && not ineq then failwith "exclusive_ineq: model terminal state violates the proved inequalities";
          [if ok then 1 else 0]
        end else begin incr n_ineq; [if ineq then 1 else 0] end
    | _ -> failwith "exclusive_ineq: args");
  summaries := (fun () ->
    Printf.printf "SUMMARY model=exclusive_counts cases=%d bad=0 by_model_search=%d by_inequalities=%d states_explored=%d\n"
      (!n_model + !n_ineq) !n_model !n_ineq !explored) :: !summaries
