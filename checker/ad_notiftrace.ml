(* adapter for Model/NotifierLock.v (C15): TRACE ACCEPTANCE of the Notifier's lock protocol.
   The instrumented implementation logs, in the order they happen and with the thread that executes them, the synchronisation
   points of notifier.go (mutex Lock / RLock, explicit Unlock / RUnlock statements, the context checks of the scan, reflect.Select
   where it is a statement of its own), the calls and returns of Subscribe / Unsubscribe / Publish made by the harness, every
   receive attempt of a subscriber goroutine (as an interval: about to receive on t / has received value v | has given up) and
   every context cancellation (as an interval).  The function decides whether the log is a run of the EXTRACTED
   [NotifierLock.step true]: observations are consumed in order against a SET of candidate states; between two observations the
   model may take
     - an ANNOUNCED step, only after its announcement:  LSubscribe / LUnsubscribe (after the thread's Lock point; taken by the
       time of an explicit Unlock point and of the RET; panicked or not must be the model's answer), LPubBegin (after the
       thread's RLock point, before its next point or RET), LCtxCancel (between CANCEL begin and end); after an explicit
       RUnlock point the flight's only possible step is LPubEnd (no select outcome any more);
     - an UNANNOUNCED step: LPubStep i (EvReady t) while a receive attempt on t is open and not served (confirmed later by
       RECV t v: v must be the value of flight i; an attempt that is given up must not have been served), LPubStep i EvExit once
       the cancellation of the publish context has begun, LPubStep i (EvCancel t) for every pending t at once when each has a
       context that is cancelled in the model (as late as possible: these outcomes only shrink the pending set), and LPubEnd i
       (the deferred RUnlock) as soon as the model says the flight has returned (eagerly: it only enables steps of others).
       If reflect.Select is a statement of its own, EvReady / EvExit need a Select announcement since the previous outcome.
   Only effective select outcomes are taken (the target is pending in the flight).  A flight's scan announces between
   #(subscriptions with a context) and #(subscriptions) context checks of the model's snapshot, all before its first outcome.
   RET of Publish: the flight has ended (or there is no flight and the publish context's cancellation has begun).
   Reductions: adjacent LPubBegin steps in thread order; candidates identified up to the order of outcomes inside a flight and
   the order of entries in registry / context table / snapshot (see [key]).
   args: seed case sel nthreads ntargets nev (kind th a b c)*nev         (see harness/inpkg/notifier_trace.go)
   result: [1] accepted | [0; i] observation i is the first one no candidate explains | [2] no candidate is at rest at the end.
   On rejection a MISMATCH line (case id, the observation, the candidates' program points just before it) is printed first. *)
open Core
module L = Stdlib.List
module N = Notifier
module NL = NotifierLock

type th =
  | Idle
  | W of { sub : bool; cm : int; k : int; t : int; ann : bool; dn : bool; pan : bool; unl : bool }
  | PC of { pub : int; k : int; pc : bool; ann : bool }
  | PF of { pub : int; i : int; errc : int; donec : int; selann : bool; endann : bool }

type xs = {
  s : NL.lstate;
  ths : th list;
  wait : bool list;          (* per target: a receive has been announced and not served *)
  unconf : int list;         (* per target: value delivered by the model and not yet confirmed by RECV; -1 none *)
  cpend : (int * int) list;  (* context cancellations that have begun and that the model has not taken yet *)
  pcanc : int list;          (* publishes whose context's cancellation has begun *)
  lb : int;                  (* the thread of the LPubBegin just taken, if the last model step was one; -1 otherwise *)
}

let n = nat_of_int
let sctx = function 0 -> N.CtxNone | 1 -> N.CtxLive | _ -> N.CtxCancelled
let rec set l i v = match l with [] -> [] | x :: r -> if i = 0 then v :: r else x :: set r (i - 1) v
let flight x i = L.nth x.s.NL.flights i
let nctx (f : NL.flight) = L.length (L.filter (fun (s : N.sub) -> s.N.has_ctx) f.NL.f_snap)
let nsnap (f : NL.flight) = L.length f.NL.f_snap
let stepm x l = NL.step true x.s l

(* is target t pending in flight i: a ready receiver on t would be served *)
let pending x i t =
  match stepm x (NL.LPubStep (n i, N.EvReady (n t))) with
  | Some s' -> L.length (NL.f_delivered (L.nth s'.NL.flights i)) > L.length (NL.f_delivered (flight x i))
  | None -> false

(* LPubEnd is taken as soon as it is enabled (the flight has returned in the model and its scan is complete): it only enables
   steps of others, and every observation is judged the same way for a returned and for an ended flight *)
let rec normalize (x : xs) : xs =
  let rec find ti = function
    | [] -> None
    | PF p :: rest ->
        let f = flight x p.i in
        if (not f.NL.f_ended) && p.errc >= nctx f && NL.f_returned f then Some ti else find (ti + 1) rest
    | _ :: rest -> find (ti + 1) rest in
  match find 0 x.ths with
  | None -> x
  | Some ti ->
      (match L.nth x.ths ti with
       | PF p ->
           (match stepm x (NL.LPubEnd (n p.i)) with
            | Some s' -> normalize { x with s = s'; ths = set x.ths ti (PF { p with endann = false }) }
            | None -> failwith "notifier_trace: LPubEnd not enabled for a returned flight")
       | _ -> x)

let internal sel (x : xs) : xs list =
  let res = ref [] in
  let add y = res := normalize { y with lb = (-1) } :: !res in
  L.iter (fun (k, t) ->
      match stepm x (NL.LCtxCancel (n k, n t)) with
      | Some s' -> add { x with s = s'; cpend = L.filter (fun p -> p <> (k, t)) x.cpend }
      | None -> ()) x.cpend;
  L.iteri (fun ti th ->
      match th with
      | W w when w.ann && not w.dn ->
          let lab, pan =
            if w.sub then (NL.LSubscribe (sctx w.cm, n w.k, n w.t), N.subscribe_ctx (sctx w.cm) (n w.k) (n w.t) x.s.NL.reg = None)
            else (NL.LUnsubscribe (n w.k, n w.t), N.unsubscribe_ctx (n w.k) (n w.t) x.s.NL.reg = None) in
          (match stepm x lab with
           | Some s' -> add { x with s = s'; ths = set x.ths ti (W { w with dn = true; pan }) }
           | None -> ())
      | PC p when p.ann && ti > x.lb ->
          (* adjacent LPubBegin steps commute (the states differ by the numbering of the flights only): taken in thread order *)
          (match stepm x (NL.LPubBegin (p.pc, n p.k)) with
           | Some s' ->
               let i = L.length x.s.NL.flights in
               res := normalize { x with s = s'; lb = ti;
                                         ths = set x.ths ti (PF { pub = p.pub; i; errc = 0; donec = 0; selann = false; endann = false }) } :: !res
           | None -> ())
      | PF p ->
          let f = flight x p.i in
          if (not f.NL.f_ended) && p.errc >= nctx f && (not (NL.f_returned f)) && not p.endann then begin
            L.iteri (fun t w ->
                if w && (sel = 0 || p.selann) && pending x p.i t then
                  match stepm x (NL.LPubStep (n p.i, N.EvReady (n t))) with
                  | Some s' ->
                      add { x with s = s'; wait = set x.wait t false; unconf = set x.unconf t p.pub;
                                   ths = set x.ths ti (PF { p with selann = false }) }
                  | None -> ()) x.wait;
            (* select outcomes "the subscriber's context is done" change nothing but the set of pending targets: they are taken
               as late as possible, all at once, when they make the flight return (every target still pending has a cancelled
               context) *)
            let pend = L.filter (fun (sb : N.sub) -> pending x p.i (int_of_nat sb.N.sid)) f.NL.f_snap in
            if pend <> [] && L.for_all (fun (sb : N.sub) ->
                   sb.N.has_ctx && N.ctx_of f.NL.f_key sb.N.sid (snd x.s.NL.reg) = N.CtxCancelled) pend then begin
              let s' = L.fold_left (fun so (sb : N.sub) ->
                  match so with
                  | Some s -> NL.step true s (NL.LPubStep (n p.i, N.EvCancel sb.N.sid))
                  | None -> None) (Some x.s) pend in
              match s' with
              | Some s' when NL.f_returned (L.nth s'.NL.flights p.i) -> add { x with s = s' }
              | _ -> failwith "notifier_trace: cancelling every pending target does not make the flight return"
            end;
            if f.NL.f_pc && L.mem p.pub x.pcanc && (sel = 0 || p.selann) then
              match stepm x (NL.LPubStep (n p.i, N.EvExit)) with
              | Some s' -> add { x with s = s'; ths = set x.ths ti (PF { p with selann = false }) }
              | None -> ()
          end
      | _ -> ()) x.ths;
  !res

(* candidates are identified up to the order of the select outcomes within one flight (nothing observes it; the pending set and
   the returned flag do not depend on it: C15_run_refines_spec) and up to the order in which the registry, the context table and
   a snapshot list their entries (Go maps; the model's results do not depend on it, the theorems hold for every iteration order) *)
let key (x : xs) : xs =
  let (r, tab) = x.s.NL.reg in
  let r' = L.sort compare (L.map (fun (k, l) -> (k, L.sort compare l)) r) in
  { x with s = { NL.reg = (r', L.sort compare tab);
                 NL.flights = L.map (fun (f : NL.flight) -> { f with NL.f_hist = L.sort compare f.NL.f_hist; NL.f_snap = L.sort compare f.NL.f_snap })
                     x.s.NL.flights } }

module S = Set.Make (struct type t = xs let compare = compare end)

let dedup (xs : xs list) : xs list =
  let rec go seen acc = function
    | [] -> L.rev acc
    | x :: rest -> let k = key x in if S.mem k seen then go seen acc rest else go (S.add k seen) (x :: acc) rest in
  go S.empty [] xs

let closure sel (xs : xs list) : xs list =
  let rec go seen acc = function
    | [] -> L.rev acc
    | x :: rest ->
        let k = key x in
        if S.mem k seen then go seen acc rest else go (S.add k seen) (x :: acc) (internal sel x @ rest) in
  go S.empty [] xs

let observe (kind, th, a, b, c) (x : xs) : xs list =
  let cur = if kind <= 7 then L.nth x.ths th else Idle in
  let setth v = [{ x with ths = set x.ths th v }] in
  match kind with
  | 1 -> if cur = Idle then setth (W { sub = true; cm = c; k = a; t = b; ann = false; dn = false; pan = false; unl = false }) else []
  | 3 -> if cur = Idle then setth (W { sub = false; cm = 0; k = a; t = b; ann = false; dn = false; pan = false; unl = false }) else []
  | 2 | 4 ->
      (match cur with
       | W w when w.sub = (kind = 2) && w.ann && w.dn && w.pan = (a <> 0) -> setth Idle
       | _ -> [])
  | 5 -> if cur = Idle then setth (PC { pub = c; k = a; pc = b <> 0; ann = false }) else []
  | 6 ->
      if a <> 0 then []
      else (match cur with
          | PC p when (not p.ann) && p.pc && L.mem p.pub x.pcanc -> setth Idle   (* the early return: no flight *)
          | PF p when (flight x p.i).NL.f_ended -> setth Idle
          | _ -> [])
  | 7 ->
      (match cur, a with
       | W w, 1 when not w.ann -> setth (W { w with ann = true })
       | W w, 2 when w.ann && w.dn && not w.unl -> setth (W { w with unl = true })
       | PC p, 5 when not p.ann -> [x]
       | PC p, 3 when not p.ann -> setth (PC { p with ann = true })
       | PF p, _ ->
           let f = flight x p.i in
           (match a with
               | 7 when p.errc < nsnap f && f.NL.f_hist = [] && not p.endann -> setth (PF { p with errc = p.errc + 1 })
               | 8 when p.donec < nsnap f && f.NL.f_hist = [] && not p.endann -> setth (PF { p with donec = p.donec + 1 })
               | 6 when f.NL.f_hist = [] -> [x]
               | 5 -> [x]
               | 9 when (not p.endann) && p.errc >= nctx f && not (NL.f_returned f) -> setth (PF { p with selann = true })
               | 4 when f.NL.f_ended -> [x]   (* the model has released the read lock already (LPubEnd is taken eagerly) *)
               | 4 when not p.endann -> setth (PF { p with endann = true })
               | _ -> [])
       | _ -> [])
  | 8 -> if (not (L.nth x.wait a)) && L.nth x.unconf a = -1 then [{ x with wait = set x.wait a true }] else []
  | 9 -> if L.nth x.unconf a = b then [{ x with unconf = set x.unconf a (-1) }] else []
  | 10 -> if L.mem (a, b) x.cpend then [] else [{ x with cpend = L.sort compare ((a, b) :: x.cpend) }]
  | 11 ->
      if L.mem (a, b) x.cpend then
        (match stepm x (NL.LCtxCancel (n a, n b)) with
         | Some s' -> [{ x with s = s'; cpend = L.filter (fun p -> p <> (a, b)) x.cpend }]
         | None -> [])
      else [x]
  | 14 -> if L.nth x.wait a && L.nth x.unconf a = -1 then [{ x with wait = set x.wait a false }] else []
  | 12 -> [{ x with pcanc = L.sort_uniq compare (a :: x.pcanc) }]
  | 13 -> [x]
  | _ -> failwith "notifier_trace: bad observation"

let at_rest (x : xs) =
  L.for_all (fun t -> t = Idle) x.ths && L.for_all (fun v -> v = -1) x.unconf && x.cpend = [] && NL.no_reader x.s

(* ---- diagnostics ---- *)
let show_obs (kind, th, a, b, c) =
  let pk = [| "?"; "mutex.Lock"; "mutex.Unlock"; "mutex.RLock"; "mutex.RUnlock"; "pubctx.Err"; "pubctx.Done"; "subscriber.ctx.Err";
              "subscriber.ctx.Done"; "reflect.Select" |] in
  match kind with
  | 1 -> Printf.sprintf "th%d CALL Subscribe(key %d, target %d, ctx %s)" th a b (match c with 0 -> "none" | 1 -> "live" | _ -> "cancelled")
  | 2 -> Printf.sprintf "th%d RET Subscribe%s" th (if a <> 0 then " (panicked)" else "")
  | 3 -> Printf.sprintf "th%d CALL Unsubscribe(key %d, target %d)" th a b
  | 4 -> Printf.sprintf "th%d RET Unsubscribe%s" th (if a <> 0 then " (panicked)" else "")
  | 5 -> Printf.sprintf "th%d CALL Publish(key %d, %s, value %d)" th a (if b <> 0 then "ctx" else "no ctx") c
  | 6 -> Printf.sprintf "th%d RET Publish%s" th (if a <> 0 then " (panicked)" else "")
  | 7 -> Printf.sprintf "th%d about to execute %s" th (if a >= 0 && a < Array.length pk then pk.(a) else "?")
  | 8 -> Printf.sprintf "subscriber of target %d about to receive" a
  | 9 -> Printf.sprintf "subscriber of target %d received value %d" a b
  | 14 -> Printf.sprintf "subscriber of target %d gave up its receive attempt" a
  | 10 -> Printf.sprintf "cancel of the context of subscription (key %d, target %d) begins" a b
  | 11 -> Printf.sprintf "cancel of the context of subscription (key %d, target %d) has returned" a b
  | 12 -> Printf.sprintf "cancel of the context of publish %d begins" a
  | 13 -> Printf.sprintf "cancel of the context of publish %d has returned" a
  | _ -> "?"

let show_cand (x : xs) =
  let ids l = String.concat "," (L.map (fun v -> string_of_int (int_of_nat v)) l) in
  let b = Stdlib.Buffer.create 256 in
  L.iteri (fun i t ->
      Stdlib.Buffer.add_string b
        (match t with
         | Idle -> ""
         | W w -> Printf.sprintf " th%d:%s(%d,%d)/%s" i (if w.sub then "Subscribe" else "Unsubscribe") w.k w.t
                    (if w.dn then (if w.unl then "body-done-unlocked" else "body-done") else if w.ann then "at-Lock" else "called")
         | PC p -> Printf.sprintf " th%d:Publish#%d(key %d)/%s" i p.pub p.k (if p.ann then "at-RLock" else "called")
         | PF p ->
             let f = flight x p.i in
             Printf.sprintf " th%d:Publish#%d(key %d)/flight%d snapshot=[%s] scanned=%d(of %d..%d) delivered=[%s] %s%s%s" i p.pub
               (int_of_nat f.NL.f_key) p.i (ids (L.map (fun (s : N.sub) -> s.N.sid) f.NL.f_snap)) p.errc (nctx f) (nsnap f)
               (ids (NL.f_delivered f))
               (if f.NL.f_ended then "read-lock-released" else if NL.f_returned f then "loop-done-holding-read-lock" else "in-select-loop-holding-read-lock")
               (if p.endann then " RUnlock-announced" else "") (if p.selann then " Select-announced" else ""))) x.ths;
  Stdlib.Buffer.add_string b " registry=[";
  L.iter (fun (k, l) -> Stdlib.Buffer.add_string b (Printf.sprintf "key%d:{%s}" (int_of_nat k) (ids l))) (fst x.s.NL.reg);
  Stdlib.Buffer.add_string b "]";
  Stdlib.Buffer.add_string b (Printf.sprintf " receivers-waiting=[%s] unconfirmed=[%s]"
                                (String.concat "," (L.concat (L.mapi (fun t w -> if w then [string_of_int t] else []) x.wait)))
                                (String.concat "," (L.concat (L.mapi (fun t v -> if v >= 0 then [Printf.sprintf "%d<-#%d" t v] else []) x.unconf))));
  Stdlib.Buffer.contents b

let rec take k l = if k = 0 then [] else match l with [] -> [] | x :: r -> x :: take (k - 1) r

let trace (args : int list) : int list =
  match args with
  | seed :: case :: sel :: nth :: ntg :: nev :: rest ->
      let rec evs k l acc =
        if k = 0 then (if l <> [] then failwith "notifier_trace: trailing tokens"; L.rev acc)
        else match l with
          | a :: b :: c :: d :: e :: l' -> evs (k - 1) l' ((a, b, c, d, e) :: acc)
          | _ -> failwith "notifier_trace: truncated" in
      let obs = evs nev rest [] in
      let x0 = { s = NL.linit; ths = L.init nth (fun _ -> Idle); wait = L.init ntg (fun _ -> false); unconf = L.init ntg (fun _ -> -1);
                 cpend = []; pcanc = []; lb = -1 } in
      let diag what cands =
        Printf.printf "MISMATCH model=notifier_trace kind=F case=t-%d-%d %s; %d candidate model state(s) just before it:%s\n" seed case what
          (L.length cands)
          (String.concat "" (L.mapi (fun i c -> Printf.sprintf " {%d:%s}" i (show_cand c)) (take 6 cands))) in
      let dbg = Sys.getenv_opt "NOTIF_TRACE_DEBUG" <> None in   (* per-case statistics on stderr *)
      let t0 = Sys.time () and mx = ref 0 in
      let closure sel xs = let cl = closure sel xs in (if L.length cl > !mx then mx := L.length cl); cl in
      let rec go i xs = function
        | [] ->
            if dbg then Printf.eprintf "case %d-%d: %d observations, max %d candidates, %.2fs\n" seed case nev !mx (Sys.time () -. t0);
            let cl = closure sel xs in
            if L.exists at_rest cl then [1]
            else begin
              diag "the log has ended (every call has returned, every subscriber goroutine has stopped) but no candidate model state is at rest (all flights ended, every delivery confirmed)" cl;
              [2]
            end
        | o :: os ->
            let cl = closure sel xs in
            let xs' = L.concat_map (observe o) cl in
            if xs' = [] then begin
              diag (Printf.sprintf "observation #%d [%s] is not a step the NotifierLock model can take here" i (show_obs o)) cl;
              [0; i]
            end else go (i + 1) (dedup (L.map (fun y -> normalize { y with lb = (-1) }) xs')) os in
      go 0 [x0] obs
  | _ -> failwith "notifier_trace: args"

let init () = register_fn "notifier_trace" trace
