(* adapter for Model/Workers.v (C14).

   K1 records of model "workers" (see harness/inpkg/workers_c14.go for the encoding): the configuration is the program
   (caller scripts); every op is an ACTION SET (caller invocations / function releases issued together) followed by the
   observation the harness made at the next quiescent point.  The adapter state is the SET of model states compatible with
   the history so far; `step` fires the actions in every order, interleaved in every way with the model's internal steps
   (worker loop head, function start, Call return, Wait return — everything that is not an environment step), collects the
   quiescent states reached, and keeps those whose observation equals the recorded one.  Out [1] = at least one is left.
   The exploration is plain OCaml and untrusted in the sense of core.ml: it only ever applies the extracted `Workers.step`
   (variant Faithful), so every state it accepts is a state of `run Faithful (init progs) sched` for some sched. *)
open Core
module L = Stdlib.List
module W = Workers

let n2i = int_of_nat
let i2n = nat_of_int

(* ---- configuration ---- *)
let op_of_code (c : int) : W.cop =
  if c > 0 then W.CCall (i2n c) else if c = 0 then W.CWait else if c = -2 then W.CCount else if c = -3 then W.CCall (i2n 0)
  else failwith ("workers: bad script code " ^ string_of_int c)

let progs_of_cfg (cfg : int list) : W.cop list list =
  let rec go cur acc = function
    | [] -> L.rev (L.rev cur :: acc)
    | -1 :: rest -> go [] (L.rev cur :: acc) rest
    | c :: rest -> go (op_of_code c :: cur) acc rest in
  go [] [] cfg

(* ---- observation of a model state, in the harness encoding ---- *)
let tag_of_call (s : W.st) (i : int) : int =
  match L.nth_opt s.W.calls i with
  | Some c -> 100 * n2i c.W.cown + n2i c.W.cidx
  | None -> -1

let ints_of_mout (s : W.st) (o : W.out) : int list =
  match o with
  | W.RCall (i, v) -> let tv = tag_of_call s (n2i v) in [0; tag_of_call s (n2i i); tv; ((tv mod 3) + 3) mod 3]
  | W.RPanic -> [1]
  | W.RWait -> [2]
  | W.RCount n -> [3; n2i n]

let observe (s : W.st) : int list =
  let run = L.sort compare (L.map (fun i -> tag_of_call s (n2i i)) (W.running_ids s)) in
  let livew = n2i (W.countp W.live s.W.ws) in
  let per_thread =
    L.concat_map (fun (c : W.caller) -> L.length c.W.outs :: L.concat_map (ints_of_mout s) c.W.outs) s.W.callers in
  [n2i s.W.count; L.length s.W.queue; livew + n2i (W.nblocked s); L.length run] @ run
  @ [L.length s.W.callers] @ per_thread

(* ---- exploration ---- *)
type action = Invoke of int | Release of int   (* thread; function tag *)

(* workers are anonymous: sorting the table identifies states that differ only in which worker holds what *)
let canon (s : W.st) : W.st = { s with W.ws = L.sort compare s.W.ws }

let index_where (p : 'a -> bool) (l : 'a list) : int option =
  let rec go i = function [] -> None | x :: r -> if p x then Some i else go (i + 1) r in
  go 0 l

let pick_of_action (s : W.st) (a : action) : W.pick option =
  match a with
  | Invoke t ->
      let p = W.PC (i2n t) in
      if W.is_env s p && W.enabled W.Faithful s p then Some p else None
  | Release tag ->
      (match index_where (function W.WRun i -> tag_of_call s (n2i i) = tag | _ -> false) s.W.ws with
       | Some w -> Some (W.PW (i2n w))
       | None -> None)

let nodes = ref 0

(* all quiescent states reachable from s by firing every pending action exactly once, in any order, interleaved in any
   way with internal steps *)
let settle_all (s0 : W.st) (pending0 : action list) : W.st list =
  (* keys are marshalled so that the whole state is hashed (Hashtbl.hash looks at a bounded prefix only) *)
  let seen : (string, unit) Hashtbl.t = Hashtbl.create 256 in
  let res : (string, W.st) Hashtbl.t = Hashtbl.create 16 in
  let rec go (s : W.st) (pending : action list) : unit =
    let s = canon s in
    let key = Marshal.to_string (s, pending) [Marshal.No_sharing] in
    if not (Hashtbl.mem seen key) then begin
      Hashtbl.replace seen key ();
      incr nodes;
      let internal = L.filter (fun p -> W.enabled W.Faithful s p && not (W.is_env s p)) (W.picks s) in
      if internal = [] && pending = [] then Hashtbl.replace res (Marshal.to_string s [Marshal.No_sharing]) s;
      L.iter (fun p -> match W.step W.Faithful s p with Some s' -> go s' pending | None -> ()) internal;
      L.iteri (fun idx a ->
          match pick_of_action s a with
          | Some p ->
              (match W.step W.Faithful s p with
               | Some s' -> go s' (L.filteri (fun j _ -> j <> idx) pending)
               | None -> ())
          | None -> ()) pending
    end in
  go s0 (L.sort compare pending0);
  Hashtbl.fold (fun _ s acc -> s :: acc) res []

module WorkersM = struct
  type st = W.st list
  type op = action list * int list          (* actions, recorded observation *)
  type out = bool * int list                (* accepted?, else the first model observation *)
  let name = "workers"
  let init cfg = [W.init (progs_of_cfg cfg)]
  let internal _ = []
  let op_of_ints = function
    | na :: rest ->
        let rec take n l acc =
          if n = 0 then (L.rev acc, l)
          else match l with
            | ty :: arg :: r -> take (n - 1) r ((if ty = 0 then Invoke arg else Release arg) :: acc)
            | _ -> failwith "workers: truncated action set" in
        take na rest []
    | [] -> failwith "workers: empty op"
  let step (states : st) ((acts, obs) : op) : st * out =
    let cands = L.sort_uniq compare (L.concat_map (fun s -> settle_all s acts) states) in
    let ok = L.filter (fun s -> observe s = obs) cands in
    if ok <> [] then (ok, (true, []))
    else (cands, (false, (match cands with s :: _ -> observe s | [] -> [-1])))
  let ints_of_out = function (true, _) -> [1] | (false, o) -> 0 :: o
  let blocked _ = false
end
module WorkersC = Check (WorkersM)

(* F c14_burst: the model's terminal state for a burst with these count arguments (one caller per count, then Wait and
   Count): number of calls returned, number of functions run exactly once, final count, value of Count after Wait *)
let burst (ks : int list) : int list =
  let (((nret, nonce), cnt), outs) = W.burst_result (L.map i2n ks) in
  let after_wait = match outs with [W.RWait; W.RCount n] -> n2i n | _ -> -1 in
  [n2i nret; n2i nonce; n2i cnt; after_wait]

(* F c14_wait_order: program Call(1) ; Wait ; Call(1) under the forced order of critical sections of the harness scenario
   C14L: first Call and its worker up to the running function, Wait invoked, function ends, worker exits on the empty queue
   (count 0), second Call (spawns a worker, which dequeues and starts the function). Result: count, whether the Wait-return
   step is enabled in that state, number of running functions. *)
let wait_order (args : int list) : int list =
  let progs = progs_of_cfg (L.concat (L.mapi (fun i c -> if i = 0 then [c] else [-1; c]) args)) in
  let pc t = W.PC (i2n t) and pw w = W.PW (i2n w) in
  let sched = [pc 0; pw 0; pw 0; pc 1; pw 0; pw 0; pc 2; pw 1; pw 1] in
  let s = W.run W.Faithful (W.init progs) sched in
  [n2i s.W.count; (if W.enabled W.Faithful s (pc 1) then 1 else 0); n2i (W.countp W.running s.W.ws)]

let init () =
  register "workers" (fun kind caseid rest -> WorkersC.handle kind caseid rest)
    (fun () -> WorkersC.summary (); Printf.printf "SUMMARY model=workers_search nodes=%d\n" !nodes);
  register_fn "c14_burst" burst;
  register_fn "c14_wait_order" wait_order
