(* adapters for Model/Channel.v and Model/Cleaner.v *)
open Core
module L = Stdlib.List

module ChanM = struct
  type st = Channel.st
  type op = Channel.op
  type out = Channel.out
  let name = "chan"
  let init _ = Channel.init
  let step = Channel.step
  let internal _ = []
  let op_of_ints = function
    | [0] -> Channel.OGet | [1] -> Channel.OGetCancelled | [2] -> Channel.OCommit | [3] -> Channel.ORollback
    | [4] -> Channel.OBuffer | [5] -> Channel.OClose | [6] -> Channel.OCancel
    | [7; v] -> Channel.OSrcSend (z_of_int v) | [8] -> Channel.OSrcClose | [9] -> Channel.OSrcPeek
    | l -> failwith ("chan: bad op " ^ show_ints l)
  let ints_of_out = function
    | Channel.RVal v -> [0; int_of_z v] | Channel.REmpty -> [1] | Channel.RErr -> [2] | Channel.ROk -> [3]
    | Channel.RBuf l -> 4 :: L.length l :: L.map int_of_z l
  let blocked = function Channel.REmpty -> true | _ -> false
end
module ChanC = Check (ChanM)

(* the abstract cursor specification, run on the same cases: a second, independent oracle *)
module ChanSpecM = struct
  type st = Channel.spec
  type op = Channel.op
  type out = Channel.out
  let name = "chanspec"
  let init _ = Channel.spec_init
  let step = Channel.spec_step
  let internal _ = []
  let op_of_ints = ChanM.op_of_ints
  let ints_of_out = ChanM.ints_of_out
  let blocked = ChanM.blocked
end
module ChanSpecC = Check (ChanSpecM)

let init () =
  register "chan" (fun kind caseid rest -> ChanC.handle kind caseid rest; ChanSpecC.handle kind caseid rest)
    (fun () -> ChanC.summary (); ChanSpecC.summary ());
  let zl l = L.map z_of_int l in
  register_fn "default_cleaner" (function size :: offs -> [int_of_z (Cleaner.default_cleaner (z_of_int size) (zl offs))] | _ -> failwith "args");
  register_fn "default_spec" (function size :: offs -> [int_of_z (Cleaner.default_spec (z_of_int size) (zl offs))] | _ -> failwith "args");
  register_fn "fixed_cleaner" (function mx :: tg :: size :: offs ->
      [int_of_z (Cleaner.fixed_cleaner (z_of_int mx) (z_of_int tg) (z_of_int size) (zl offs))] | _ -> failwith "args");
  register_fn "clamp_shift" (function [len; shift] -> [int_of_z (Cleaner.clamp_shift (z_of_int len) (z_of_int shift))] | _ -> failwith "args")
