(* adapter for Model/Context.v (C16: ChainAfterFunc / CombineContext / ConflatedContext).
   K1 model "ctx": quiescent semantics — after every operation all enabled library/hook/waiter goroutines of the
   EXTRACTED model are run to completion (Context.*_settle), and the observable tuple is compared with the implementation.
     cfg : kind probe nenv (parent+1 key val){nenv} npre pre.. args..
           kind 0 ChainAfterFunc   args = cx other
           kind 1 CombineContext   args = primary+1 nothers (other+1)..        (0 = nil)
           kind 2 ConflatedContext args = ninputs input..
     ops : 0            call the function
           5 i j        call the function; right after its Err() check of others[i] / contexts[i] (ChainAfterFunc: right after
                        its first AfterFunc registration) input node j is cancelled
           1 n          cancel input node n
           2            call the CancelFunc returned by ConflatedContext
           3 key        Value(key) of the returned context
           4            nothing
           9 k j1..jk <base op>   the base op (0 | 1 n | 2 | 4) during whose processing input nodes j1..jk were cancelled by
                        scripted hook contexts, somewhere inside the library or one of its hook goroutines: the model performs
                        the base op (the whole library call for 0), then the cancellations, then runs to quiescence
     a node whose parent field is -1 is a context that can never be cancelled (a root that no operation cancels; it is not
     a probe, so registrations on it are not counted in `live`)
     outs: ops 0 5 1 2 : cancelled calls live waiters idk
                          cancelled = result.Err() != nil (0 for ChainAfterFunc), calls = number of calls of f,
                          live = registrations still pending on the probe contexts (probe = 1), waiters = live waiter
                          goroutines of ConflatedContext, idk = 1 result is the primary itself / 2 it is Background / 0 fresh
           op 3        : found value *)
open Core
module L = Stdlib.List
module C = Context
type nat = Datatypes.nat

type mach =
  | MChain of nat * nat * C.cst
  | MComb of nat option * nat option list * C.bst
  | MConf of nat list * C.fstate

type cst = { probe : bool; nenv : nat; nenv_i : int; m : mach; constructed : bool; never : int list }

let fuel = nat_of_int 4000

module CtxM = struct
  type st = cst
  type op = int list
  type out = int list
  let name = "ctx"

  let init (cfg : int list) : st =
    match cfg with
    | kind :: probe :: nenv :: rest ->
        let rec take_env k l acc =
          if k = 0 then (L.rev acc, l)
          else match l with
            | p :: key :: v :: tl ->
                let e = { C.eparent = (if p <= 0 then None else Some (nat_of_int (p - 1)));
                          C.ekv = (if key = 0 then None else Some (nat_of_int key, nat_of_int v)) } in
                take_env (k - 1) tl (e :: acc)
            | _ -> failwith "ctx: bad env" in
        let (env, rest') = take_env nenv rest [] in
        let never =
          let rec go k l acc = if k = nenv then acc else (match l with p :: _ :: _ :: tl -> go (k + 1) tl (if p < 0 then k :: acc else acc) | _ -> acc) in
          go 0 rest [] in
        let rest = rest' in
        let (pre, args) = match rest with
          | npre :: tl ->
              let rec take k l acc = if k = 0 then (L.rev acc, l) else (match l with x :: tl -> take (k - 1) tl (x :: acc) | [] -> failwith "ctx: bad pre") in
              take npre tl []
          | [] -> failwith "ctx: bad cfg" in
        let ns = C.build_env env (L.map nat_of_int pre) in
        let opt x = if x = 0 then None else Some (nat_of_int (x - 1)) in
        let m = match kind, args with
          | 0, [cx; other] -> MChain (nat_of_int cx, nat_of_int other, C.chain_init ns)
          | 1, p :: n :: os when L.length os = n -> MComb (opt p, L.map opt os, C.combine_init ns)
          | 2, n :: is when L.length is = n -> MConf (L.map nat_of_int is, C.confl_init ns)
          | _ -> failwith "ctx: bad args" in
        { probe = probe <> 0; nenv = nat_of_int nenv; nenv_i = nenv; m; constructed = false; never }
    | _ -> failwith "ctx: bad cfg"

  let settle (s : st) : st =
    match s.m with
    | MChain (cx, o, c) ->
        let c' = C.chain_settle true cx o s.nenv fuel c in
        if not (C.chain_quiescent c') then failwith "ctx: chain model did not reach quiescence";
        { s with m = MChain (cx, o, c') }
    | MComb (p, os, b) ->
        let b' = C.combine_settle true p os s.nenv fuel b in
        if not (C.combine_quiescent b') then failwith "ctx: combine model did not reach quiescence";
        { s with m = MComb (p, os, b') }
    | MConf (is, f) ->
        let f' = C.confl_settle true true is s.nenv fuel f in
        (match f'.C.fpcv with
         | C.FPanic -> ()
         | _ -> if not (C.confl_quiescent f') then failwith "ctx: conflated model did not reach quiescence");
        { s with m = MConf (is, f') }

  let apply (s : st) (l : C.lbl) : st =
    match s.m with
    | MChain (cx, o, c) -> { s with m = MChain (cx, o, C.run (C.chain_step true cx o s.nenv) c [l]) }
    | MComb (p, os, b) -> { s with m = MComb (p, os, C.run (C.combine_step true p os s.nenv) b [l]) }
    | MConf (is, f) -> { s with m = MConf (is, C.run (C.confl_step true true is s.nenv) f [l]) }

  let world (s : st) : C.world =
    match s.m with MChain (_, _, c) -> c.C.cw | MComb (_, _, b) -> b.C.bw | MConf (_, f) -> f.C.fw

  let result (s : st) : nat option =
    match s.m with
    | MChain _ -> None
    | MComb (_, _, b) -> C.combine_ret b
    | MConf (_, f) -> (match f.C.fpcv with C.FRet -> Some f.C.fR | _ -> None)

  let observe (s : st) : int list =
    let w = world s in
    let cancelled = match result s with Some r -> if C.is_canc w.C.nodes r then 1 else 0 | None -> 0 in
    let live =
      if not s.probe then 0
      else L.length (L.filter (fun r -> r.C.rst = C.Pending && int_of_nat r.C.rnode < s.nenv_i
                                       && not (L.mem (int_of_nat r.C.rnode) s.never)) w.C.regs) in
    let waiters = match s.m with
      | MConf (_, f) -> (match f.C.fwait with C.WWait | C.WCancel -> 1 | _ -> 0)
      | _ -> 0 in
    let idk = match s.m with
      | MComb (p, _, b) -> (match b.C.bpcv, p with C.BRetP _, Some _ -> 1 | C.BRetP _, None -> 2 | _ -> 0)
      | _ -> 0 in
    let negpanic = if w.C.wgneg then 1000 else 0 in   (* a negative WaitGroup counter is a panic: never equal to an impl value *)
    [cancelled + negpanic; int_of_nat w.C.calls; live; waiters; idk]

  (* run the library function's own goroutine until it is about to perform the Err() check number i *)
  let rec until_check (s : st) (i : int) (budget : int) : st * bool =
    if budget = 0 then (s, false)
    else
      let at = match s.m with
        | MComb (_, _, b) -> (match b.C.bpcv with C.BCheck (k, _) -> int_of_nat k = i | _ -> false)
        | MConf (_, f) -> (match f.C.fpcv with C.FLoop k -> int_of_nat k = i | _ -> false)
        | MChain (_, _, c) -> int_of_nat c.C.cpc = 0 in   (* "check 0" of ChainAfterFunc = its first AfterFunc registration *)
      if at then (s, true)
      else
        let fin = match s.m with
          | MComb (_, _, b) -> (match C.combine_ret b with Some _ -> true | None -> false)
          | MConf (_, f) -> (match f.C.fpcv with C.FRet | C.FPanic -> true | _ -> false)
          | MChain _ -> true in
        if fin then (s, false) else until_check (apply s C.LMain) i (budget - 1)

  (* the library function's own goroutine runs until it has returned *)
  let rec run_main (s : st) (budget : int) : st =
    let fin = match s.m with
      | MComb (_, _, b) -> (match C.combine_ret b with Some _ -> true | None -> false)
      | MConf (_, f) -> (match f.C.fpcv with C.FRet | C.FPanic -> true | _ -> false)
      | MChain (_, _, c) -> int_of_nat c.C.cpc >= 2 in
    if fin || budget = 0 then s else run_main (apply s C.LMain) (budget - 1)

  (* the effect of an operation, without running hook goroutines / waiter *)
  let effect (s : st) (o : op) : st =
    match o with
    | [0] -> run_main { s with constructed = true } 2000
    | [1; n] -> apply s (C.LCancel (nat_of_int n))
    | [2] -> apply s C.LUser
    | [4] -> s
    | l -> failwith ("ctx: bad base op " ^ show_ints l)

  let rec step (s : st) (o : op) : st * out =
    match o with
    | [4] -> let s' = if s.constructed then settle s else s in (s', observe s')
    | 9 :: k :: rest when L.length rest > k ->
        let rec split i l acc = if i = 0 then (L.rev acc, l) else (match l with x :: tl -> split (i - 1) tl (x :: acc) | [] -> failwith "ctx: bad op 9") in
        let (js, base) = split k rest [] in
        let s1 = effect s base in
        let s2 = L.fold_left (fun st j -> apply st (C.LCancel (nat_of_int j))) s1 js in
        let s' = if s2.constructed then settle s2 else s2 in (s', observe s')
    | [0] -> let s' = settle { s with constructed = true } in (s', observe s')
    | [5; i; j] ->
        let (s1, at) = until_check s i 1000 in
        let s2 = if at then apply (apply s1 C.LMain) (C.LCancel (nat_of_int j)) else s1 in
        let s' = settle { s2 with constructed = true } in (s', observe s')
    | [1; n] ->
        let s1 = apply s (C.LCancel (nat_of_int n)) in
        let s' = if s.constructed then settle s1 else s1 in (s', observe s')
    | [2] -> let s' = settle (apply s C.LUser) in (s', observe s')
    | [3; key] ->
        let w = world s in
        (match result s with
         | Some r -> (match C.lookup (C.vals_of w.C.nodes r) (nat_of_int key) with
                      | Some v -> (s, [1; int_of_nat v]) | None -> (s, [0; 0]))
         | None -> (s, [0; 0]))
    | l -> failwith ("ctx: bad op " ^ show_ints l)

  let internal _ = []
  let op_of_ints l = l
  let ints_of_out l = l
  let blocked _ = false
end
module CtxC = Check (CtxM)

let init () = register "ctx" (fun kind caseid rest -> CtxC.handle kind caseid rest) CtxC.summary
