(* adapter for Model/Callable.v (C19): bigbuff.Call + CallArgs / CallResults / CallResultsSlice.

   The model's Section variables (reflect's tables) are instantiated with what reflect itself says: the harness dumps
   Kind / Elem / AssignableTo for its type universe in an `F callable_universe` record that precedes the K1 records.
   Types are indices into that universe.

   Encodings (shared with harness/inpkg/callable_c19.go); {x}+ means x repeated:
     cfg : nfixed f.. vari nout {otype id dyn}+      the signature (vari = -1: not variadic, else the element type of the
                                                     trailing parameter) and what the made function returns: id = 0 is the
                                                     zero value of otype, else a tagged value whose dynamic type is dyn
     op  : nopts {kind n {ty nil id}+}+              kind 0 CallArgs, 1 CallResults, 2 CallResultsSlice (n = 1);
                                                     ty = -1: untyped nil
     out : res ninv {nargs {static dyn id}+}+ ntargets {-1 or natoms {dyn id}+}+
           res 0 = nil error, 1 = error, 2 = panic; one block per invocation of the function; one block per value passed
           to a results option, in order: -1 when it has no pointee to look at, else the final content of the pointee
           (for a slice pointee: one atom per element).  A target with tag k initially holds the sentinel k+5000.
   A value is observed as (static type, dynamic type, tag): tag 0 = zero value / nil; dynamic = -1 for a nil interface. *)
open Core
module L = Stdlib.List

let n_types = ref 0
let kinds : Callable.kindT array ref = ref [||]
let elems : int array ref = ref [||]
let dynrep : int array ref = ref [||]
let assign : bool array array ref = ref [||]

let kind_of_code = function
  | 0 -> Callable.KBool | 1 -> Callable.KInt | 2 -> Callable.KUint | 3 -> Callable.KFloat | 4 -> Callable.KComplex
  | 5 -> Callable.KString | 6 -> Callable.KStruct | 7 -> Callable.KArray | 8 -> Callable.KPtr | 9 -> Callable.KSlice
  | 10 -> Callable.KMap | 11 -> Callable.KChan | 12 -> Callable.KFunc | 13 -> Callable.KIface | 14 -> Callable.KUnsafePtr
  | k -> failwith ("callable: bad kind code " ^ string_of_int k)

let chk t = if t < 0 || t >= !n_types then failwith ("callable: type index out of the dumped universe: " ^ string_of_int t)
let kind (t : int) = chk t; !kinds.(t)
let assignable (a : int) (b : int) = chk a; chk b; !assign.(a).(b)
let elem (t : int) = chk t; let e = !elems.(t) in if e < 0 then t else e
let is_iface t = (kind t = Callable.KIface)
let is_slice t = (kind t = Callable.KSlice)

let rec take n l = if n <= 0 then ([], l) else match l with [] -> failwith "callable: short record" | x :: r -> let (a, b) = take (n - 1) r in (x :: a, b)

let load_universe (args : int list) : int list =
  match args with
  | n :: rest ->
      let (ks, rest) = take n rest in
      let (es, rest) = take n rest in
      let (ds, rest) = take n rest in
      let (m, rest) = take (n * n) rest in
      if rest <> [] then failwith "callable: long universe record";
      n_types := n;
      kinds := Array.of_list (L.map kind_of_code ks);
      elems := Array.of_list es;
      dynrep := Array.of_list ds;
      let ma = Array.of_list m in
      assign := Array.init n (fun i -> Array.init n (fun j -> ma.(i * n + j) <> 0));
      (* the one hypothesis of the C19 theorems about the tables: AssignableTo is reflexive *)
      let refl = ref true in
      for i = 0 to n - 1 do if not !assign.(i).(i) then refl := false done;
      [n; (if !refl then 1 else 0)]
  | [] -> failwith "callable: empty universe record"

type cfg = { sg : int Callable.coq_sig; outs : int Callable.rval list; ids : (int, int * bool) Hashtbl.t }

let mk_val ty nl id : int Callable.coq_val =
  { Callable.vty = (if ty < 0 then None else Some ty); Callable.vnil = (nl <> 0); Callable.vid = z_of_int id }

let parse_cfg (l : int list) : cfg =
  match l with
  | nf :: rest ->
      let (fixed, rest) = take nf rest in
      (match rest with
       | vari :: nout :: rest ->
           let ids = Hashtbl.create 32 in
           let rec go k rest = if k = 0 then (if rest <> [] then failwith "callable: long cfg" else []) else
             match rest with
             | o :: id :: dyn :: rest' ->
                 if id <> 0 then Hashtbl.replace ids id (dyn, false);
                 { Callable.rty = o; Callable.rsrc = (if id = 0 then Callable.SZeroOf o else Callable.SVal (z_of_int id)) } :: go (k - 1) rest'
             | _ -> failwith "callable: short cfg" in
           let outs = go nout rest in
           { sg = { Callable.s_fixed = fixed; Callable.s_var = (if vari < 0 then None else Some vari);
                    Callable.s_out = L.map (fun (r : int Callable.rval) -> r.Callable.rty) outs };
             outs; ids }
       | _ -> failwith "callable: short cfg")
  | [] -> failwith "callable: empty cfg"

let parse_opts (l : int list) : int Callable.copt list =
  match l with
  | n :: rest ->
      let rec vals k rest = if k = 0 then ([], rest) else
        match rest with
        | ty :: nl :: id :: rest' -> let (vs, r) = vals (k - 1) rest' in (mk_val ty nl id :: vs, r)
        | _ -> failwith "callable: short op" in
      let rec go k rest = if k = 0 then (if rest <> [] then failwith "callable: long op" else []) else
        match rest with
        | kd :: m :: rest' ->
            let (vs, r) = vals m rest' in
            let o = (match kd, vs with
                     | 0, _ -> Callable.OArgs vs
                     | 1, _ -> Callable.OResults vs
                     | 2, [v] -> Callable.OResultsSlice v
                     | _ -> failwith "callable: bad option") in
            o :: go (k - 1) r
        | _ -> failwith "callable: short op" in
      go n rest
  | [] -> failwith "callable: empty op"

(* what an observer sees of a reflect.Value of static type `st` with content `s` *)
let obs (c : cfg) (ids : (int, int * bool) Hashtbl.t) (st : int) (s : int Callable.src) : int * int * int =
  match s with
  | Callable.SVal z ->
      let id = int_of_z z in
      let (d, nl) = try Hashtbl.find ids id with Not_found -> (try Hashtbl.find c.ids id with Not_found -> (-2, false)) in
      (st, (if is_iface st then d else st), (if nl then 0 else id))
  | Callable.SZeroOf o -> (st, (if is_iface st then (if is_iface o then -1 else o) else st), 0)

let res_code = function Callable.ROk -> 0 | Callable.RErr _ -> 1 | Callable.RPanic _ -> 2

let targets_of (opts : int Callable.copt list) : int Callable.coq_val list =
  L.concat (L.map (function Callable.OArgs _ -> [] | Callable.OResults vs -> vs | Callable.OResultsSlice v -> [v]) opts)

let observable (v : int Callable.coq_val) : int option =
  match v.Callable.vty with
  | Some t when kind t = Callable.KPtr && not v.Callable.vnil -> Some (elem t)
  | _ -> None

let encode (c : cfg) (opts : int Callable.copt list) (o : int Callable.outcome) : int list =
  let ids = Hashtbl.create 32 in
  L.iter (function
      | Callable.OArgs vs | Callable.OResults vs ->
          L.iter (fun (v : int Callable.coq_val) ->
              match v.Callable.vty with Some t -> Hashtbl.replace ids (int_of_z v.Callable.vid) (t, v.Callable.vnil) | None -> ()) vs
      | Callable.OResultsSlice _ -> ()) opts;
  let inv = L.concat (L.map (fun (args : int Callable.rval list) ->
      L.length args :: L.concat (L.map (fun (r : int Callable.rval) ->
          let (a, b, d) = obs c ids r.Callable.rty r.Callable.rsrc in [a; b; d]) args)) o.Callable.o_inv) in
  (* final content of every target: start from the sentinel, replay the stores in order *)
  let tg = targets_of opts in
  let state : (int, (int * int) list) Hashtbl.t = Hashtbl.create 8 in
  let pointee : (int, int) Hashtbl.t = Hashtbl.create 8 in
  L.iter (fun (v : int Callable.coq_val) ->
      match observable v with
      | Some e ->
          let id = int_of_z v.Callable.vid in
          Hashtbl.replace pointee id e;
          let et = if is_slice e then elem e else e in
          Hashtbl.replace state id [(!dynrep.(et), id + 5000)]
      | None -> ()) tg;
  let atom st s = let (_, d, i) = obs c ids st s in (d, i) in
  L.iter (function
      | Callable.SSet (tz, v) ->
          let tid = int_of_z tz in
          (match Hashtbl.find_opt pointee tid with
           | None -> Hashtbl.replace state tid [(-3, -3)]          (* a store through something that has no pointee *)
           | Some e ->
               if is_slice e then
                 (match v.Callable.rsrc with
                  | Callable.SZeroOf _ -> Hashtbl.replace state tid []
                  | Callable.SVal z ->
                      let id = int_of_z z in
                      let (d, nl) = try Hashtbl.find c.ids id with Not_found -> (try Hashtbl.find ids id with Not_found -> (-2, false)) in
                      if nl || d < 0 then Hashtbl.replace state tid []
                      else Hashtbl.replace state tid [(!dynrep.(elem d), id)])
               else Hashtbl.replace state tid [atom e v.Callable.rsrc])
      | Callable.SAppend (tz, vs) ->
          let tid = int_of_z tz in
          let cur = try Hashtbl.find state tid with Not_found -> [(-3, -3)] in
          Hashtbl.replace state tid (cur @ L.map (fun (r : int Callable.rval) -> atom r.Callable.rty r.Callable.rsrc) vs))
    o.Callable.o_sto;
  let tgs = L.concat (L.map (fun (v : int Callable.coq_val) ->
      match observable v with
      | None -> [-1]
      | Some _ ->
          let a = Hashtbl.find state (int_of_z v.Callable.vid) in
          L.length a :: L.concat (L.map (fun (d, i) -> [d; i]) a)) tg) in
  [res_code o.Callable.o_res; L.length o.Callable.o_inv] @ inv @ [L.length tg] @ tgs

let run (fixed : bool) (c : cfg) (opts : int Callable.copt list) : int Callable.outcome =
  Callable.call kind assignable elem fixed Callable.MNone c.sg (fun _ -> c.outs) opts

(* the property's model: the repaired pipeline *)
module CallM = struct
  type st = cfg
  type op = int Callable.copt list
  type out = int list
  let name = "callable"
  let init = parse_cfg
  let step (c : cfg) (opts : op) =
    let o = run true c opts in
    (* cross-check of the extracted specification functions against the extracted pipeline (C19_fixed_is_direct_call_or_error) *)
    let v = Callable.valid kind assignable elem c.sg opts in
    let ok =
      if v then
        let ea = Callable.expected_args c.sg opts in
        o.Callable.o_res = Callable.ROk && o.Callable.o_inv = [ea]
        && o.Callable.o_sto = Callable.expected_stores elem opts c.outs
      else (match o.Callable.o_res with Callable.RErr _ -> o.Callable.o_inv = [] && o.Callable.o_sto = [] | _ -> false) in
    if not ok then failwith "callable: extracted call disagrees with its proved specification";
    (c, encode c opts o)
  let internal _ = []
  let op_of_ints = parse_opts
  let ints_of_out (o : out) = o
  let blocked _ = false
end
module CallC = Check (CallM)

(* the code as it is (fixed = false): not a verdict, only a statistic showing on which records the faithful model of the
   current code agrees with the implementation *)
module CurM = struct
  include CallM
  let name = "callable_current"
  let step (c : cfg) (opts : op) = (c, encode c opts (run false c opts))
end
module CurC = Check (CurM)
let cur_cases = ref 0 and cur_agree = ref 0

let init () =
  register "callable"
    (fun kind caseid rest ->
       CallC.handle kind caseid rest;
       (match kind, split_on "#" rest with
        | "K1", [c; p] ->
            (match split_on "|" p with
             | [opsT; outsT] ->
                 let ops = L.map ints (L.filter (fun x -> x <> []) (split_on ";" opsT)) in
                 let outs = L.map ints (L.filter (fun x -> x <> []) (split_on ";" outsT)) in
                 incr cur_cases;
                 (match CurC.k1 caseid (ints c) ops outs with (_, None) -> incr cur_agree | _ -> ())
             | _ -> ())
        | _ -> ()))
    (fun () ->
       CallC.summary ();
       Printf.printf "SUMMARY model=callable_current k1_cases=%d agree=%d\n" !cur_cases !cur_agree);
  register_fn "callable_universe" load_universe;
  register_fn "callable_nilable" (function [k] -> [if Callable.nilable (kind_of_code k) then 1 else 0] | _ -> failwith "args")
