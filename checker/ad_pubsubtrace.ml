(* adapter for Model/PubSubSplit.v + Model/PubSubIdx.v, composed in Model/PubSubTraceAux.v (C06, C07): TRACE ACCEPTANCE of the
   ChanPubSub protocol.  On an instrumented build the harness (harness/inpkg/pubsub_trace.go) logs, in the order they happen and
   with the thread that executes them, the synchronisation points of chanpubsub.go and of the embedded ChanCaster (announced
   BEFORE the operation executes), the calls and returns of Send / Add / Wait with their values, and the subscribers' own channel
   operations (about to receive on C / received v).  The function below decides whether the log is a run of the EXTRACTED
   [PubSubTraceAux.jstep] = [PubSubSplit.xstep] on the shared state and the sender (every atomic operation of Send is a step of
   its own) with the per-index bookkeeping of [PubSubIdx.nstep] (every subscription is a model index with its own program
   point and its own log of rounds received).  Beside every [jstep] the extracted [PubSubSplit.xstep] is applied to the base
   and must agree, and [PubSubTraceAux.jcount_ok] (the CountInv of Proofs/PubSubIdx.v) must hold.

   Observations are consumed in order against a SET of candidate states; between two observations the model may take the
   steps whose announcement has been logged or that have none (see below); an announced step only after its announcement and
   before the same thread's next observation.  A rendezvous on C needs both sides announced.  The outcome of a TryRLock, of a
   Load or of a CompareAndSwap is the model's at the moment the step is taken and is confirmed by what the thread does next.

   Unannounced steps: the writer's wait for the readers to drain inside sendingMu.Lock (X3 -> X4a), the bookkeeping X6 -> X7a,
   Send's release of sendMu (X9 / X10 -> XNone; deferred in the source: it may be taken as soon as the model allows it, that
   is with pongN = 0 and after the Broadcast was announced; when the source announces sendMu.Unlock the step is taken there),
   the deferred RUnlock of Add(+1) (PU2), Wait's pongN-- (PWait: anywhere between the announcement of pongC.L.Lock and the
   Broadcast announcement / the return).

   SubscribeContext iterators.  A subscriber may also subscribe through SubscribeContext: the same model index, whose Add(+1) /
   receive / Wait / Add(-1) are then made inside SubscribeContext, inside the iterator and inside Unsubscribe (no call / return
   observations of their own; the value is logged by the loop body, after Wait).  WHO calls Unsubscribe is decided by the extracted
   [PubSubIter.istep] (one instance per iterator subscription, program = does anybody cancel / is the iterator ever invoked / does
   the loop body break): the canceller's two steps (publish the cancellation, once.Do) are taken between `cancel called` and
   `cancel returned`; stop() (IStop -> ILoop | IRet) has no announcement and is confirmed by what the iterator does next (a select of
   the loop, or an immediate return); the iterator's goroutine announces Unsubscribe only from IDefer (left the loop: the model's
   ctx.Done() is closed, or the loop body has logged that it breaks); the AfterFunc goroutine (identified by the goroutine that
   created it: the canceller of that subscription) announces Unsubscribe only from ARun.

   args: seed case S R complete nev (thread kind arg)*nev
     kind 1 Send(v) called | 2 Send returned arg | 3 Send panicked | 4 POINT class | 5 Add(arg) called (arg = 1 | -1) | 6 Add returned arg
        | 7 Add panicked | 8 about to receive on C | 9 received arg | 10 every call returned; Add(0) = arg | 11 Wait called
        | 12 Wait returned | 13 Wait panicked | 20 SubscribeContext called | 21 SubscribeContext returned | 22 cancel called
        | 23 cancel returned | 24 iterator invoked | 25 iterator returned | 26 SubscribeContext / iterator panicked | 27 the loop body breaks
     class (kind 4): 1 subscribers.Load 2 subscribers.Add/CompareAndSwap/Store/Swap 3 sendMu.Lock 4 sendMu.Unlock 5 sendingMu.Lock
        6 sendingMu.Unlock 7 sendingMu.RLock 8 sendingMu.TryRLock 9 sendingMu.RUnlock 10 pongC.L.Lock 11 pongC.L.Unlock 12 pongC.Wait
        13 pongC.Broadcast 14 pongC.Signal 15 caster state.Load 16 caster state.CompareAndSwap 17 caster state.Add 18 caster state.Store/Swap
        19 channel send 20 channel receive 21 caster mutex operation (not part of this model) 22 call of an instrumented method
        (x.ping.Add, x.Add, x.Wait: the operations are announced inside) 23 checkBroken's non-blocking select 24 a point of markBroken
        25 a select of SubscribeContext's loop 26 context.AfterFunc 28 the x.Add(-1) of Unsubscribe
     threads 0..S-1 are senders, S..S+R-1 subscribers, S+R..S+2R-1 their cancellers, S+2R..S+3R-1 their AfterFunc goroutines
   result: [1] accepted | [0; i] observation i is the first no candidate state explains (a MISMATCH line with the observation
           and the candidates' program points is printed) | [2; n] the log ended (all calls returned) but no candidate is at rest
           | [4; n] the final subscriber count is not subscribes - unsubscribes *)
open Core
module L = Stdlib.List
module A = PubSubAbs
module X = PubSubSplit
module I = PubSubIdx
module J = PubSubTraceAux
module T = PubSubIter

let all_vars = [ A.Coq_nsend; A.Coq_sq; A.Coq_k; A.Coq_sent; A.Coq_rcv; A.Coq_w; A.Coq_wp; A.Coq_r; A.Coq_subs; A.Coq_cnt; A.Coq_armed;
                 A.Coq_pongN; A.Coq_u0; A.Coq_u1; A.Coq_u2; A.Coq_b0o; A.Coq_b0n; A.Coq_b1; A.Coq_n1o; A.Coq_n1n; A.Coq_n2ko; A.Coq_n2kn;
                 A.Coq_n3k; A.Coq_n2fo; A.Coq_n2fn; A.Coq_n4o; A.Coq_n4n; A.Coq_n5; A.Coq_fin; A.Coq_bad; A.Coq_steal ]
let var_names = [ "nsend"; "sq"; "k"; "sent"; "rcv"; "w"; "wp"; "r"; "subs"; "cnt"; "armed"; "pongN"; "u0"; "u1"; "u2"; "b0o"; "b0n"; "b1";
                  "n1o"; "n1n"; "n2ko"; "n2kn"; "n3k"; "n2fo"; "n2fn"; "n4o"; "n4n"; "n5"; "fin"; "bad"; "steal" ]
let vidx (x : A.var) : int =
  let rec go i = function [] -> failwith "pubsub_trace: var" | y :: r -> if y = x then i else go (i + 1) r in
  go 0 all_vars
let vname (x : A.var) = L.nth var_names (vidx x)

(* where a real thread is *)
type pc =
  | SI   (* sender: no Send in progress (a future Send is counted in nsend) *)
  | SC   (* Send called; the fast-path Load of subscribers is not announced yet *)
  | SF   (* fast-path Load announced: PSendStart may be taken *)
  | SZ   (* PSendStart found subscribers = 0: the call returns 0 *)
  | SQ   (* counted in sq; the next point is sendMu.Lock() *)
  | SL   (* sendMu.Lock announced: PSendLock may be taken (then this is the active Send, pc SA) *)
  | SA   (* the Send that holds sendMu: the model's xp is its program counter *)
  | SD   (* released sendMu (-> XNone taken); [exp] is the value it returns; [nb]: sendingMu.Unlock not announced yet (slow path that found nobody) *)
  | RI   (* subscriber thread: no subscription in progress *)
  | RC   (* Add(1) called (u0) *)
  | RL   (* sendingMu.RLock announced: PU0 may be taken *)
  | R1   (* u1: holds the read lock *)
  | R1a  (* u1, the add to subscribers announced: PU1 may be taken *)
  | R2   (* u2: added, before the (deferred) RUnlock; [exp] = value Add returns *)
  | R2a  (* u2: an explicit RUnlock has been announced *)
  | RB   (* b0: subscribed, Add(1) has not returned to the caller yet *)
  | RW   (* b0: subscribed and idle *)
  | RR   (* b0: about to receive on C (may rendezvous with a sender offering a copy) *)
  | RG   (* b1: took a copy; [exp] = the value *)
  | RH   (* b1: the harness has logged the value; Wait not called yet *)
  | WC   (* b1: Wait called *)
  | WL   (* b1: pongC.L.Lock announced: PWait may be taken *)
  | WD   (* b0n: pong consumed; [nb] = it was the last one (Broadcast owed), [bcd] = Broadcast announced *)
  | RDC  (* b0: Add(-1) called *)
  | RDT  (* b0: the first TryRLock announced: PUnsub may be taken *)
  | RS   (* n1: TryRLock failed, spinning *)
  | RSl  (* n1: the caster's Load (ping.Add(0)) announced: sees 0 (no step) or leaves the loop without the lock (PSpin -> n2f) *)
  | RSt  (* n1: another TryRLock announced: fails (no step) or succeeds (PSpin -> n2k) *)
  | RK   (* n2k: holds the read lock *)
  | RKa  (* n2k: the subtraction from subscribers announced *)
  | RK3  (* n3k: subtracted, before RUnlock; [exp] = value Add returns *)
  | RK3a (* n3k: RUnlock announced *)
  | RNF  (* n2f: left the loop without the lock *)
  | RNFa (* n2f: the subtraction from subscribers announced *)
  | RN4  (* n4: before the caster's Add(-1); [exp] = value Add returns *)
  | RN4a (* n4: the caster's atomic Add announced *)
  | RN5  (* n5: decremented an armed caster: must absorb one copy *)
  | RN5a (* n5: the receive announced (may rendezvous) *)
  | RF   (* fin: [exp] = value Add returns *)
  | IW   (* iterator subscription: b0, SubscribeContext has returned, the iterator is not running *)
  | II   (* iterator invoked; stop() not decided yet *)
  | IX   (* stop() returned false: the iterator returns at once *)
  | IL   (* b0: inside the iterator's loop *)
  | CI   (* canceller: cancel() not called *)
  | CC   (* canceller: inside cancel() *)
  | CD   (* canceller: cancel() returned *)
  | AI   (* AfterFunc goroutine: has not appeared *)

let pc_name = function
  | SI -> "idle" | SC -> "Send:called" | SF -> "Send:fast-Load-announced" | SZ -> "Send:fast-path-0" | SQ -> "Send:queued(sq)"
  | SL -> "Send:sendMu.Lock-announced" | SA -> "Send:ACTIVE" | SD -> "Send:released-sendMu" | RI -> "idle" | RC -> "Add(1):called"
  | RL -> "Add(1):RLock-announced" | R1 -> "Add(1):read-locked" | R1a -> "Add(1):subscribers+1-announced" | R2 -> "Add(1):added"
  | R2a -> "Add(1):RUnlock-announced" | RB -> "subscribed,Add-not-returned" | RW -> "subscribed" | RR -> "receiving" | RG -> "took-a-copy"
  | RH -> "received" | WC -> "Wait:called" | WL -> "Wait:pongC.L.Lock-announced" | WD -> "Wait:pong-consumed" | RDC -> "Add(-1):called"
  | RDT -> "Add(-1):TryRLock-announced" | RS -> "Add(-1):spinning" | RSl -> "Add(-1):spinning,caster-Load-announced"
  | RSt -> "Add(-1):spinning,TryRLock-announced" | RK -> "Add(-1):read-locked" | RKa -> "Add(-1):read-locked,subscribers-1-announced"
  | RK3 -> "Add(-1):subtracted,read-locked" | RK3a -> "Add(-1):RUnlock-announced" | RNF -> "Add(-1):no-lock" | RNFa -> "Add(-1):no-lock,subscribers-1-announced"
  | RN4 -> "Add(-1):before-ping.Add(-1)" | RN4a -> "Add(-1):caster-Add-announced" | RN5 -> "Add(-1):must-absorb"
  | RN5a -> "Add(-1):absorbing-receive-announced" | RF -> "Add(-1):done"
  | IW -> "iterator-not-running" | II -> "iterator:invoked" | IX -> "iterator:stop()-false" | IL -> "iterator:in-loop"
  | CI -> "canceller:idle" | CC -> "canceller:in-cancel()" | CD -> "canceller:done" | AI -> "afterfunc:not-started"

type thr = { pc : pc; exp : int; va : int; idx : int; nb : bool; bcd : bool; it : bool; brk : bool }
(* it: the thread's subscription was made through SubscribeContext (no Add / Wait call and return observations); brk: the loop
   body has logged that it breaks *)
(* exp: see pc; va: the value of the Send in progress (senders); idx: the model index of the thread's current subscription *)

type xs = {
  xp : X.xpc; vals : int list;                        (* the shared state and the sender pc, canonical *)
  locs : int * int * int * int * int;                 (* l4 l5 rc0 l7 l7a *)
  round : int; subs : (A.var * bool * int * int list) list;   (* PubSubIdx: round counter and one record per model index *)
  rvals : int list;                                   (* value of the Send that counted round r, newest first *)
  act : int;                                          (* thread of the active Send, -1 if none *)
  sann : int;                                         (* what the active Send has announced and not yet done:
                                                         0 nothing 1 sendingMu.Lock 2 subscribers.Load 3 caster Add 4 caster Load
                                                         5 caster Load whose non-zero result is discarded (fast path) 6 caster CAS
                                                         7 channel send (offering a copy) 8 sendingMu.Unlock 9 pongC.L.Lock *)
  bc : bool;                                          (* X10: the Broadcast has been announced *)
  nreg : int;                                         (* model indices handed out *)
  its : T.ist option list;                            (* per subscriber slot: the PubSubIter state of its iterator subscription *)
  th : thr list;
}

let ints_of_nats l = L.map int_of_nat l
let st_of (x : xs) : J.jst =
  let arr = Array.of_list (L.map nat_of_int x.vals) in
  let (a, b, c, d, e) = x.locs in
  { J.jbase = { X.xp = x.xp; X.xv = (fun y -> arr.(vidx y)); X.l4 = nat_of_int a; X.l5 = nat_of_int b; X.rc0 = nat_of_int c;
                X.l7 = nat_of_int d; X.l7a = nat_of_int e };
    J.jround = nat_of_int x.round;
    J.jsubs = L.map (fun (p, c, s, l) -> { I.pc = p; I.cnted = c; I.subat = nat_of_int s; I.slog = L.map nat_of_int l }) x.subs }

let base_canon (b : X.xst) = (b.X.xp, L.map (fun v -> int_of_nat (b.X.xv v)) all_vars,
                              (int_of_nat b.X.l4, int_of_nat b.X.l5, int_of_nat b.X.rc0, int_of_nat b.X.l7, int_of_nat b.X.l7a))

let get (x : xs) (y : A.var) : int = L.nth x.vals (vidx y)
let rlockable (x : xs) = get x A.Coq_w = 0 && get x A.Coq_wp = 0

let steps_taken = ref 0
let isteps_taken = ref 0

(* per trace: number of senders / subscriber slots, and the PubSubIter program of every slot *)
let cur_ns = ref 0
let cur_nr = ref 0
let progs : T.prog array ref = ref [||]
let slot_of (i : int) = (i - !cur_ns) mod (max 1 !cur_nr)
let role_of (i : int) = if i < !cur_ns then -1 else (i - !cur_ns) / (max 1 !cur_nr)     (* 0 subscriber 1 canceller 2 AfterFunc goroutine *)
let main_of (slot : int) = !cur_ns + slot

let istep_slot (x : xs) (slot : int) (p : T.ipick) : xs option =
  match L.nth x.its slot with
  | None -> None
  | Some s ->
      (match T.istep (!progs).(slot) s p with
       | None -> None
       | Some s' -> incr isteps_taken; Some { x with its = L.mapi (fun j u -> if j = slot then Some s' else u) x.its })
let ictl_of (x : xs) (slot : int) : T.ictl option = match L.nth x.its slot with Some s -> Some s.T.ic | None -> None

(* one step of the extracted composed model *)
let mstep (x : xs) (q : I.npick) : xs option =
  let s = st_of x in
  match J.jstep s q with
  | None -> None
  | Some s' ->
      incr steps_taken;
      let p = (match q with I.Sender p -> p | I.Sub (_, p) -> p) in
      let (xp', vals', locs') = base_canon s'.J.jbase in
      (match X.xstep s.J.jbase p with
       | Some b when base_canon b = (xp', vals', locs') -> ()
       | _ -> failwith "pubsub_trace: jstep and PubSubSplit.xstep disagree on the shared state");
      if not (J.jcount_ok s') then failwith "pubsub_trace: a counter of the shared state is not the number of indices at that program point (CountInv)";
      Some { x with xp = xp'; vals = vals'; locs = locs'; round = int_of_nat s'.J.jround;
                    subs = L.map (fun u -> (u.I.pc, u.I.cnted, int_of_nat u.I.subat, ints_of_nats u.I.slog)) s'.J.jsubs }

let set_th (x : xs) (i : int) (t : thr) : xs = { x with th = L.mapi (fun j u -> if j = i then t else u) x.th }
let nth_th (x : xs) (i : int) : thr = L.nth x.th i
let mpc (x : xs) (t : thr) : A.var = let (p, _, _, _) = L.nth x.subs t.idx in p

(* subscriber thread i performs action a (PubSubTraceAux.pick_at) *)
let sub_step (x : xs) (t : thr) (a : int) : xs option =
  if t.idx < 0 then None else
  match J.pick_at (mpc x t) (nat_of_int a) with
  | None -> None
  | Some p -> mstep x (I.Sub (nat_of_int t.idx, p))

let is_n2k = function A.Coq_n2ko | A.Coq_n2kn -> true | _ -> false
let is_n2f = function A.Coq_n2fo | A.Coq_n2fn -> true | _ -> false
let is_n1 = function A.Coq_n1o | A.Coq_n1n -> true | _ -> false

(* the steps thread i may take now without a further observation *)
let thread_steps (x : xs) (i : int) (t : thr) : xs list =
  let opt = function Some y -> [y] | None -> [] in
  let offering = x.act >= 0 && x.sann = 7 && x.xp = X.X6 in
  match t.pc with
  | SF ->
      let zero = get x A.Coq_subs = 0 in
      opt (match mstep x (I.Sender A.PSendStart) with
           | Some y -> Some (set_th y i { t with pc = (if zero then SZ else SQ); exp = 0 })
           | None -> None)
  | SL ->
      if x.act >= 0 then [] else
      opt (match mstep x (I.Sender A.PSendLock) with
           | Some y -> Some (set_th { y with act = i; sann = 0; bc = false } i { t with pc = SA; exp = 0 })
           | None -> None)
  | SA when x.act = i ->
      let ps () = mstep x (I.Sender A.PS) in
      let release ?(owes = false) y e = set_th { y with act = -1; sann = 0; bc = false } i { t with pc = SD; exp = e; nb = owes } in
      let ann n k = if x.sann <> n then [] else (match ps () with Some y -> k y | None -> []) in
      (match x.xp with
       | X.XNone -> []
       | X.X2 -> ann 1 (fun y -> [{ y with sann = 0 }])                          (* the writer announces itself to the readers *)
       | X.X3 -> opt (ps ())                                                       (* the readers have drained *)
       | X.X4a ->
           ann 2 (fun y ->
             if y.xp = X.XNone then [release ~owes:true y 0]                       (* subscribers = 0 under the lock: return 0; the model
                                                                                      releases both locks with the Load, the code still
                                                                                      owes the announcement of sendingMu.Unlock *)
             else [{ y with sann = 0; rvals = t.va :: y.rvals }])                  (* the count: a new round *)
       | X.X4b -> ann 3 (fun y -> [{ y with sann = 0 }])
       | X.X5a ->
           (if x.sann = 4 && (get x A.Coq_cnt <> 0 || get x A.Coq_armed <> 0) then [{ x with sann = 5 }] else [])   (* a Load whose non-zero result is not used *)
           @ ann 4 (fun y -> [{ y with sann = 0 }])
       | X.X5b -> ann 6 (fun y -> [{ y with sann = 0 }])
       | X.X6 -> if get x A.Coq_k = 0 && x.sann = 0 then opt (ps ()) else []
       | X.X7a -> ann 4 (fun y -> [{ y with sann = 0 }])
       | X.X7b -> ann 6 (fun y -> [{ y with sann = 0 }])
       | X.X8 -> ann 8 (fun y -> [{ y with sann = 0 }])
       | X.X9 ->
           if get x A.Coq_sent = 0 then ann 0 (fun y -> [release y 0])
           else ann 9 (fun y -> [{ y with sann = 0; bc = false }])
       | X.X10 ->
           if x.bc && get x A.Coq_pongN = 0 then ann 0 (fun y -> [release y (get x A.Coq_sent)]) else [])
  | II ->
      (* stop(): decided by the Once of the registration *)
      opt (match istep_slot x (slot_of i) T.PIt1 with
           | Some y -> (match ictl_of y (slot_of i) with
                        | Some c when c.T.i1 = T.ILoop -> Some (set_th y i { t with pc = IL })
                        | Some c when c.T.i1 = T.IRet -> Some (set_th y i { t with pc = IX })
                        | _ -> None)
           | None -> None)
  | CC ->
      (match ictl_of x (slot_of i) with
       | Some c when c.T.cp <> T.CFin -> opt (istep_slot x (slot_of i) T.PCancel)
       | _ -> [])
  | RL -> opt (match sub_step x t 0 with Some y -> Some (set_th y i { t with pc = R1 }) | None -> None)
  | R1a -> opt (match sub_step x t 1 with Some y -> Some (set_th y i { t with pc = R2; exp = get y A.Coq_subs }) | None -> None)
  | R2 | R2a -> opt (match sub_step x t 2 with Some y -> Some (set_th y i { t with pc = RB }) | None -> None)
  | RR ->
      if not offering then [] else
      opt (match sub_step x t 3 with
           | Some y -> Some (set_th { y with sann = 0 } i { t with pc = RG; exp = (nth_th x x.act).va })
           | None -> None)
  | WL ->
      opt (match sub_step x t 4 with
           | Some y -> Some (set_th y i { t with pc = WD; nb = (get y A.Coq_pongN = 0); bcd = false })
           | None -> None)
  | RDT ->
      opt (match sub_step x t 5 with
           | Some y -> Some (set_th y i { t with pc = (if is_n2k (mpc y t) then RK else RS) })
           | None -> None)
  | RSl ->
      (if get x A.Coq_cnt = 0 then [set_th x i { t with pc = RS }] else [])        (* ping.Add(0) = 0: keep spinning *)
      @ (if rlockable x then [] else
         opt (match sub_step x t 6 with
              | Some y when is_n2f (mpc y t) -> Some (set_th y i { t with pc = RNF })
              | _ -> None))
  | RSt ->
      (if rlockable x then
         opt (match sub_step x t 6 with
              | Some y when is_n2k (mpc y t) -> Some (set_th y i { t with pc = RK })
              | _ -> None)
       else [set_th x i { t with pc = RS }])                                       (* TryRLock fails: keep spinning *)
  | RKa -> opt (match sub_step x t 7 with Some y -> Some (set_th y i { t with pc = RK3; exp = get y A.Coq_subs }) | None -> None)
  | RK3 | RK3a -> opt (match sub_step x t 8 with Some y -> Some (set_th y i { t with pc = RF }) | None -> None)
  | RNFa -> opt (match sub_step x t 7 with Some y -> Some (set_th y i { t with pc = RN4; exp = get y A.Coq_subs }) | None -> None)
  | RN4a ->
      opt (match sub_step x t 9 with
           | Some y -> Some (set_th y i { t with pc = (if mpc y t = A.Coq_n5 then RN5 else RF) })
           | None -> None)
  | RN5a ->
      if not offering then [] else
      opt (match sub_step x t 10 with Some y -> Some (set_th { y with sann = 0 } i { t with pc = RF }) | None -> None)
  | _ -> []

let internal (x : xs) : xs list = L.concat (L.mapi (fun i t -> thread_steps x i t) x.th)

let key (x : xs) : string = Marshal.to_string x [Marshal.No_sharing]

let closure (xs : xs list) : xs list =
  let seen = Hashtbl.create 256 in
  let rec go acc = function
    | [] -> acc
    | x :: rest ->
        let k = key x in
        if Hashtbl.mem seen k then go acc rest else (Hashtbl.add seen k (); go (x :: acc) (internal x @ rest)) in
  go [] xs

(* thread i has announced an operation that it has not executed yet (it executes before the thread's next observation) *)
let pending (x : xs) (i : int) (t : thr) : bool =
  match t.pc with
  | SF | SL | RL | R1a | R2a | RDT | RSl | RSt | RKa | RK3a | RNFa | RN4a | RN5a -> true
  | SA when x.act = i -> (x.sann <> 0 && x.sann <> 5) || x.xp = X.X3
  | _ -> false

(* an observation by thread i *)
let observe (ns : int) ((i, kind, arg) : int * int * int) (x : xs) : xs list =
  if kind = 10 then begin
    (* every call has returned; Add(0) by the driver *)
    if x.act >= 0 || L.exists (fun b -> b) (L.mapi (fun j t -> not (L.mem t.pc [SI; RI; RW; RR; IW; CI; CD; AI] || (t.pc = RF && t.it && role_of j = 2))) x.th) then []
    else if get x A.Coq_subs <> arg then []
    else if not (J.jrestb (st_of x)) then []
    else if L.exists (fun b -> b) (L.mapi (fun slot u -> match u with Some s -> not (T.iterminalb (!progs).(slot) s) | None -> false) x.its) then []
    else [x]
  end else
  let t = nth_th x i in
  let sender = i < ns in
  let upd t' = [set_th x i t'] in
  let active = sender && t.pc = SA && x.act = i in
  if kind = 4 && (arg = 21 || arg = 22 || arg = 23) then (if pending x i t then [] else [x])
  else if kind = 4 && arg = 24 then (if get x A.Coq_bad <> 0 then [x] else [])     (* markBroken is reached only where the model sets bad *)
  else
  match kind, sender with
  | 1, true -> if t.pc = SI then upd { t with pc = SC; va = arg; exp = 0 } else []
  | 2, true -> if (t.pc = SZ && arg = 0) || (t.pc = SD && t.exp = arg && not t.nb) then upd { t with pc = SI } else []
  | 3, true -> []
  | 4, true ->
      (match arg with
       | 1 -> if t.pc = SC then upd { t with pc = SF }
              else if active && x.xp = X.X4a && x.sann = 0 then [{ x with sann = 2 }] else []
       | 3 -> if t.pc = SQ then upd { t with pc = SL } else []
       | 4 ->                                                                     (* an explicit sendMu.Unlock: the release is taken here *)
           if t.pc = SD then [x]
           else if active && x.sann = 0 then
             (match x.xp with
              | X.X9 when get x A.Coq_sent = 0 ->
                  (match mstep x (I.Sender A.PS) with
                   | Some y -> [set_th { y with act = -1; sann = 0; bc = false } i { t with pc = SD; exp = 0 }] | None -> [])
              | X.X10 when x.bc && get x A.Coq_pongN = 0 ->
                  (match mstep x (I.Sender A.PS) with
                   | Some y -> [set_th { y with act = -1; sann = 0; bc = false } i { t with pc = SD; exp = get x A.Coq_sent }] | None -> [])
              | _ -> [])
           else []
       | 5 -> if active && x.xp = X.X2 && x.sann = 0 then [{ x with sann = 1 }] else []
       | 6 -> if t.pc = SD then upd { t with nb = false }                          (* the slow path that found nobody: released with the Load *)
              else if active && x.xp = X.X8 && x.sann = 0 then [{ x with sann = 8 }] else []
       | 10 -> if active && x.xp = X.X9 && x.sann = 0 && get x A.Coq_sent <> 0 then [{ x with sann = 9 }] else []
       | 11 -> if t.pc = SD || (active && x.xp = X.X10 && x.sann = 0 && get x A.Coq_pongN = 0) then [x] else []
       | 12 -> if active && x.xp = X.X10 && x.sann = 0 && x.bc && get x A.Coq_pongN <> 0 then [x] else []
       | 13 -> if active && x.xp = X.X10 && x.sann = 0 then [{ x with bc = true }] else []
       | 15 -> if active && x.xp = X.X5a && (x.sann = 0 || x.sann = 5) then [{ x with sann = 4 }]
               else if active && x.xp = X.X7a && x.sann = 0 then [{ x with sann = 4 }] else []
       | 16 -> if active && (x.xp = X.X5b || x.xp = X.X7b) && x.sann = 0 then [{ x with sann = 6 }] else []
       | 17 -> if active && x.xp = X.X4b && x.sann = 0 then [{ x with sann = 3 }] else []
       | 19 -> if active && x.xp = X.X6 && x.sann = 0 && get x A.Coq_k > 0 then [{ x with sann = 7 }] else []
       | _ -> [])
  | 5, false ->
      if role_of i <> 0 then []
      else if arg = 1 && t.pc = RI then
        [set_th { x with nreg = x.nreg + 1 } i { pc = RC; exp = 0; va = 0; idx = x.nreg; nb = false; bcd = false; it = false; brk = false }]
      else if arg = -1 && (t.pc = RW || t.pc = RR) && not t.it then upd { t with pc = RDC }
      else []
  | 20, false ->
      (* SubscribeContext called: a new model index, used by this thread and by the AfterFunc goroutine of its slot *)
      if role_of i = 0 && t.pc = RI && L.nth x.its (slot_of i) = None then begin
        let slot = slot_of i in
        let aux = !cur_ns + 2 * !cur_nr + slot in
        let y = { x with nreg = x.nreg + 1; its = L.mapi (fun j u -> if j = slot then Some T.iinit else u) x.its } in
        let y = set_th y i { pc = RC; exp = 0; va = 0; idx = x.nreg; nb = false; bcd = false; it = true; brk = false } in
        [set_th y aux { (nth_th y aux) with idx = x.nreg; it = true }]
      end else []
  | 21, false -> if t.it && t.pc = RB then upd { t with pc = IW } else []
  | 22, false -> if role_of i = 1 && t.pc = CI then upd { t with pc = CC } else []
  | 23, false ->
      if role_of i = 1 && t.pc = CC then
        (match ictl_of x (slot_of i) with
         | Some c when c.T.cp = T.CFin -> upd { t with pc = CD }
         | None -> upd { t with pc = CD }                                          (* cancelled before SubscribeContext was called: not generated *)
         | _ -> [])
      else []
  | 24, false ->
      if t.it && t.pc = IW then
        (match istep_slot x (slot_of i) T.PIt1 with                               (* IIdle -> IStop *)
         | Some y -> [set_th y i { t with pc = II }]
         | None -> [])
      else []
  | 25, false ->
      if t.it && t.pc = IX then upd { t with pc = RI; it = false; idx = -1 }
      else if t.it && t.pc = RF && role_of i = 0 then upd { t with pc = RI; it = false; idx = -1 }
      else []
  | 26, false -> []
  | 27, false -> if t.it && t.pc = IL then upd { t with brk = true } else []
  | 4, false ->
      (match arg, t.pc with
       | 26, RB when t.it -> [x]                                                   (* context.AfterFunc: the subscription has been made *)
       | 25, (IL | RR) when t.it -> upd { t with pc = RR }                         (* a select of the iterator's loop: may receive *)
       | 10, RG when t.it -> upd { t with pc = WL }                                (* Wait, called by the iterator *)
       | 28, (IL | RR) when t.it && role_of i = 0 ->
           (* the iterator's deferred Unsubscribe: it has left the loop (ILoop -> IDefer) and unsubscribes (IDefer -> IFin) *)
           let slot = slot_of i in
           (match ictl_of x slot with
            | Some c when c.T.i1 = T.ILoop && (c.T.ctxd || t.brk) ->
                (match istep_slot x slot T.PIt1 with
                 | Some y -> (match istep_slot y slot T.PIt1 with
                              | Some z -> [set_th z i { t with pc = RDC }]
                              | None -> [])
                 | None -> [])
            | _ -> [])
       | 28, AI when t.it && role_of i = 2 ->
           (* the AfterFunc goroutine runs x.Unsubscribe: only if the cancellation won the Once *)
           (match istep_slot x (slot_of i) T.PAf with
            | Some y -> [set_th y i { t with pc = RDC }]
            | None -> [])
       | 7, RC -> upd { t with pc = RL }
       | 2, R1 -> upd { t with pc = R1a }
       | 9, R2 -> upd { t with pc = R2a }                                          (* an explicit RUnlock *)
       | 10, WC -> upd { t with pc = WL }
       | 12, WL -> if get x A.Coq_pongN = 0 then [x] else []                       (* parks only if there is no pong to consume *)
       | 13, WD -> upd { t with bcd = true }
       | 11, WD -> [x]
       | 8, RDC -> upd { t with pc = RDT }
       | 8, RS -> upd { t with pc = RSt }
       | 15, RS -> upd { t with pc = RSl }
       | 2, RK -> upd { t with pc = RKa }
       | 9, RK3 -> upd { t with pc = RK3a }
       | 2, RNF -> upd { t with pc = RNFa }
       | 17, RN4 -> upd { t with pc = RN4a }
       | 20, RN5 -> upd { t with pc = RN5a }
       | _ -> [])
  | 6, false ->
      if t.it then []
      else if t.pc = RB && t.exp = arg then upd { t with pc = RW }
      else if t.pc = RF && t.exp = arg then upd { t with pc = RI; idx = -1 }
      else []
  | 7, false -> []
  | 8, false -> if (t.pc = RW || t.pc = RR) && not t.it then upd { t with pc = RR } else []
  | 9, false ->
      if (t.pc = RG && not t.it && t.exp = arg) || (t.pc = WD && t.it && t.exp = arg && (not t.nb || t.bcd)) then begin
        (* the model's own log of this index: the round just received is the newest one, and its Send's value is the one received *)
        let (_, _, _, lg) = L.nth x.subs t.idx in
        (match lg with
         | r :: _ when L.length x.rvals >= r && r >= 1 && L.nth x.rvals (L.length x.rvals - r) = arg -> ()
         | _ -> failwith "pubsub_trace: the value received is not the value of the round the model logged for this index");
        upd { t with pc = (if t.it then IL else RH) }
      end else []
  | 11, false -> if t.pc = RH && not t.it then upd { t with pc = WC } else []
  | 12, false -> if t.pc = WD && not t.it && (not t.nb || t.bcd) then upd { t with pc = RW } else []
  | 13, false -> []
  | _ -> []

let xp_name = function
  | X.XNone -> "XNone" | X.X2 -> "X2" | X.X3 -> "X3" | X.X4a -> "X4a" | X.X4b -> "X4b" | X.X5a -> "X5a" | X.X5b -> "X5b" | X.X6 -> "X6"
  | X.X7a -> "X7a" | X.X7b -> "X7b" | X.X8 -> "X8" | X.X9 -> "X9" | X.X10 -> "X10"
let op_name = function
  | 1 -> "subscribers.Load" | 2 -> "subscribers.Add/CAS" | 3 -> "sendMu.Lock" | 4 -> "sendMu.Unlock" | 5 -> "sendingMu.Lock"
  | 6 -> "sendingMu.Unlock" | 7 -> "sendingMu.RLock" | 8 -> "sendingMu.TryRLock" | 9 -> "sendingMu.RUnlock" | 10 -> "pongC.L.Lock"
  | 11 -> "pongC.L.Unlock" | 12 -> "pongC.Wait" | 13 -> "pongC.Broadcast" | 14 -> "pongC.Signal" | 15 -> "caster-state.Load"
  | 16 -> "caster-state.CompareAndSwap" | 17 -> "caster-state.Add" | 18 -> "caster-state.Store/Swap" | 19 -> "chan-send" | 20 -> "chan-recv"
  | 21 -> "caster-mutex-op" | 22 -> "call-of-instrumented-method" | 23 -> "checkBroken-select" | 24 -> "markBroken"
  | 25 -> "select-of-the-iterator-loop" | 26 -> "context.AfterFunc" | 28 -> "Unsubscribe's-Add(-1)" | _ -> "?"
let ann_name = function
  | 0 -> "-" | 1 -> "sendingMu.Lock" | 2 -> "subscribers.Load" | 3 -> "caster-Add" | 4 -> "caster-Load" | 5 -> "caster-Load(discarded)"
  | 6 -> "caster-CAS" | 7 -> "chan-send" | 8 -> "sendingMu.Unlock" | 9 -> "pongC.L.Lock" | _ -> "?"

let show_obs ns (i, kind, arg) =
  let who = if kind = 10 then "driver" else if i < ns then Printf.sprintf "sender#%d" i
            else Printf.sprintf "%s#%d" (match role_of i with 0 -> "subscriber" | 1 -> "canceller" | _ -> "afterfunc") (slot_of i) in
  who ^ ":" ^
  (match kind with
   | 1 -> Printf.sprintf "Send(%d)-called" arg | 2 -> Printf.sprintf "Send-returned-%d" arg | 3 -> "Send-PANICKED"
   | 4 -> "about-to-" ^ op_name arg | 5 -> Printf.sprintf "Add(%d)-called" arg | 6 -> Printf.sprintf "Add-returned-%d" arg
   | 7 -> "Add-PANICKED" | 8 -> "about-to-receive-on-C" | 9 -> Printf.sprintf "received-%d" arg
   | 10 -> Printf.sprintf "all-calls-returned,Add(0)-returned-%d" arg | 11 -> "Wait-called" | 12 -> "Wait-returned" | 13 -> "Wait-PANICKED"
   | 20 -> "SubscribeContext-called" | 21 -> "SubscribeContext-returned" | 22 -> "cancel-called" | 23 -> "cancel-returned"
   | 24 -> "iterator-invoked" | 25 -> "iterator-returned" | 26 -> "SubscribeContext/iterator-PANICKED" | 27 -> "loop-body-breaks"
   | _ -> "?")

let show_state ns (x : xs) =
  let ic_name (c : T.ictl) =
    Printf.sprintf "[ctxd:%b,once:%s,it:%s]" c.T.ctxd (match c.T.once with T.OOpen -> "open" | T.OStopped -> "stopped" | T.OFired -> "fired")
      (match c.T.i1 with T.IIdle -> "IIdle" | T.IStop -> "IStop" | T.IRet -> "IRet" | T.ILoop -> "ILoop" | T.IDefer -> "IDefer" | T.IFin -> "IFin" | _ -> "?") in
  let ths = L.filter (fun s -> s <> "") (L.mapi (fun i t ->
    if i >= ns && role_of i > 0 && (t.pc = CI || t.pc = AI) then "" else
    Printf.sprintf "%s%d:%s%s%s" (if i < ns then "s" else (match role_of i with 0 -> "r" | 1 -> "c" | _ -> "a")) (if i < ns then i else slot_of i) (pc_name t.pc)
      (if i >= ns && t.idx >= 0 && role_of i <> 1 then Printf.sprintf "@%s" (vname (mpc x t)) else "")
      (if i >= ns && role_of i = 0 && t.it then (match ictl_of x (slot_of i) with Some c -> ic_name c | None -> "") else "")) x.th) in
  let vs = L.filter (fun (n, v) -> v <> 0) (L.combine var_names x.vals) in
  Printf.sprintf "{xp:%s,announced:%s%s,round:%d,%s|%s}" (xp_name x.xp) (ann_name x.sann) (if x.bc then ",broadcast-announced" else "") x.round
    (String.concat "," (L.map (fun (n, v) -> Printf.sprintf "%s:%d" n v) vs)) (String.concat "," ths)

let traces = ref 0
let max_cands = ref 0

let trace (args : int list) : int list =
  match args with
  | seed :: case :: ns :: nr :: complete :: nev :: rest ->
      let rec evs k l acc =
        if k = 0 then L.rev acc
        else (match l with a :: b :: c :: l' -> evs (k - 1) l' ((a, b, c) :: acc) | _ -> failwith "pubsub_trace: truncated") in
      let obs = evs nev rest [] in
      incr traces;
      let nsend = L.length (L.filter (fun (_, k, _) -> k = 1) obs) in
      let nreg = L.length (L.filter (fun (_, k, a) -> (k = 5 && a = 1) || k = 20) obs) in
      let nunreg = L.length (L.filter (fun (_, k, a) -> (k = 5 && a = -1) || (k = 4 && a = 28)) obs) in
      cur_ns := ns; cur_nr := nr;
      progs := Array.init (max 1 nr) (fun slot ->
        let has k th = L.exists (fun (i, k', _) -> k' = k && i = th) obs in
        { T.cancels = has 22 (ns + nr + slot);
          T.use1 = (if has 24 (ns + slot) then T.URun (if has 27 (ns + slot) then Some T.EBreak else None) else T.UNever);
          T.use2 = T.UNever });
      let s0 = J.jinit (nat_of_int nsend) (nat_of_int nreg) in
      let (xp0, vals0, locs0) = base_canon s0.J.jbase in
      let x0 = { xp = xp0; vals = vals0; locs = locs0; round = 0;
                 subs = L.map (fun u -> (u.I.pc, u.I.cnted, int_of_nat u.I.subat, ints_of_nats u.I.slog)) s0.J.jsubs;
                 rvals = []; act = -1; sann = 0; bc = false; nreg = 0; its = L.init nr (fun _ -> None);
                 th = L.init (ns + 3 * nr) (fun i ->
                   { pc = (if i < ns then SI else if i < ns + nr then RI else if i < ns + 2 * nr then CI else AI);
                     exp = 0; va = 0; idx = -1; nb = false; bcd = false; it = false; brk = false }) } in
      let shown cands = L.filteri (fun j _ -> j < 4) cands in
      let reject i o cands =
        let cands = L.sort_uniq compare cands in
        Printf.printf "MISMATCH model=pubsub_trace kind=F case=t-%d-%d trace rejected: observation #%d [%s] is not explained by any of the %d candidate model states; candidates just before it: %s%s\n"
          seed case i (show_obs ns o) (L.length cands) (String.concat " " (L.map (show_state ns) (shown cands)))
          (if L.length cands > 4 then " ..." else "");
        [0; i] in
      let rec go i xs = function
        | [] -> [1]
        | ((_, 10, n) as o) :: os when complete <> 0 ->
            let cl = closure xs in
            if n <> nreg - nunreg then begin
              Printf.printf "MISMATCH model=pubsub_trace kind=F case=t-%d-%d every call has returned and Add(0) = %d, but the log has %d subscribes and %d unsubscribes\n"
                seed case n nreg nunreg;
              [4; n]
            end else
            let xs' = L.concat_map (observe ns o) cl in
            if xs' = [] then begin
              Printf.printf "MISMATCH model=pubsub_trace kind=F case=t-%d-%d trace rejected: every call has returned and Add(0) = %d, but none of the %d candidate model states is at rest (no Send in progress, every thread returned, nothing enabled but voluntary unsubscribes, subs = %d, bad = steal = 0): %s\n"
                seed case n (L.length cl) n (String.concat " " (L.map (show_state ns) (shown (L.sort_uniq compare cl))));
              [2; L.length cl]
            end else go (i + 1) xs' os
        | o :: os ->
            let cl = closure xs in
            if L.length cl > !max_cands then max_cands := L.length cl;
            let xs' = L.concat_map (observe ns o) cl in
            if xs' = [] then reject i o cl else go (i + 1) xs' os in
      go 0 [x0] obs
  | _ -> failwith "pubsub_trace: args"

let init () =
  register_fn "pubsub_trace" trace;
  summaries := (fun () ->
    if !traces > 0 then
      Printf.printf "SUMMARY model=pubsub_trace traces=%d model_steps_explored=%d iter_model_steps_explored=%d max_candidates=%d\n" !traces !steps_taken !isteps_taken !max_cands) :: !summaries
