(* adapter for Model/Buffer.v: histories of a Buffer and its consumers *)
open Core
module L = Stdlib.List

module BufM = struct
  type st = Buffer.st
  type op = Op of Buffer.op | Range of int * bool * Buffer.cb list
  type out = Out of Buffer.out | RangeOut of BinNums.coq_Z list * Buffer.range_end
  let name = "buffer"
  let init = function
    | [0; _; _] -> Buffer.init Buffer.CDefault
    | [1; mx; tg] -> Buffer.init (Buffer.CFixed (z_of_int mx, z_of_int tg))
    | [2; _; _] -> Buffer.init Buffer.CAll
    | [3; _; _] -> Buffer.init Buffer.CNone
    | l -> failwith ("buffer: bad cfg " ^ show_ints l)
  let step s = function
    | Op o -> let (s', r) = Buffer.step s o in (s', Out r)
    | Range (c, bounded, script) ->
        let ((s', visited), e) =
          if bounded then Buffer.buffer_range s (nat_of_int c) script else Buffer.pkg_range s (nat_of_int c) script in
        (s', RangeOut (visited, e))
  (* the cleaner and the shutdown watchers may run (in any order, a few times) between any two operations *)
  let internal s =
    let seen = ref [s] in
    let frontier = ref [s] in
    for _ = 1 to 4 do
      let next = ref [] in
      L.iter (fun x ->
        L.iter (fun y -> if not (L.mem y !seen) then begin seen := y :: !seen; next := y :: !next end)
          [Buffer.clean x; Buffer.settle x]) !frontier;
      frontier := !next
    done;
    L.filter (fun x -> x <> s) (L.rev !seen)
  (* Range is a composite of Get / Diff / Commit / Rollback performed by one goroutine: the cleaner and the watchers may
     run between its sub-operations. This explores those interleavings using ONLY the extracted atomic [Buffer.step];
     the control flow mirrors Coq's [range_loop], and the interleaving-free path is checked against the extracted
     [buffer_range]/[pkg_range] on every case (see [step_nd]). *)
  let range_nd (s : st) (c : int) (bounded : bool) (script : Buffer.cb list) : (st * out) list =
    let cn = nat_of_int c in
    let results = ref [] in
    let add s visited e = let r = (s, RangeOut (L.rev visited, e)) in if not (L.mem r !results) then results := r :: !results in
    let with_internal s k = L.iter k (s :: internal s) in
    let rollback_then s visited e =
      with_internal s (fun s1 -> let (s2, _) = Buffer.step s1 (Buffer.ORollback cn) in add s2 visited e) in
    let rec loop fuel s script visited =
      if fuel = 0 then add s visited Buffer.ReFuel else
      with_internal s (fun s0 ->
        let (s1, r) = Buffer.step s0 (Buffer.OGet cn) in
        match r with
        | Buffer.RVal v ->
            let visited' = v :: visited in
            let commit_then s k_ok =
              with_internal s (fun sa ->
                let (s2, r2) = Buffer.step sa (Buffer.OCommit cn) in
                match r2 with
                | Buffer.ROk -> k_ok s2
                | _ -> rollback_then s2 visited' Buffer.ReErr) in
            (match script with
             | Buffer.CbPanic :: _ -> rollback_then s1 visited' Buffer.RePanic
             | Buffer.CbFalse :: _ | [] -> commit_then s1 (fun s2 -> add s2 visited' Buffer.ReNil)
             | Buffer.CbPutTrue pv :: script' ->
                 with_internal s1 (fun sp0 ->
                   let (sp, _) = Buffer.step sp0 (Buffer.OPut [pv]) in
                   if bounded then
                     with_internal sp (fun sd ->
                       let more = (match snd (Buffer.step sd (Buffer.ODiff cn)) with
                                   | Buffer.RDiff (n, true) -> int_of_z n > 0 | _ -> false) in
                       commit_then sd (fun s2 -> if more then loop (fuel - 1) s2 script' visited' else add s2 visited' Buffer.ReNil))
                   else commit_then sp (fun s2 -> loop (fuel - 1) s2 script' visited'))
             | Buffer.CbTrue :: script' ->
                 if bounded then
                   with_internal s1 (fun sd ->
                     let more = (match snd (Buffer.step sd (Buffer.ODiff cn)) with
                                 | Buffer.RDiff (n, true) -> int_of_z n > 0 | _ -> false) in
                     commit_then sd (fun s2 -> if more then loop (fuel - 1) s2 script' visited' else add s2 visited' Buffer.ReNil))
                 else commit_then s1 (fun s2 -> loop (fuel - 1) s2 script' visited'))
        | _ -> rollback_then s1 visited Buffer.ReErr) in
    let fuel = 3 + L.length (Buffer.log s) + L.length script in
    (if bounded then begin
       match Buffer.getc s cn with
       | None -> add s [] Buffer.ReErr
       | Some _ ->
           (match snd (Buffer.step s (Buffer.ODiff cn)) with
            | Buffer.RDiff (n, true) when int_of_z n > 0 -> loop fuel s script []
            | _ -> add s [] Buffer.ReNil)
     end else loop fuel s script []);
    !results
  let step_nd s o =
    match o with
    | Op _ -> [step s o]
    | Range (c, bounded, script) ->
        let nd = range_nd s c bounded script in
        let det = step s o in
        if not (L.mem det nd) then failwith "buffer adapter: interleaving-free Range path differs from the extracted range_loop";
        nd
  let rec take n l = if n = 0 then [] else match l with [] -> [] | x :: t -> x :: take (n - 1) t
  let op_of_ints l =
    let n = nat_of_int in
    match l with
    | 0 :: k :: vs -> Op (Buffer.OPut (L.map z_of_int (take k vs)))
    | 1 :: k :: vs -> Op (Buffer.OPutCancelled (L.map z_of_int (take k vs)))
    | [2] -> Op Buffer.ONew
    | [3; c] -> Op (Buffer.OGet (n c)) | [4; c] -> Op (Buffer.OGetCancelled (n c))
    | [5; c] -> Op (Buffer.OCommit (n c)) | [6; c] -> Op (Buffer.ORollback (n c)) | [7; c] -> Op (Buffer.ODiff (n c))
    | [8] -> Op Buffer.OSize | [9] -> Op Buffer.OSlice
    | [10; c] -> Op (Buffer.OCloseC (n c)) | [11] -> Op Buffer.OCloseB
    | [12; c] -> Op (Buffer.ODoneC (n c)) | [13] -> Op Buffer.ODoneB | [14] -> Op Buffer.OSettled
    | [15; c] -> Op (Buffer.OProbeGet (n c)) | [16; c] -> Op (Buffer.OProbeCloseC (n c)) | [17] -> Op Buffer.OProbeCloseB
    | 100 :: c :: b :: k :: script ->
        (* script entries: 0 true | 1 false | 2 panic | 1000+v put v then true *)
        Range (c, b = 1, L.map (function 0 -> Buffer.CbTrue | 1 -> Buffer.CbFalse | 2 -> Buffer.CbPanic
                                       | x -> Buffer.CbPutTrue (z_of_int (x - 1000))) (take k script))
    | l -> failwith ("buffer: bad op " ^ show_ints l)
  let ints_of_out = function
    | Out (Buffer.RVal v) -> [0; int_of_z v] | Out Buffer.REmpty -> [1] | Out Buffer.RErr -> [2] | Out Buffer.ROk -> [3]
    | Out (Buffer.RId c) -> [4; int_of_nat c] | Out Buffer.RBlocked -> [5]
    | Out (Buffer.RDiff (z, ok)) -> [6; int_of_z z; if ok then 1 else 0]
    | Out (Buffer.RInt k) -> [7; int_of_nat k]
    | Out (Buffer.RBuf l) -> 8 :: L.length l :: L.map int_of_z l
    | Out (Buffer.RBool b) -> [9; if b then 1 else 0]
    | Out Buffer.RDirty -> [99]
    | RangeOut (visited, e) ->
        let ei = (match e with Buffer.ReNil -> 0 | Buffer.ReErr -> 1 | Buffer.RePanic -> 2 | Buffer.ReFuel -> 9) in
        100 :: ei :: L.length visited :: L.map int_of_z visited
  let blocked = function Out Buffer.REmpty -> true | _ -> false
end
module BufC = CheckND (BufM)

let init () =
  register "buffer" (fun kind id rest -> BufC.handle kind id rest) BufC.summary;
  (* case markers of monitor-only scenarios: nothing for the model to decide *)
  register_fn "c12_buffer_case" (fun _ -> [1]);
  register_fn "c12_channel_case" (fun _ -> [1])
