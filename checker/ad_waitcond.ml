(* adapter for Model/WaitCond.v (C05): TRACE ACCEPTANCE.  The instrumented implementation logs, in the order they happen,
   the synchronisation points its two goroutines are about to execute (sync.go: the ctx.Err() check, the go statement,
   <-ctx.Done(), l.Lock(), cond.Broadcast(), cond.Wait()), every evaluation of fn with its result, the environment's notifier
   sections and cancellation, and the return.  The function below decides whether that log is a run of the extracted
   [WaitCond.step]: observations are consumed in order; between two observations the model may take steps that have no
   observation of their own (unlock/park/relock of cond.Wait, the watcher's unlock, the return bookkeeping), and a step
   that the implementation announces (a point) can only be taken after its announcement.
   args: ctxmode(0 nil | 1 live | 2 cancellable) pred0 nn nev (kind arg)*nev
         kind 1 NOTIFY b | 2 cancel() called | 6 cancel() returned | 3 FN b | 4 POINT k (0 errcheck 1 go 2 donewait 3 lock 4 bcast 5 condwait) | 5 RETURN (0 nil 1 err)
   result: [1] accepted | [0; index of the first observation no model state can explain] *)
open Core
module L = Stdlib.List
module W = WaitCond

type xs = { s : W.st; aw : bool; at : bool; cp : bool }
(* model state + "the announced step of waiter / watcher may be taken" + "cancel() has been called and has not returned" *)

let stepx x p = match W.step true true x.s p with Some s' -> Some { x with s = s' } | None -> None

let internal (x : xs) : xs list =
  let c = x.s.W.ctl_of in
  let wsteps =
    match c.W.w with
    | W.WFn -> []                                                   (* every fn() evaluation is observed *)
    | W.WStart when c.W.hasctx -> if x.aw then (match stepx x W.PW with Some y -> [{ y with aw = false }] | None -> []) else []
    | W.WEnq -> if x.aw then (match stepx x W.PW with Some y -> [{ y with aw = false }] | None -> []) else []
    | _ -> (match stepx x W.PW with Some y -> [y] | None -> []) in
  let tsteps =
    match c.W.t with
    | Some W.TWait | Some W.TLock | Some W.TBcast ->
        if x.at then (match stepx x W.PT with Some y -> [{ y with at = false }] | None -> []) else []
    | Some W.TUnlock -> (match stepx x W.PT with Some y -> [y] | None -> [])
    | _ -> [] in
  let csteps = if x.cp then (match stepx x W.PCancel with Some y -> [{ y with cp = false }] | None -> []) else [] in
  wsteps @ tsteps @ csteps

let closure (xs : xs list) : xs list =
  let seen = Hashtbl.create 64 in
  let rec go acc = function
    | [] -> acc
    | x :: rest -> if Hashtbl.mem seen x then go acc rest else (Hashtbl.add seen x (); go (x :: acc) (internal x @ rest)) in
  go [] xs

let observe (kind, arg) (x : xs) : xs list =
  let c = x.s.W.ctl_of in
  match kind, arg with
  | 1, b -> (match stepx x (W.PNotify (b <> 0)) with Some y -> [y] | None -> [])
  | 2, _ -> if x.s.W.ctl_of.W.canc && not x.cp then [{ x with cp = true }] else []   (* cancel() called: takes effect before 6 *)
  | 6, _ -> if x.cp then (match stepx x W.PCancel with Some y -> [{ y with cp = false }] | None -> []) else [x]
  | 3, b -> if c.W.w = W.WFn && c.W.pred = (b <> 0) then (match stepx x W.PW with Some y -> [y] | None -> []) else []
  | 4, 0 -> if c.W.w = W.WStart && c.W.hasctx && not x.aw then [{ x with aw = true }] else []
  | 4, 1 ->
      (* the go statement: the model's WStart step is the ctx.Err() check AND the spawn, so by the time the spawn is announced
         the step may or may not have been taken; the watcher cannot have moved yet *)
      if (c.W.w = W.WStart && x.aw && c.W.t = None) || (c.W.w = W.WFn && c.W.t = Some W.TWait && not x.at) then [x] else []
  | 4, 2 -> if c.W.t = Some W.TWait && not x.at then [{ x with at = true }] else []
  | 4, 3 -> if c.W.t = Some W.TLock && not x.at then [{ x with at = true }] else []
  | 4, 4 -> if c.W.t = Some W.TBcast && not x.at then [{ x with at = true }] else []
  | 4, 5 -> if c.W.w = W.WEnq && not x.aw then [{ x with aw = true }] else []
  | 5, r -> if c.W.w = W.WReleased && c.W.retv = Some (r = 0) then [x] else []
  | _ -> failwith "waitcond_trace: bad observation"

let trace (args : int list) : int list =
  match args with
  | cm :: pred0 :: nn :: nev :: rest ->
      let cmode = (match cm with 0 -> W.CtxNil | 1 -> W.CtxLive | _ -> W.CtxCancellable) in
      let rec evs k l acc = if k = 0 then L.rev acc else (match l with a :: b :: l' -> evs (k - 1) l' ((a, b) :: acc) | _ -> failwith "waitcond_trace: truncated") in
      let obs = evs nev rest [] in
      let rec go i xs = function
        | [] -> [1]
        | o :: os ->
            let xs' = L.concat_map (observe o) (closure xs) in
            if xs' = [] then [0; i] else go (i + 1) (L.sort_uniq compare xs') os in
      go 0 [{ s = W.init (nat_of_int nn) (pred0 <> 0) cmode; aw = false; at = false; cp = false }] obs
  | _ -> failwith "waitcond_trace: args"

let init () = register_fn "waitcond_trace" trace
