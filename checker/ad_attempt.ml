(* adapter for Model/Attempt.v (C20, LinearAttempt): the quiescent K1 view `kstep`, the observation monitor `obs_ok`
   and the implementation constant `impl_cap` *)
open Core
module L = Stdlib.List

module AttemptM = struct
  type st = Attempt.cfg * Attempt.st
  type op = Attempt.kop
  type out = Attempt.kout
  let name = "attempt"
  (* cfg ints: [count] — the code as it is: capacity impl_cap, all defect flags off *)
  let init = function
    | [n] -> (Attempt.faithful (nat_of_int n), Attempt.init)
    | l -> failwith ("attempt: bad cfg " ^ show_ints l)
  let step (c, s) o = let (s', r) = Attempt.kstep c s o in ((c, s'), r)
  let internal _ = []
  let op_of_ints = function
    | [0] -> Attempt.KCall | [1] -> Attempt.KCancel | [2] -> Attempt.KRecv | [3] -> Attempt.KAwait
    | l -> failwith ("attempt: bad op " ^ show_ints l)
  let ints_of_out = function
    | Attempt.KRet n -> [0; int_of_nat n] | Attempt.KOk -> [1] | Attempt.KVal -> [2] | Attempt.KClosed -> [3]
    | Attempt.KEmpty -> [4] | Attempt.KAw (n, live) -> [5; int_of_nat n; (if live then 1 else 0)]
  let blocked = function Attempt.KEmpty -> true | _ -> false
end
module AttemptC = Check (AttemptM)

let init () =
  register "attempt" (fun kind caseid rest -> AttemptC.handle kind caseid rest) AttemptC.summary;
  register_fn "attempt_consts" (function [] -> [int_of_nat Attempt.impl_cap] | _ -> failwith "attempt_consts: no args expected");
  register_fn "attempt_obs" (function
    | [count; nrecv; maxlen; nafter; pre; cancelled; closed_seen; first_imm; sorted; exited] ->
        let b x = x <> 0 in
        [if Attempt.obs_ok (nat_of_int count) (nat_of_int nrecv) (nat_of_int maxlen) (nat_of_int nafter)
              (b pre) (b cancelled) (b closed_seen) (b first_imm) (b sorted) (b exited) then 1 else 0]
    | _ -> failwith "attempt_obs: 10 args expected")
