(* adapter for Model/Retry.v (C18, ExponentialRetry): model "retry" (K1) and functions retry_consts / retry_slot / retry_calc (F).
   The K1 "state" only accumulates the outcome script; the final report op runs the extracted `Retry.run_seam` on the
   whole script and renders everything the harness observed. Encoding: see harness/inpkg/retry_c18.go. *)
open Core
module L = Stdlib.List

type rop = Outcome of Retry.outcome | Report of bool (* with wait records *)

module RetryM = struct
  type st = { cancel : Datatypes.nat option; ds : BinNums.coq_Z list; rate : BinNums.coq_Z; script : Retry.outcome list (* reversed *) }
  type op = rop
  type out = int list
  let name = "retry"
  let init = function
    | rate :: cancel :: nd :: ds when L.length ds = nd ->
        { cancel = (if cancel < 0 then None else Some (nat_of_int cancel)); ds = L.map z_of_int ds; rate = z_of_int rate; script = [] }
    | l -> failwith ("retry: bad cfg " ^ show_ints l)
  let optz hasr r = if hasr = 0 then None else Some (z_of_int r)
  let op_of_ints = function
    | [0; hasr; r] -> Outcome (Retry.coq_OSuccess (optz hasr r))
    | [1; depth; hasr; r; e] -> Outcome (Retry.coq_OFatal (nat_of_int depth) (optz hasr r) (z_of_int e))
    | [9] -> Report true
    | [8] -> Report false
    | l -> failwith ("retry: bad op " ^ show_ints l)
  let rec depth_of = function Retry.EBase id -> (0, int_of_z id) | Retry.EFatal i -> let (d, id) = depth_of i in (d + 1, id)
  let render (full : bool) (r : Retry.result) : int list =
    let resv = match r.Retry.res with None -> [0; 0] | Some v -> [1; int_of_z v] in
    let kind = match r.Retry.ret with
      | Retry.RNil -> [0; 0]
      | Retry.RErr e -> (match depth_of e with (0, id) -> [1; id] | (d, _) -> [5; d])
      | Retry.RCtx -> [2; 0]
      | Retry.RExhausted -> [3; 0]
      | Retry.RPanic -> [4; 0] in
    let ws = if not full then [] else
      L.length r.Retry.waits ::
      L.concat_map (fun w -> [int_of_z w.Retry.w_rate; int_of_z w.Retry.w_c; int_of_z w.Retry.w_d; (if w.Retry.w_done then 1 else 0)]) r.Retry.waits in
    (int_of_nat r.Retry.calls :: resv) @ kind @ ws
  let step s = function
    | Outcome o -> ({ s with script = o :: s.script }, [0])
    | Report full -> (s, render full (Retry.run_seam s.cancel s.ds s.rate (L.rev s.script)))
  let internal _ = []
  let ints_of_out o = o
  let blocked _ = false
end
module RetryC = Check (RetryM)

let init () =
  register "retry" (fun kind caseid rest -> RetryC.handle kind caseid rest) RetryC.summary;
  register_fn "retry_consts" (fun _ -> [int_of_z Retry.max_shift_go; int_of_z Retry.default_rate_go]);
  register_fn "retry_slot" (function
    | [rate; c; d] -> [if Retry.slot_ok (z_of_int rate) (z_of_int c) (z_of_int d) then 1 else 0]
    | _ -> failwith "retry_slot args");
  register_fn "retry_calc" (function
    | [rate; c; raw] -> (match Retry.calc_exact (z_of_int rate) (z_of_int c) (z_of_int raw) with
                         | Some d -> [int_of_z d] | None -> [-1; -1])
    | _ -> failwith "retry_calc args")
