(* adapter for Model/Notifier.v (C15): pure-function records decided by the extracted run_publish / spec_publish and by
   the registry model subscribe / unsubscribe / lookup *)
open Core
module L = Stdlib.List

let bool_of_int i = i <> 0
let int_of_bool b = if b then 1 else 0

(* <pubctx> <n> (<sid> <has_ctx> <cancelled0> <compat>)*n <nev> (<kind> <sid>)*nev *)
let decode_publish (args : int list) =
  match args with
  | pc :: n :: rest ->
      let rec subs k l acc =
        if k = 0 then (L.rev acc, l)
        else match l with
          | sid :: hc :: c0 :: cp :: l' ->
              subs (k - 1) l' ({ Notifier.sid = nat_of_int sid; has_ctx = bool_of_int hc; cancelled0 = bool_of_int c0;
                                 compat = bool_of_int cp } :: acc)
          | _ -> failwith "notifier_publish: truncated subscriptions" in
      let (ss, rest) = subs n rest [] in
      (match rest with
       | nev :: rest ->
           let rec evs k l acc =
             if k = 0 then (if l <> [] then failwith "notifier_publish: trailing tokens"; L.rev acc)
             else match l with
               | 0 :: sid :: l' -> evs (k - 1) l' (Notifier.EvReady (nat_of_int sid) :: acc)
               | 1 :: sid :: l' -> evs (k - 1) l' (Notifier.EvCancel (nat_of_int sid) :: acc)
               | 2 :: _ :: l' -> evs (k - 1) l' (Notifier.EvExit :: acc)
               | _ -> failwith "notifier_publish: bad event" in
           (bool_of_int pc, ss, evs nev rest [])
       | [] -> failwith "notifier_publish: missing events")
  | _ -> failwith "notifier_publish: args"

let encode_result ((del, ret) : Datatypes.nat list * bool) : int list =
  int_of_bool ret :: L.length del :: L.map int_of_nat del

let publish (args : int list) : int list =
  let (pc, ss, evs) = decode_publish args in
  (* the model's hypothesis: distinct identities *)
  let sids = L.map (fun s -> int_of_nat s.Notifier.sid) ss in
  if L.length (L.sort_uniq compare sids) <> L.length sids then failwith "notifier_publish: duplicate sid in record";
  let r1 = encode_result (Notifier.run_publish pc ss evs) in
  let r2 = encode_result (Notifier.spec_publish pc ss evs) in
  if r1 <> r2 then
    failwith (Printf.sprintf "notifier_publish: run_publish [%s] <> spec_publish [%s] (proved equal: C15_run_refines_spec)"
                (show_ints r1) (show_ints r2));
  r1

(* <nops> (<op> <key> <target>)*nops ; outs concatenated
   op: 0 Subscribe (no context) | 4 SubscribeContext(live context) | 5 SubscribeContext(already cancelled context)
       1 Unsubscribe | 2 Publish to buffered, drained targets | 3 lookup *)
let registry (args : int list) : int list =
  match args with
  | nops :: rest ->
      let sorted_lookup k (r : Notifier.cregistry) = L.sort compare (L.map int_of_nat (Notifier.lookup (nat_of_int k) (fst r))) in
      let sub c key t r =
        match Notifier.subscribe_ctx c (nat_of_int key) (nat_of_int t) r with
        | Some r' -> (r', 1) | None -> (r, 0) in
      let rec go k l (r : Notifier.cregistry) acc =
        if k = 0 then (if l <> [] then failwith "notifier_registry: trailing tokens"; L.rev acc)
        else match l with
          | 0 :: key :: t :: l' -> let (r', o) = sub Notifier.CtxNone key t r in go (k - 1) l' r' (o :: acc)
          | 4 :: key :: t :: l' -> let (r', o) = sub Notifier.CtxLive key t r in go (k - 1) l' r' (o :: acc)
          | 5 :: key :: t :: l' -> let (r', o) = sub Notifier.CtxCancelled key t r in go (k - 1) l' r' (o :: acc)
          | 1 :: key :: t :: l' ->
              (match Notifier.unsubscribe_ctx (nat_of_int key) (nat_of_int t) r with
               | Some r' -> go (k - 1) l' r' (1 :: acc)
               | None -> go (k - 1) l' r (0 :: acc))
          | 2 :: key :: _ :: l' ->
              (* Publish to buffered, drained targets: every pending one is ready; it must return *)
              let (del, ret) = Notifier.publish_ready (nat_of_int key) r in
              if not ret then failwith "notifier_registry: model publish did not return";
              let ids = L.sort compare (L.map int_of_nat del) in
              go (k - 1) l' r (L.rev_append (L.length ids :: ids) acc)
          | 3 :: key :: _ :: l' ->
              let ids = sorted_lookup key r in
              go (k - 1) l' r (L.rev_append (L.length ids :: ids) acc)
          | _ -> failwith "notifier_registry: bad op" in
      go nops rest ([], []) []
  | _ -> failwith "notifier_registry: args"

let init () =
  register_fn "notifier_publish" publish;
  register_fn "notifier_registry" registry
