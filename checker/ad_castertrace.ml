(* adapter for Model/CasterAbs.v (+ Model/CasterBridge.v, Model/Caster.v) (C08): TRACE ACCEPTANCE of the ChanCaster protocol.
   On an instrumented build the harness (harness/inpkg/caster_trace.go) logs, in the order they happen and with the thread
   that executes them, the synchronisation points of chancaster.go (announced BEFORE the operation executes: Load, Lock,
   CompareAndSwap, channel send, RLock, atomic Add, channel receive, and Unlock/RUnlock/Store/Swap should the source have
   them as statements of their own), the calls and returns of Send and Add with their values, and the receivers' own
   channel operations (about to receive on C / received v).  The function below decides whether the log is a run of the
   EXTRACTED [CasterAbs.step], with the concrete 64-bit word carried along by the extracted [CasterBridge.wrun] and the
   values returned by Add / Send compared with what [Caster.add] / [Caster.send_end] give on that word.

   The model is a counter abstraction with anonymous receivers and one tagged receiver; the adapter keeps, beside the model
   state, where each real thread is (so that it knows which pick a thread's next step is, and which counter it sits in);
   the first registration in the log is the model's tagged receiver (PT picks), every other one is anonymous
   (PB picks).  A thread that finished a Send / a registration round may start another one (a fresh model sender / receiver).

   Observations are consumed in order against a SET of candidate states; between two observations the model may take the
   steps whose announcement has been logged (or that have no announcement: the writer queueing inside mutex.Lock(), the
   deferred Unlock / RUnlock, the bookkeeping S6 -> S7); an announced step only after its announcement, and before the same
   thread's next observation.  A rendezvous on C needs both sides announced.  A CompareAndSwap's outcome is decided by the
   model state at the moment the step is taken and confirmed by what the thread does next (arming CAS: another Load = it
   failed, a channel send = it succeeded; final CAS: return or panic).

   args: seed case S R complete eu eru nev (thread kind arg)*nev
     eu / eru = 1: the source has mutex.Unlock() / mutex.RUnlock() as a statement of its own (not deferred) in the file(s) of Send and Add:
     then the S8 / PU2 step is an announced step like the others; otherwise it is the deferred call and has no announcement
     kind 1 Send(v) called | 2 Send returned arg | 3 Send panicked | 4 POINT op | 5 Add(arg) called (arg = 1 | -1) | 6 Add returned arg
        | 7 Add panicked | 8 about to receive on C (harness select) | 9 received arg from C | 10 all calls returned; Add(0) = arg
     op 1 Load 2 CompareAndSwap 3 Add 4 Lock 5 RLock 6 send 7 recv 8 Unlock 9 RUnlock 10 Store 11 Swap (0: anything else)
     threads 0..S-1 are senders, S..S+R-1 receivers
   result: [1] accepted | [0; i] observation i is the first no candidate state explains (a MISMATCH line with the observation
           and the candidates' program points is printed) | [2; n] the log ended (all calls returned) but no candidate is terminal
           | [3; n] accepted as a run, but every terminal candidate has the ghost flag bad or stolen set *)
open Core
module L = Stdlib.List
module A = CasterAbs
module B = CasterBridge

let all_vars = [ A.Coq_nsend; A.Coq_sq; A.Coq_k; A.Coq_w; A.Coq_wp; A.Coq_r; A.Coq_cnt; A.Coq_armed; A.Coq_a0; A.Coq_u1; A.Coq_u2;
                 A.Coq_b0o; A.Coq_b0n; A.Coq_got; A.Coq_n5; A.Coq_fin; A.Coq_reg0; A.Coq_dlv; A.Coq_absd; A.Coq_ret; A.Coq_nret;
                 A.Coq_nzero; A.Coq_retsum; A.Coq_bad; A.Coq_stolen ]
let var_names = [ "nsend"; "sq"; "k"; "w"; "wp"; "r"; "cnt"; "armed"; "a0"; "u1"; "u2"; "b0o"; "b0n"; "got"; "n5"; "fin"; "reg0"; "dlv";
                  "absd"; "ret"; "nret"; "nzero"; "retsum"; "bad"; "stolen" ]
let vidx (x : A.var) : int =
  let rec go i = function [] -> failwith "caster_trace: var" | y :: r -> if y = x then i else go (i + 1) r in
  go 0 all_vars

(* where a real thread is *)
type pc =
  | SI   (* sender: no Send in progress (a future Send is counted in nsend) *)
  | SC   (* Send called; the fast-path Load is not announced yet *)
  | SF   (* fast-path Load announced: PSendStart may be taken *)
  | SZ   (* PSendStart found the word 0: the call returns 0 without another point *)
  | SQ   (* counted in sq; the next point is mutex.Lock() *)
  | SL   (* Lock announced: PSendLock may be taken (then this is the active Send, pc SA) *)
  | SA   (* the Send inside Lock()..Unlock(): the model's sp is its program counter *)
  | SD   (* unlocked (S8 step taken); [exp] is the value it returns, -1 = it panics *)
  | RI   (* receiver: no registration in progress *)
  | RC   (* Add(1) called (a0) *)
  | RL   (* RLock announced: PU0 may be taken *)
  | R1   (* u1: holds the read lock *)
  | R1a  (* u1, atomic add announced: PU1 may be taken *)
  | R2   (* u2: added, before the (deferred) RUnlock; [exp] = value Add returns *)
  | R2a  (* u2: an explicit RUnlock has been announced *)
  | RB   (* b0: registered, Add(1) has not returned to the caller yet *)
  | RW   (* b0: Add(1) returned *)
  | RR   (* b0: about to receive on C (may rendezvous with a sender offering a copy) *)
  | RG   (* got: [exp] = the value received *)
  | RDC  (* b0: Add(-1) called *)
  | RDA  (* b0: atomic subtract announced: PDereg may be taken *)
  | RN   (* n5: must absorb one copy; [exp] = value Add returns *)
  | RNa  (* n5: receive announced (may rendezvous) *)
  | RF   (* fin: [exp] = value Add returns, -1 = it panics *)

let pc_name = function
  | SI -> "idle" | SC -> "Send:called" | SF -> "Send:fastLoad-announced" | SZ -> "Send:fast-path-0" | SQ -> "Send:queued(sq)"
  | SL -> "Send:Lock-announced" | SA -> "Send:ACTIVE" | SD -> "Send:unlocked" | RI -> "idle" | RC -> "Add(1):called(a0)"
  | RL -> "Add(1):RLock-announced(a0)" | R1 -> "Add(1):read-locked(u1)" | R1a -> "Add(1):add-announced(u1)" | R2 -> "Add(1):added(u2)" | R2a -> "Add(1):RUnlock-announced(u2)"
  | RB -> "registered,Add-not-returned(b0)" | RW -> "registered(b0)" | RR -> "receiving(b0)" | RG -> "got"
  | RDC -> "Add(-1):called(b0)" | RDA -> "Add(-1):sub-announced(b0)" | RN -> "Add(-1):must-absorb(n5)"
  | RNa -> "Add(-1):recv-announced(n5)" | RF -> "Add:done(fin)"

type thr = { pc : pc; owed : bool; exp : int; va : int; tag : bool }
(* owed: ghost - registered and idle when the running Send armed (b0o rather than b0n); exp: see pc; va: the value of the
   Send in progress (senders); tag: this registration is the model's tagged receiver *)

type xs = {
  sp : A.spc; vals : int list;                       (* the model state, canonical *)
  tg : A.tagpc * bool * int * int * int * int;
  whi : int; wlo : int;                              (* the concrete word carried by CasterBridge.wrun *)
  act : int;                                         (* thread of the active Send, -1 if none *)
  sann : int;                                        (* what the active Send has announced and not yet done:
                                                        0 nothing 1 Load 2 CompareAndSwap 3 send (offering a copy) 4 Unlock *)
  tagged_used : bool;
  eu : bool; eru : bool;                             (* explicit Unlock / RUnlock statements: see the header *)
  th : thr list;
}

let st_of (x : xs) : A.st =
  let arr = Array.of_list (L.map nat_of_int x.vals) in
  let (tpc, tow, a, b, c, d) = x.tg in
  { A.sp = x.sp; A.v = (fun y -> arr.(vidx y));
    A.tg = { A.tpc = tpc; A.tow = tow; A.trs = nat_of_int a; A.tas = nat_of_int b; A.trcv = nat_of_int c; A.tabs = nat_of_int d } }

let word (x : xs) = Caster.mkword (z_of_int x.whi) (z_of_int x.wlo)
let get (x : xs) (y : A.var) : int = L.nth x.vals (vidx y)

(* one step of the extracted protocol model, the word carried along by the extracted bridge *)
let mstep (x : xs) (p : A.pick) : xs option =
  let s = st_of x in
  match A.step s p with
  | None -> None
  | Some _ ->
      let ((s', w'), _pan) = B.wrun s (word x) false [p] in
      let t = s'.A.tg in
      let y = { x with sp = s'.A.sp; vals = L.map (fun v -> int_of_nat (s'.A.v v)) all_vars;
                       tg = (t.A.tpc, t.A.tow, int_of_nat t.A.trs, int_of_nat t.A.tas, int_of_nat t.A.trcv, int_of_nat t.A.tabs);
                       whi = int_of_z (Caster.hi w'); wlo = int_of_z (Caster.lo w') } in
      (* the bridge theorem (Proofs/CasterBridge.v), re-checked on the fly: the word is the protocol's (cnt, armed) *)
      let (n, a) = B.absw w' in
      if get y A.Coq_bad = 0 && (int_of_nat n <> get y A.Coq_cnt || int_of_nat a <> get y A.Coq_armed) then
        failwith "caster_trace: the carried word and the protocol state disagree (CasterBridge)";
      Some y

let set_th (x : xs) (i : int) (t : thr) : xs = { x with th = L.mapi (fun j u -> if j = i then t else u) x.th }
let nth_th (x : xs) (i : int) : thr = L.nth x.th i

let in_b0 = function RB | RW | RR | RDC | RDA -> true | _ -> false

(* the value Add(d) returns according to the word model, on the word BEFORE the step; -1 = it panics *)
let add_ret (x : xs) (d : int) : int * int =
  match Caster.add (word x) (z_of_int d) with
  | _, Caster.AddRet (n, a) -> (int_of_z n, int_of_z a)
  | _, Caster.AddPanic -> (-1, 0)

(* the steps thread i may take now without a further observation *)
let thread_steps (x : xs) (i : int) (t : thr) : xs list =
  let opt = function Some y -> [y] | None -> [] in
  let rpick b tp = if t.tag then A.PT tp else A.PB b in
  match t.pc with
  | SF ->
      let zero = get x A.Coq_cnt = 0 && get x A.Coq_armed = 0 in
      opt (match mstep x (A.PB A.PSendStart) with
           | Some y -> Some (set_th y i { t with pc = (if zero then SZ else SQ); exp = 0 })
           | None -> None)
  | SL ->
      if x.act >= 0 then [] else
      opt (match mstep x (A.PB A.PSendLock) with
           | Some y -> Some (set_th { y with act = i; sann = 0 } i { t with pc = SA; exp = 0 })
           | None -> None)
  | SA when x.act = i ->
      let ps () = mstep x (A.PB A.PS) in
      let bad0 = get x A.Coq_bad in
      (match x.sp with
       | A.S3 -> opt (ps ())                                  (* the readers have drained: the write lock is taken *)
       | A.S4 ->
           (match ps () with
            | None -> []
            | Some y ->
                if x.sann = 1 && y.sp = A.S8 then               (* the Load saw 0 (or an armed word): no CAS follows *)
                  [set_th { y with sann = 0 } i { t with exp = (if get y A.Coq_bad > bad0 then -1 else 0) }]
                else if x.sann = 2 && y.sp = A.S6 then           (* the arming CAS succeeds: every idle receiver is owed a copy *)
                  [{ y with sann = 0; th = L.mapi (fun j u -> if j = i then t else if in_b0 u.pc then { u with owed = true } else u) y.th }]
                else [])
       | A.S6 -> if get x A.Coq_k = 0 && x.sann = 0 then opt (ps ()) else []
       | A.S7 ->
           if x.sann <> 1 then [] else
           (match ps () with
            | None -> []
            | Some y ->
                let e = if get y A.Coq_bad > bad0 then -1 else get y A.Coq_ret in
                (if e >= 0 then
                   match Caster.send_end (z_of_int (get x A.Coq_reg0)) (word x) with
                   | _, Caster.SeRet n when int_of_z n = e -> ()
                   | _ -> failwith "caster_trace: Caster.send_end and the protocol disagree on Send's return value");
                [set_th { y with sann = 0 } i { t with exp = e }])
       | A.S7c ->
           if x.sann <> 2 then [] else
           (match ps () with
            | None -> []
            | Some y -> [set_th { y with sann = 0 } i { t with exp = (if get y A.Coq_bad > bad0 then -1 else t.exp) }])
       | A.S8 ->
           if x.eu && x.sann <> 4 then [] else
           (match ps () with
            | None -> []
            | Some y -> [set_th { y with sann = 0; act = -1 } i { t with pc = SD }])
       | A.SNone -> [])
  | RL -> opt (match mstep x (rpick A.PU0 A.TU0) with Some y -> Some (set_th y i { t with pc = R1 }) | None -> None)
  | R1a ->
      let armed = get x A.Coq_armed <> 0 in
      let (r, _) = add_ret x 1 in
      opt (match mstep x (rpick A.PU1 A.TU1) with
           | Some y -> Some (set_th y i (if armed then { t with pc = RF; exp = -1 } else { t with pc = R2; exp = r }))
           | None -> None)
  | R2 when x.eru -> []
  | R2 | R2a -> opt (match mstep x (rpick A.PU2 A.TU2) with Some y -> Some (set_th y i { t with pc = RB }) | None -> None)
  | RR ->
      if x.act < 0 || x.sann <> 3 || x.sp <> A.S6 then [] else
      let owed = if t.tag then (let (_, tow, _, _, _, _) = x.tg in tow) else t.owed in
      opt (match mstep x (rpick (if owed then A.PRecvO else A.PRecvN) A.TRecv) with
           | Some y -> Some (set_th { y with sann = 0 } i { t with pc = RG; exp = (nth_th x x.act).va })
           | None -> None)
  | RDA ->
      let armed = get x A.Coq_armed <> 0 in
      let bad0 = get x A.Coq_bad in
      let (r, a) = add_ret x (-1) in
      let owed = if t.tag then (let (_, tow, _, _, _, _) = x.tg in tow) else t.owed in
      opt (match mstep x (rpick (if owed then A.PDeregO else A.PDeregN) A.TDereg) with
           | Some y ->
               if get y A.Coq_bad > bad0 then Some (set_th y i { t with pc = RF; exp = -1 })
               else begin
                 if (a <> 0) <> armed then failwith "caster_trace: Caster.add and the protocol disagree on absorbing";
                 Some (set_th y i { t with pc = (if armed then RN else RF); exp = r })
               end
           | None -> None)
  | RNa ->
      if x.act < 0 || x.sann <> 3 || x.sp <> A.S6 then [] else
      opt (match mstep x (rpick A.PAbsorb A.TAbsorb) with
           | Some y -> Some (set_th { y with sann = 0 } i { t with pc = RF })
           | None -> None)
  | _ -> []

let internal (x : xs) : xs list = L.concat (L.mapi (fun i t -> thread_steps x i t) x.th)

let key (x : xs) : string = Marshal.to_string x [Marshal.No_sharing]

let closure (xs : xs list) : xs list =
  let seen = Hashtbl.create 256 in
  let rec go acc = function
    | [] -> acc
    | x :: rest ->
        let k = key x in
        if Hashtbl.mem seen k then go acc rest else (Hashtbl.add seen k (); go (x :: acc) (internal x @ rest)) in
  go [] xs

(* an observation by thread i *)
let observe (ns : int) ((i, kind, arg) : int * int * int) (x : xs) : xs list =
  if kind = 10 then begin
    (* every call has returned; Add(0) by the driver *)
    if x.act >= 0 || L.exists (fun t -> t.pc <> SI && t.pc <> RI) x.th then [] else
    match Caster.add (word x) BinNums.Z0 with
    | _, Caster.AddRet (n, _) when int_of_z n = arg -> [x]
    | _ -> []
  end else
  let t = nth_th x i in
  let sender = i < ns in
  let upd t' = [set_th x i t'] in
  match kind, sender with
  | 1, true -> if t.pc = SI then upd { t with pc = SC; va = arg; exp = 0 } else []
  | 2, true -> if (t.pc = SZ && arg = 0) || (t.pc = SD && t.exp = arg) then upd { t with pc = SI } else []
  | 3, true -> if t.pc = SD && t.exp = -1 then upd { t with pc = SI } else []
  | 4, true ->
      (match arg, t.pc with
       | 1, SC -> upd { t with pc = SF }
       | 1, SA when x.act = i && x.sp = A.S4 && (x.sann = 0 || x.sann = 2) -> [{ x with sann = 1 }]   (* (re-)load before arming *)
       | 1, SA when x.act = i && x.sp = A.S7 && x.sann = 0 -> [{ x with sann = 1 }]
       | 2, SA when x.act = i && x.sp = A.S4 && x.sann = 1 -> [{ x with sann = 2 }]
       | 2, SA when x.act = i && x.sp = A.S7c && x.sann = 0 -> [{ x with sann = 2 }]
       | 4, SQ -> upd { t with pc = SL }
       | 6, SA when x.act = i && x.sp = A.S6 && x.sann = 0 && get x A.Coq_k > 0 -> [{ x with sann = 3 }]
       | 8, SA when x.act = i && x.sp = A.S8 && x.sann = 0 -> [{ x with sann = 4 }]                      (* an explicit Unlock *)
       | _ -> [])
  | 5, false ->
      if arg = 1 && t.pc = RI then begin
        let tag = not x.tagged_used in
        [set_th { x with tagged_used = x.tagged_used || tag } i { pc = RC; owed = false; exp = 0; va = 0; tag = tag }]
      end
      else if arg = -1 && (t.pc = RW || t.pc = RR) then upd { t with pc = RDC }
      else []
  | 4, false ->
      (match arg, t.pc with
       | 5, RC -> upd { t with pc = RL }
       | 3, R1 -> upd { t with pc = R1a }
       | 3, RDC -> upd { t with pc = RDA }
       | 7, RN -> upd { t with pc = RNa }
       | 9, R2 -> upd { t with pc = R2a }                                                                                 (* an explicit RUnlock *)
       | _ -> [])
  | 6, false ->
      if t.pc = RB && t.exp = arg then upd { t with pc = RW }
      else if t.pc = RF && t.exp = arg then upd { t with pc = RI; tag = false }
      else []
  | 7, false -> if t.pc = RF && t.exp = -1 then upd { t with pc = RI; tag = false } else []
  | 8, false -> if t.pc = RW then upd { t with pc = RR } else []
  | 9, false -> if t.pc = RG && t.exp = arg then upd { t with pc = RI; tag = false } else []
  | _ -> []

let sp_name = function A.SNone -> "SNone" | A.S3 -> "S3" | A.S4 -> "S4" | A.S6 -> "S6" | A.S7 -> "S7" | A.S7c -> "S7c" | A.S8 -> "S8"
let op_name = function 1 -> "Load" | 2 -> "CompareAndSwap" | 3 -> "atomic-Add" | 4 -> "Lock" | 5 -> "RLock" | 6 -> "chan-send" | 7 -> "chan-recv"
  | 8 -> "Unlock" | 9 -> "RUnlock" | 10 -> "Store" | 11 -> "Swap" | _ -> "?"
let ann_name = function 0 -> "-" | 1 -> "Load" | 2 -> "CAS" | 3 -> "send" | 4 -> "Unlock" | _ -> "?"

let show_obs ns (i, kind, arg) =
  let who = if kind = 10 then "driver" else if i < ns then Printf.sprintf "sender#%d" i else Printf.sprintf "receiver#%d" (i - ns) in
  who ^ ":" ^
  (match kind with
   | 1 -> Printf.sprintf "Send(%d)-called" arg | 2 -> Printf.sprintf "Send-returned-%d" arg | 3 -> "Send-PANICKED"
   | 4 -> "about-to-" ^ op_name arg | 5 -> Printf.sprintf "Add(%d)-called" arg | 6 -> Printf.sprintf "Add-returned-%d" arg
   | 7 -> "Add-PANICKED" | 8 -> "about-to-receive-on-C" | 9 -> Printf.sprintf "received-%d" arg
   | 10 -> Printf.sprintf "all-calls-returned,Add(0)-returned-%d" arg | _ -> "?")

let show_state ns (x : xs) =
  let ths = L.mapi (fun i t ->
    Printf.sprintf "%s%d:%s%s%s" (if i < ns then "s" else "r") (if i < ns then i else i - ns) (pc_name t.pc)
      (if t.owed && in_b0 t.pc then "/owed" else "") (if t.tag then "/tagged" else "")) x.th in
  let vs = L.filter (fun (n, v) -> v <> 0) (L.combine var_names x.vals) in
  Printf.sprintf "{sp:%s,announced:%s,word:(%d,%d),%s|%s}" (sp_name x.sp) (ann_name x.sann) x.whi x.wlo
    (String.concat "," (L.map (fun (n, v) -> Printf.sprintf "%s:%d" n v) vs)) (String.concat "," ths)

let trace (args : int list) : int list =
  match args with
  | seed :: case :: ns :: nr :: complete :: eu :: eru :: nev :: rest ->
      let rec evs k l acc =
        if k = 0 then L.rev acc
        else (match l with a :: b :: c :: l' -> evs (k - 1) l' ((a, b, c) :: acc) | _ -> failwith "caster_trace: truncated") in
      let obs = evs nev rest [] in
      let nsend = L.length (L.filter (fun (_, k, _) -> k = 1) obs) in
      let nreg = L.length (L.filter (fun (_, k, a) -> k = 5 && a = 1) obs) in
      let s0 = A.init (nat_of_int nsend) (nat_of_int (max 0 (nreg - 1))) in
      let x0 = { sp = s0.A.sp; vals = L.map (fun v -> int_of_nat (s0.A.v v)) all_vars; tg = (A.TA0, false, 0, 0, 0, 0);
                 whi = 0; wlo = 0; act = -1; sann = 0; tagged_used = false; eu = (eu <> 0); eru = (eru <> 0);
                 th = L.init (ns + nr) (fun i -> { pc = (if i < ns then SI else RI); owed = false; exp = 0; va = 0; tag = false }) } in
      let reject i o cands =
        let cands = L.sort_uniq compare cands in
        let shown = L.filteri (fun j _ -> j < 4) cands in
        Printf.printf "MISMATCH model=caster_trace kind=F case=t-%d-%d trace rejected: observation #%d [%s] is not explained by any of the %d candidate model states; candidates just before it: %s%s\n"
          seed case i (show_obs ns o) (L.length cands) (String.concat " " (L.map (show_state ns) shown))
          (if L.length cands > 4 then " ..." else "");
        [0; i] in
      let rec go i xs = function
        | [] ->
            if complete = 0 then [1] else
            let cl = closure xs in
            let fin = L.filter (fun x -> A.terminalb (st_of x) && x.act < 0) cl in
            if L.exists (fun x -> get x A.Coq_bad = 0 && get x A.Coq_stolen = 0) fin then [1]
            else if fin <> [] then begin
              Printf.printf "MISMATCH model=caster_trace kind=F case=t-%d-%d trace is a run of the model, but every terminal candidate has the ghost flag bad (a panic of the code would fire) or stolen (a receiver not counted by a Send took one of its copies) set: %s\n"
                seed case (String.concat " " (L.map (show_state ns) (L.filteri (fun j _ -> j < 4) fin)));
              [3; L.length fin]
            end
            else begin
              Printf.printf "MISMATCH model=caster_trace kind=F case=t-%d-%d trace rejected: every call has returned but none of the %d candidate model states is terminal: %s\n"
                seed case (L.length cl) (String.concat " " (L.map (show_state ns) (L.filteri (fun j _ -> j < 4) cl)));
              [2; L.length cl]
            end
        | o :: os ->
            let cl = closure xs in
            let xs' = L.concat_map (observe ns o) cl in
            if xs' = [] then reject i o cl else go (i + 1) xs' os in
      go 0 [x0] obs
  | _ -> failwith "caster_trace: args"

let init () = register_fn "caster_trace" trace
