(* adapter for Model/Caster.v (C08): the ChanCaster state word.
   F caster_add   whi wlo dkind delta     | panicked newhi newlo ret absorbed
   F caster_send  whi wlo mut w2hi w2lo   | panicked ret newhi newlo sent
   F caster_send_cas r mut2 w2hi w2lo mut3 w3hi w3lo | panicked ret newhi newlo
   F caster_round R D                     | ret finalhi finallo
   64-bit words travel as two 32-bit halves (OCaml ints are 63-bit); they are assembled in Z by the model's mkword. *)
open Core
module L = Stdlib.List

let word hi lo = Caster.mkword (z_of_int hi) (z_of_int lo)
let halves w = [int_of_z (Caster.hi w); int_of_z (Caster.lo w)]
let two63 = Caster.mkword (z_of_int (1 lsl 31)) BinNums.Z0                       (* 2^31 * 2^32 *)
let max_int64 = Caster.mkword (z_of_int ((1 lsl 31) - 1)) (z_of_int ((1 lsl 32) - 1))   (* 2^63 - 1 *)
let min_int64 = BinInt.Z.opp two63

let delta_of kind lit =
  match kind with
  | 0 -> z_of_int lit
  | 1 -> min_int64
  | 2 -> max_int64
  | _ -> failwith "caster: bad dkind"

let caster_add = function
  | [whi; wlo; dkind; lit] ->
      let w', out = Caster.add (word whi wlo) (delta_of dkind lit) in
      (match out with
       | Caster.AddRet (n, a) -> 0 :: halves w' @ [int_of_z n; int_of_z a]
       | Caster.AddPanic -> 1 :: halves w' @ [0; 0])
  | _ -> failwith "caster_add: args"

let caster_send = function
  | [whi; wlo; mut; w2hi; w2lo] ->
      let w', out = Caster.send_begin (word whi wlo) in
      (match out with
       | Caster.SbZero -> [0; 0] @ halves w' @ [0]
       | Caster.SbPanic -> [1; 0] @ halves w' @ [0]
       | Caster.SbArmed r ->
           let wf = if mut = 1 then word w2hi w2lo else w' in
           let w'', out2 = Caster.send_end r wf in
           (match out2 with
            | Caster.SeRet n -> [0; int_of_z n] @ halves w'' @ [int_of_z r]
            | Caster.SePanic -> [1; 0] @ halves w'' @ [int_of_z r]))
  | _ -> failwith "caster_send: args"

(* Send on the idle word (r, r); the word is w2 (if mut2) when Send loads it and w3 (if mut3) when it CASes it *)
let caster_send_cas = function
  | [r; mut2; w2hi; w2lo; mut3; w3hi; w3lo] ->
      (match Caster.send_begin (word r r) with
       | w1, Caster.SbArmed rr ->
           let wl = if mut2 = 1 then word w2hi w2lo else w1 in
           let wc = if mut3 = 1 then word w3hi w3lo else wl in
           let w', out = Caster.send_end_cas rr wl wc in
           (match out with
            | Caster.SeRet n -> [0; int_of_z n] @ halves w'
            | Caster.SePanic -> [1; 0] @ halves w')
       | _ -> failwith "caster_send_cas: the word did not arm")
  | _ -> failwith "caster_send_cas: args"

(* R receivers register on a fresh caster, a Send arms, D of them deregister while it is armed, the Send finishes.
   (Deregistrations that win the race against the arming give the same result: Proofs.Caster.send_roundtrip and
   Proofs.CasterAbs.send_return_exact.) *)
let caster_round = function
  | [r; d] ->
      let exception Panicked in
      (try
         let add w delta = match Caster.add w (z_of_int delta) with
           | w', Caster.AddRet _ -> w' | _, Caster.AddPanic -> raise Panicked in
         let rec times n f w = if n <= 0 then w else times (n - 1) f (f w) in
         let w = times r (fun w -> add w 1) BinNums.Z0 in
         (match Caster.send_begin w with
          | w', Caster.SbZero -> 0 :: halves w'
          | _, Caster.SbPanic -> raise Panicked
          | w1, Caster.SbArmed rr ->
              let w2 = times d (fun w -> add w (-1)) w1 in
              (match Caster.send_end rr w2 with
               | w3, Caster.SeRet n -> int_of_z n :: halves w3
               | _, Caster.SePanic -> raise Panicked))
       with Panicked -> [-1; -1; -1])
  | _ -> failwith "caster_round: args"

let init () =
  register_fn "caster_add" caster_add;
  register_fn "caster_send" caster_send;
  register_fn "caster_send_cas" caster_send_cas;
  register_fn "caster_round" caster_round
