(* adapters for the ChanPubSub slice (C06, C07).
   pubsub_case   : evaluation marker of one harness case (the case is decided by the harness monitors; the counter
                   abstraction Model/PubSubAbs.v has anonymous subscribers and is tied by the delay-bounded sweep)
   pubsub_sanity : sanityCheckSubscribersDelta(subscribers, delta) panicked (1) or not (0)  = Model/PubSubSanity.sanity_fires
   pubsub_addsub : addSubscribers on a counter holding `old`                                 = Model/PubSubSanity.add_subscribers *)
open Core
module L = Stdlib.List

let init () =
  register_fn "pubsub_case" (fun _ -> [1]);
  register_fn "pubsub_sanity" (function
    | [s; d] -> [if PubSubSanity.sanity_fires (z_of_int s) (z_of_int d) then 1 else 0]
    | _ -> failwith "pubsub_sanity: args");
  register_fn "pubsub_addsub" (function
    | [o; d] -> [int_of_z (PubSubSanity.add_subscribers (z_of_int o) (z_of_int d))]
    | _ -> failwith "pubsub_addsub: args")
