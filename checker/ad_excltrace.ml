(* adapter for Model/ExclusiveVal.v + Model/ExclusiveAbs.v (C09/C10): TRACE ACCEPTANCE of the Exclusive protocol, one key.
   The instrumented implementation logs, in the order they happen and with the goroutine that executes them, the synchronisation
   points of exclusive.go (announced BEFORE the operation executes) and the harness-side events (call made, function entered,
   resolve called, function returned, outcome received).  [trace] decides whether the log is a run of the EXTRACTED
   [ExclusiveVal.vstep] - whose counter part is [ExclusiveAbs.cstep] unchanged - and, step by step, that every tracked call sees
   the same run through [ExclusiveAbs.step] ([vproj]/[vproj_pick]).

   Where the model steps are placed.  Every model step is one critical section of the source.  A step is taken at an
   announcement its goroutine makes INSIDE that section: the announcement of the operation that releases the item mutex
   (Unlock, cond.Wait) for steps that only touch item fields, the announcement of the map mutex's Unlock for steps that read or
   change the map (fetch, replace, delete).  Such an announcement is made while the lock is held, so the order of the
   announcements of two sections on one lock is the order of the sections; sections on different locks commute in the model
   (a fetch reads/creates the map entry only; an attach as waiter / escape / sleeping runner changes item fields only).
   The only step without a section of its own is PReturn after a resolved work function: it is taken at the runner's next
   announcement (the Lock of its last section).  An outcome may be RECEIVED before the section that the model delivers it in has
   been announced as left (the send precedes it in the source): it is held back and compared when the model delivers.
   With this placement every observation determines the model step (if any) it stands for, so the set of candidate model states
   is a singleton in practice (max_states in the SUMMARY line); the functions still return lists of candidates, so that a placement
   that cannot be decided from the log alone can be added as a branch.
   What is checked on top of "vstep is enabled": which branch the source took (validation failed <-> the reference is stale in the
   model; escape <-> start-style and count <> 0; wait again <-> the item is still running; become the runner <-> the map item is not
   running; copy the result <-> the item is complete; delete <-> count = 0), the function a runner enters is the one the model's item
   holds (e_fn, the last attacher's), no function is entered twice, the body of resolve is run once per execution and only for the
   execution in progress, every outcome received is the one the model delivers (value of the execution the call was bound to, or
   errResolveNotCalled), and at END: every goroutine at rest, every blocking/async call answered, the model terminal, the key gone.

   args: seed case ncalls (flags)*ncalls nev (goroutine kind a b)*nev       flags: 1 start-style | 2 work-style function
   kinds: 1 EL 2 EU 3 IL 4 IU 5 CW 6 CB 7 CS 8 SEND 9 CLOSE 10 GO 11 SLEEP 12 DO | 20 SPAWNED parent | 30 CALL c flags | 31 RET c isnil
          32 WSTART f | 33 RESOLVE f x | 35 WRET f | 36 OUTCOME c v | 40 END maplen
   result: [1] accepted | [0; i] observation i is the first that no model state explains | [2; n] the log ends (after n
           observations, all explained) without END: the implementation did not finish. *)
open Core
module L = Stdlib.List
module A = ExclusiveAbs
module V = ExclusiveVal

type loc = LNone | LC2M | LC2S | LGWM | LGWX | LGD | LRun | LDone | LEsc

type rinfo = { rf : int; rx : int; forced : bool }

type phase =
  | Fresh of int                          (* no event of its own yet; created by goroutine (index, -1 unknown) *)
  | Idle                                  (* a caller between two calls, a resolving goroutine between two resolves *)
  | CCalled of int                        (* CALL logged, expects EL (fetch) *)
  | CFetchL of int                        (* fetch section: EL announced, expects EU = the fetch step *)
  | CFetched of int                       (* expects IL *)
  | CItemL of int                         (* expects EL (validation) *)
  | CValL of int                          (* validation section: expects EU *)
  | CValOk of int                         (* validated and attached in the source; expects GO *)
  | CSpawned of int                       (* GO announced; expects RET / OUTCOME *)
  | CEsc of int                           (* escape hatch: expects IU = the escape step *)
  | CEsc2 of int                          (* expects RET nil *)
  | CStale of int                         (* validation failed: expects IU *)
  | CStale2 of int                        (* expects EL (fetch again) *)
  | CAwait of int                         (* has its channel, expects OUTCOME *)
  | GNew of int                           (* the goroutine of call c, born holding the item mutex *)
  | GWait of int                          (* CW announced *)
  | GDrainS of int | GDrainC of int       (* copies the result: SEND / CLOSE announced *)
  | GSleepU of int | GSleepS of int | GSleepL of int    (* CallAfter wait: IU / SLEEP / IL announced *)
  | GReplL of int * int                   (* replace section: EL announced (0 from attach, 1 from wake, 2 after the sleep) *)
  | GRepld of int                         (* EU announced = ExecStart taken; expects IU *)
  | GRunPre of int                        (* expects WSTART *)
  | GRunIn of int * int                   (* inside the function of call f *)
  | GRet of int * int                     (* WRET logged; expects DO (forced resolve) *)
  | Mark of rinfo * phase                 (* RESOLVE logged; expects DO *)
  | ResDo of rinfo * phase                (* DO announced *)
  | Body of int * rinfo * phase           (* inside the once body: 0 SEND 1 CLOSE 2 IL 3 CB announced *)
  | GFin of int                           (* forced resolve done; expects IL *)
  | G3L of int | G3EL of int | G3EU of int | G3B of int * bool    (* last section *)
  | GDone

type xs = {
  m : V.vst;
  ph : (int * phase) list;         (* goroutine -> phase *)
  pend : (int * int list) list;    (* caller goroutine -> its calls whose go statement is announced and whose goroutine has not shown up *)
  gof : (int * int) list;          (* call -> its goroutine *)
  ks : (int * loc) list;           (* where the start-style calls are (they are anonymous in the model); checked against the counters *)
  attm : (int * int) list;         (* attach number -> call *)
  once : (int * int) list;         (* function -> goroutine inside the once body | -1 body finished *)
  cur : (int * int) option;        (* the execution in progress: runner's call, function (-1 before WSTART) *)
  early : (int * int) list;        (* outcomes received before the model delivered them *)
  got : int list;                  (* calls whose outcome was received and agrees with the model *)
}

(* ------------------------------------------------------------------------------------------------------------------ *)
let n2i = int_of_nat and i2n = nat_of_int

let fv (x : xs) (v : A.var) = n2i (x.m.V.vf v)

type cfg = { flags : int array }
let is_ks c k = c.flags.(k) land 1 = 1
let is_work c k = c.flags.(k) land 2 = 2
let tidx c k = let n = ref 0 in for j = 0 to k - 1 do if not (is_ks c j) then incr n done; !n

let loc_of c (x : xs) k : loc =
  if is_ks c k then (try L.assoc k x.ks with Not_found -> LNone)
  else match (L.nth x.m.V.tags (tidx c k)).V.bt.A.tpc with
    | A.TNone -> LNone | A.TC2M -> LC2M | A.TC2S -> LC2S | A.TGWM -> LGWM | A.TGWX -> LGWX | A.TGD -> LGD | A.TRun -> LRun
    | A.TDone -> LDone

let code_of_oval = function V.Val n -> n2i n | V.ErrResolveNotCalled -> 0
let tgot c (x : xs) k : int option =
  match (L.nth x.m.V.tags (tidx c k)).V.tgot with Some o -> Some (code_of_oval o.V.o_val) | None -> None

let s_loc = function LNone -> "not-called" | LC2M -> "c2m(ref current)" | LC2S -> "c2s(ref stale)" | LGWM -> "gwm(waits on map item)"
  | LGWX -> "gwx(waits on executed item)" | LGD -> "gd(item complete)" | LRun -> "runner" | LDone -> "done" | LEsc -> "escaped"
let s_rp = function A.RNone -> "RNone" | A.RSleep -> "RSleep" | A.RWork -> "RWork" | A.RWorkRes -> "RWorkRes" | A.RDone -> "RDone"
let rec s_ph = function
  | Fresh p -> Printf.sprintf "Fresh(parent g%d)" p | Idle -> "Idle" | CCalled k -> Printf.sprintf "c%d:called" k
  | CFetchL k -> Printf.sprintf "c%d:in-fetch-section" k | CFetched k -> Printf.sprintf "c%d:fetched" k
  | CItemL k -> Printf.sprintf "c%d:locking-item" k | CValL k -> Printf.sprintf "c%d:in-validation-section" k
  | CValOk k -> Printf.sprintf "c%d:validated,before-go" k | CSpawned k -> Printf.sprintf "c%d:go-announced" k
  | CEsc k -> Printf.sprintf "c%d:escape,before-item-unlock" k | CEsc2 k -> Printf.sprintf "c%d:escaped" k
  | CStale k -> Printf.sprintf "c%d:validation-failed" k | CStale2 k -> Printf.sprintf "c%d:retry" k
  | CAwait k -> Printf.sprintf "c%d:awaits-outcome" k | GNew k -> Printf.sprintf "c%d:goroutine-born" k
  | GWait k -> Printf.sprintf "c%d:cond.Wait" k | GDrainS k -> Printf.sprintf "c%d:copy-result(send)" k
  | GDrainC k -> Printf.sprintf "c%d:copy-result(close)" k | GSleepU k -> Printf.sprintf "c%d:runner,unlock-for-sleep" k
  | GSleepS k -> Printf.sprintf "c%d:runner,sleep" k | GSleepL k -> Printf.sprintf "c%d:runner,relock" k
  | GReplL (k, h) -> Printf.sprintf "c%d:replace-section(%s)" k (L.nth ["attach"; "wake"; "after-sleep"] h)
  | GRepld k -> Printf.sprintf "c%d:replaced" k | GRunPre k -> Printf.sprintf "c%d:runner,before-work" k
  | GRunIn (k, f) -> Printf.sprintf "c%d:runner,in-work-f%d" k f | GRet (k, f) -> Printf.sprintf "c%d:runner,work-f%d-returned" k f
  | Mark (r, p) -> Printf.sprintf "resolve(f%d,%d)-logged[%s]" r.rf r.rx (s_ph p)
  | ResDo (r, p) -> Printf.sprintf "%sresolve(f%d,%d)-at-once.Do[%s]" (if r.forced then "forced-" else "") r.rf r.rx (s_ph p)
  | Body (s, r, p) -> Printf.sprintf "%sresolve(f%d,%d)-body-after-%s[%s]" (if r.forced then "forced-" else "") r.rf r.rx
                        (L.nth ["send"; "close"; "lock"; "broadcast"] s) (s_ph p)
  | GFin k -> Printf.sprintf "c%d:runner,before-last-section" k | G3L k -> Printf.sprintf "c%d:last-section" k
  | G3EL k -> Printf.sprintf "c%d:last-section,map-lock" k | G3EU k -> Printf.sprintf "c%d:last-section,deleted" k
  | G3B (k, d) -> Printf.sprintf "c%d:last-section,broadcast%s" k (if d then "(deleted)" else "") | GDone -> "exited"

let s_kind = function 1 -> "EL(e.mutex.Lock)" | 2 -> "EU(e.mutex.Unlock)" | 3 -> "IL(item.mutex.Lock)" | 4 -> "IU(item.mutex.Unlock)"
  | 5 -> "CW(cond.Wait)" | 6 -> "CB(cond.Broadcast)" | 7 -> "CS(cond.Signal)" | 8 -> "SEND" | 9 -> "CLOSE" | 10 -> "GO" | 11 -> "SLEEP"
  | 12 -> "DO(once.Do)" | 20 -> "SPAWNED" | 30 -> "CALL" | 31 -> "RET" | 32 -> "WSTART" | 33 -> "RESOLVE" | 35 -> "WRET" | 36 -> "OUTCOME"
  | 40 -> "END" | k -> Printf.sprintf "?%d" k
let s_obs (g, k, a, b) =
  if k < 20 then Printf.sprintf "g%d:%s" g (s_kind k) else Printf.sprintf "g%d:%s(%d,%d)" g (s_kind k) a b

let s_state c (x : xs) : string =
  let n = Array.length c.flags in
  let calls = L.init n (fun k -> Printf.sprintf "c%d%s=%s" k (if is_ks c k then "s" else "") (s_loc (loc_of c x k))) in
  let gs = L.filter_map (fun (g, p) -> match p with GDone | Idle -> None | _ -> Some (Printf.sprintf "g%d=%s" g (s_ph p)))
      (L.sort compare x.ph) in
  Printf.sprintf "{model:rp=%s,mm=%d,mcount=%d,started=%d,execa=%d,answered=%d;calls:%s;goroutines:%s}"
    (s_rp x.m.V.vrp) (fv x A.Coq_mm) (fv x A.Coq_mcount) (fv x A.Coq_started) (fv x A.Coq_execa) (fv x A.Coq_answered)
    (String.concat "," calls) (if gs = [] then "-" else String.concat "," gs)

(* ------------------------------------------------------------------------------------------------------------------ *)
(* one model step: ExclusiveVal.vstep, checked against ExclusiveAbs.step through every tracked call's projection *)

let steps_taken = ref 0 and proj_checked = ref 0
let cov : (string, int) Hashtbl.t = Hashtbl.create 32
let hit (k : string) = Hashtbl.replace cov k (1 + (try Hashtbl.find cov k with Not_found -> 0))

let count_ks (x : xs) (l : loc) = L.length (L.filter (fun (_, l') -> l' = l) x.ks)

let mstep c (x : xs) ?own (p : V.vpick) : xs option =
  match V.vstep x.m p with
  | None -> None
  | Some m' ->
      incr steps_taken;
      let b = (match p with V.VB (b, _) -> b | V.VT (_, t) -> A.base_of t) in
      let eff = (match A.cstep A.good x.m.V.vrp x.m.V.vf b with
          | Some ((e, _), _) -> e | None -> failwith "excl_trace: vstep enabled but cstep disabled") in
      (* the same step through ExclusiveAbs.step, as seen by every tracked call (and by no tagged call if there is none) *)
      let k = L.length x.m.V.tags in
      if k = 0 then begin
        let s = { A.rp = x.m.V.vrp; A.v = x.m.V.vf; A.tg = A.tag0 } in
        (match A.step s (A.PB b) with
         | Some t -> incr proj_checked;
             if A.observe t <> A.observe { A.rp = m'.V.vrp; A.v = m'.V.vf; A.tg = A.tag0 } then failwith "excl_trace: ExclusiveAbs.step differs from vstep"
         | None -> failwith "excl_trace: ExclusiveAbs.step rejects a step vstep takes")
      end else
        for i = 0 to k - 1 do
          match V.vproj (i2n i) x.m, V.vproj (i2n i) m' with
          | Some s, Some s' ->
              (match A.step s (V.vproj_pick (i2n i) p) with
               | Some t -> incr proj_checked;
                   if A.observe t <> A.observe s' then failwith "excl_trace: ExclusiveAbs.step differs from the projection of vstep"
               | None -> failwith "excl_trace: ExclusiveAbs.step rejects the projection of a step vstep takes")
          | _ -> failwith "excl_trace: vproj"
        done;
      let ks1 = (match own with Some (kc, l) -> (kc, l) :: L.remove_assoc kc x.ks | None -> x.ks) in
      let mv l = (match eff, l with
          | A.EReplace, LC2M -> LC2S | A.EReplace, LGWM -> LGWX
          | A.EComplete, LGWX -> LGD | A.EComplete, LRun -> LDone
          | A.EDelete, LC2M -> LC2S
          | _, l -> l) in
      let x' = { x with m = m'; ks = L.map (fun (kc, l) -> (kc, mv l)) ks1 } in
      (* the adapter's own bookkeeping of the anonymous start-style calls must agree with the model's counters *)
      if count_ks x' LC2M <> fv x' A.Coq_c2ms || count_ks x' LC2S <> fv x' A.Coq_c2ss || count_ks x' LGWM <> fv x' A.Coq_gwms
         || count_ks x' LGWX <> fv x' A.Coq_gwxs || count_ks x' LGD <> fv x' A.Coq_gds || count_ks x' LEsc <> fv x' A.Coq_escaped
      then failwith "excl_trace: start-style bookkeeping disagrees with the model's counters";
      (* outcomes received early: compare as soon as the model has delivered *)
      let rec settle early got = function
        | [] -> Some (early, got)
        | (kc, v) :: rest ->
            if loc_of c x' kc = LDone then (if tgot c x' kc = Some v then settle early (kc :: got) rest else None)
            else settle ((kc, v) :: early) got rest in
      (match settle [] x'.got x'.early with
       | Some (early, got) -> Some { x' with early = L.rev early; got }
       | None -> None)

let set_ph (x : xs) g p = { x with ph = (g, p) :: L.remove_assoc g x.ph }
let opt_l = function Some y -> [y] | None -> []
let guard b l = if b then l else []

(* ------------------------------------------------------------------------------------------------------------------ *)
let rec handle c (x : xs) (g : int) (ph : phase) (k : int) (a : int) (b : int) : xs list =
  let ncalls = Array.length c.flags in
  let st p = [set_ph x g p] in
  let pick_call kc = if is_ks c kc then V.VB (A.PCall A.KS, i2n 0) else V.VT (i2n (tidx c kc), A.TCall) in
  let pick_stale kc = if is_ks c kc then V.VB (A.PStale A.KS, i2n 0) else V.VT (i2n (tidx c kc), A.TStale) in
  let pick_attach kc sl = if is_ks c kc then V.VB (A.PAttach (A.KS, sl), i2n 0) else V.VT (i2n (tidx c kc), A.TAttach sl) in
  let pick_wake kc sl = if is_ks c kc then V.VB (A.PWake (A.KS, sl), i2n 0) else V.VT (i2n (tidx c kc), A.TWake sl) in
  let pick_drain kc = if is_ks c kc then V.VB (A.PDrain A.KS, i2n 0) else V.VT (i2n (tidx c kc), A.TDrain) in
  let own kc l = if is_ks c kc then Some (kc, l) else None in
  let attach kc sl (want : loc) (next : phase) (post : xs -> bool) : xs list =
    let an = n2i x.m.V.att + 1 in
    let own_l = (match want with LGWM -> LGWM | _ -> LRun) in
    (* a start-style call attaches as waiter / runner only if its count++ yields 1 (else the model takes the escape hatch) *)
    if is_ks c kc && not (fv x A.Coq_mcount = 0 && (fv x A.Coq_mm = 2) = (want = LGWM)) then [] else
    match mstep c x ?own:(own kc own_l) (pick_attach kc sl) with
    | Some y when loc_of c y kc = want && post y -> [set_ph { y with attm = (an, kc) :: y.attm } g next]
    | _ -> [] in
  let started_exec kc (y : xs) = { y with cur = Some (kc, -1) } in
  match ph, k with
  (* ---- goroutines that have not done anything yet ---- *)
  | Fresh par, (30 | 33) -> handle c x g Idle k a b
  | Fresh par, _ when k < 20 ->
      (match (try L.assoc par x.pend with Not_found -> []) with
       | kc :: rest ->
           let x1 = { x with pend = (par, rest) :: L.remove_assoc par x.pend; gof = (kc, g) :: x.gof } in
           handle c (set_ph x1 g (GNew kc)) g (GNew kc) k a b
       | [] -> [])
  (* ---- callers ---- *)
  | Idle, 30 -> guard (a >= 0 && a < ncalls && b = c.flags.(a) && loc_of c x a = LNone && not (L.mem_assoc a x.gof)) (st (CCalled a))
  | Idle, 33 -> st (Mark ({ rf = a; rx = b; forced = false }, Idle))
  | CCalled kc, 1 -> st (CFetchL kc)
  | CFetchL kc, 2 ->
      (match loc_of c x kc with
       | LNone -> opt_l (mstep c x ?own:(own kc LC2M) (pick_call kc))
       | LC2S -> hit "refetch_after_stale"; opt_l (mstep c x ?own:(own kc LC2M) (pick_stale kc))
       | _ -> []) |> L.map (fun y -> set_ph y g (CFetched kc))
  | CFetched kc, 3 -> st (CItemL kc)
  | CItemL kc, 1 -> st (CValL kc)
  | CValL kc, 2 ->
      (match loc_of c x kc with
       | LC2S -> hit "validation_failed"; st (CStale kc)
       | LC2M -> if is_ks c kc && fv x A.Coq_mcount <> 0 then st (CEsc kc) else st (CValOk kc)
       | _ -> [])
  | CStale kc, 4 -> st (CStale2 kc)
  | CStale2 kc, 1 -> st (CFetchL kc)
  | CEsc kc, 4 ->
      let an = n2i x.m.V.att + 1 in
      if fv x A.Coq_mcount = 0 then [] else
      (match mstep c x ?own:(own kc LEsc) (pick_attach kc false) with
       | Some y -> hit "escape"; [set_ph { y with attm = (an, kc) :: y.attm } g (CEsc2 kc)]     (* the bookkeeping check requires escaped to have grown *)
       | None -> [])
  | CEsc2 kc, 31 -> guard (a = kc && b = 1) (st Idle)
  | CValOk kc, 10 ->
      let q = (try L.assoc g x.pend with Not_found -> []) in
      [set_ph { x with pend = (g, q @ [kc]) :: L.remove_assoc g x.pend } g (CSpawned kc)]
  | CSpawned kc, 31 -> guard (a = kc && (b = 1) = is_ks c kc) (st (if is_ks c kc then Idle else CAwait kc))
  | (CSpawned kc | CAwait kc), 36 -> guard (a = kc && not (is_ks c kc)) (outcome c x g kc b)
  (* ---- the goroutine of a call ---- *)
  | GNew kc, 5 -> hit "attach_waiter"; attach kc false LGWM (GWait kc) (fun _ -> true)
  | GNew kc, 4 -> hit "attach_runner_sleep"; attach kc true LRun (GSleepU kc) (fun y -> y.m.V.vrp = A.RSleep)
  | GNew kc, 1 -> st (GReplL (kc, 0))
  | GReplL (kc, 0), 2 -> hit "attach_runner"; attach kc false LRun (GRepld kc) (fun y -> y.m.V.vrp = A.RWork) |> L.map (started_exec kc)
  | GReplL (kc, 1), 2 ->
      (match mstep c x ?own:(own kc LRun) (pick_wake kc false) with
       | Some y when y.m.V.vrp = A.RWork -> hit "wake_runner"; [started_exec kc (set_ph y g (GRepld kc))] | _ -> [])
  | GReplL (kc, 2), 2 ->
      (match mstep c x (V.VB (A.PSleepDone, i2n 0)) with
       | Some y when y.m.V.vrp = A.RWork -> hit "sleep_done"; [started_exec kc (set_ph y g (GRepld kc))] | _ -> [])
  | GRepld kc, 4 -> st (GRunPre kc)
  | GSleepU kc, 11 -> st (GSleepS kc)
  | ph, 11 -> st ph      (* any other announced sleep (a delay added somewhere, a second sleep of the wait) is not a protocol step *)
  | (GSleepU kc | GSleepS kc), 3 -> st (GSleepL kc)
  | GSleepL kc, 1 -> st (GReplL (kc, 2))
  | GWait kc, 5 ->
      (match loc_of c x kc with
       | LGWM -> hit "rewait_map_item"; guard (fv x A.Coq_mm = 2) (st (GWait kc))
       | LGWX -> hit "rewait_executed_item"; st (GWait kc)
       | _ -> [])
  | GWait kc, 8 -> guard (not (is_ks c kc) && loc_of c x kc = LGD) (st (GDrainS kc))
  | GDrainS kc, 9 -> st (GDrainC kc)
  | GDrainC kc, 4 -> hit "drain_c"; opt_l (mstep c x (pick_drain kc)) |> L.map (fun y -> set_ph y g GDone)
  | GWait kc, 4 ->
      (match loc_of c x kc with
       | LGD when is_ks c kc -> hit "drain_s"; opt_l (mstep c x ?own:(own kc LDone) (pick_drain kc)) |> L.map (fun y -> set_ph y g GDone)
       | LGWM ->
           (match mstep c x ?own:(own kc LRun) (pick_wake kc true) with
            | Some y when y.m.V.vrp = A.RSleep -> hit "wake_runner_sleep"; [set_ph y g (GSleepU kc)] | _ -> [])
       | _ -> [])
  | GWait kc, 1 -> guard (loc_of c x kc = LGWM) (st (GReplL (kc, 1)))
  (* ---- the work function ---- *)
  | GRunPre kc, 32 ->
      let n = x.m.V.vf A.Coq_started in
      let fn_att = n2i (x.m.V.elog n).V.e_fn in
      guard (x.m.V.vrp = A.RWork && x.cur = Some (kc, -1) && (try L.assoc fn_att x.attm = a with Not_found -> false)
             && not (L.mem_assoc a x.once))
        [set_ph { x with cur = Some (kc, a) } g (GRunIn (kc, a))]
  | GRunIn (kc, f), 33 -> guard (a = f) (st (Mark ({ rf = f; rx = b; forced = false }, ph)))
  | GRunIn (kc, f), 35 -> guard (a = f && is_work c f) (st (GRet (kc, f)))
  | GRunIn (kc, f), 12 -> guard (not (is_work c f)) (st (ResDo ({ rf = f; rx = 0; forced = true }, GFin kc)))
  | GRet (kc, f), 12 -> st (ResDo ({ rf = f; rx = 0; forced = true }, GFin kc))
  | Mark (ri, cont), 12 -> st (ResDo (ri, cont))
  | ResDo (ri, cont), _ ->
      (match (try Some (L.assoc ri.rf x.once) with Not_found -> None) with
       | None ->
           (* nobody has entered the once body of this execution: this goroutine does, and it must be the execution in progress *)
           let has_out = fv x A.Coq_rown = 1 in
           guard (x.m.V.vrp = A.RWork && (match x.cur with Some (_, f) -> f = ri.rf | None -> false)
                  && ((has_out && k = 8) || (not has_out && k = 3)))
             [set_ph { x with once = (ri.rf, g) :: x.once } g (Body ((if has_out then 0 else 2), ri, cont))]
       | Some h when h >= 0 -> []          (* blocked in once.Do until the body has finished: it cannot announce anything *)
       | Some _ -> hit (if ri.forced then "forced_resolve_noop" else "resolve_noop"); handle c (set_ph x g cont) g cont k a b)
  | Body (0, ri, cont), 9 -> st (Body (1, ri, cont))
  | Body (1, ri, cont), 3 -> st (Body (2, ri, cont))
  | Body (2, ri, cont), 6 -> st (Body (3, ri, cont))
  | Body (3, ri, cont), 4 ->
      let p = if ri.forced then V.VB (A.PReturn, i2n 0) else V.VB (A.PResolve, i2n ri.rx) in
      hit (if ri.forced then "forced_resolve_takes_effect" else if cont = Idle then "async_resolve_takes_effect" else "sync_resolve_takes_effect");
      if cont = Idle && (match x.cur with Some (rk, _) -> (match (try L.assoc (L.assoc rk x.gof) x.ph with Not_found -> Idle) with ResDo _ -> true | _ -> false) | None -> false) then hit "async_resolve_wins_race_with_forced";
      guard (x.m.V.vrp = A.RWork && (ri.forced || ri.rx >= 1))
        (opt_l (mstep c x p) |> L.map (fun y -> set_ph { y with once = (ri.rf, -1) :: L.remove_assoc ri.rf y.once } g cont))
  (* ---- after the work function has returned ---- *)
  | GFin kc, 3 ->
      let ys = (match x.m.V.vrp with
          | A.RWorkRes -> hit "return_after_resolve"; opt_l (mstep c x (V.VB (A.PReturn, i2n 0)))
          | A.RDone -> [x]
          | _ -> []) in
      L.map (fun y -> set_ph y g (G3L kc)) ys
  | G3L kc, 1 -> st (G3EL kc)
  | G3EL kc, 2 ->
      (match mstep c x (V.VB (A.PG3, i2n 0)) with
       | Some y when fv y A.Coq_mm = 0 -> hit "finish_delete"; [set_ph { y with cur = None } g (G3EU kc)] | _ -> [])
  | G3EU kc, 6 -> st (G3B (kc, true))
  | G3L kc, 6 -> st (G3B (kc, false))
  | G3B (kc, true), 4 -> st GDone
  | G3B (kc, false), 4 ->
      (match mstep c x (V.VB (A.PG3, i2n 0)) with
       | Some y when fv y A.Coq_mm = 1 -> hit "finish_keep"; [set_ph { y with cur = None } g GDone] | _ -> [])
  | _ -> []

(* the caller of kc has received v *)
and outcome c (x : xs) g kc v : xs list =
  if L.mem kc x.got || L.mem_assoc kc x.early then [] else
  let fin y = [set_ph y g Idle] in
  match loc_of c x kc with
  | LDone -> guard (tgot c x kc = Some v) (fin { x with got = kc :: x.got })
  | LRun ->
      (* its own goroutine is the runner: resolve sends its outcome before the section that completes the item *)
      (match x.cur with
       | Some (rk, f) when rk = kc ->
           (match (try L.assoc f x.once with Not_found -> -1) with
            | h when h >= 0 ->
                (match (try L.assoc h x.ph with Not_found -> Idle) with
                 | Body (_, ri, _) when ri.rx = v -> hit "early_outcome_runner"; fin { x with early = (kc, v) :: x.early }
                 | _ -> [])
            | _ -> [])
       | _ -> [])
  | LGD ->
      (* its goroutine copies the result of its completed item: the send precedes the unlock *)
      (match (try L.assoc (L.assoc kc x.gof) x.ph with Not_found -> Idle) with
       | GDrainS _ | GDrainC _ ->
           let t = (L.nth x.m.V.tags (tidx c kc)).V.bt in
           (match (x.m.V.elog t.A.texec).V.e_res with
            | Some o when code_of_oval o.V.o_val = v -> hit "early_outcome_waiter"; fin { x with early = (kc, v) :: x.early }
            | _ -> [])
       | _ -> [])
  | _ -> []

let observe c (x : xs) (g, k, a, b) : xs list =
  match k with
  | 20 -> guard (not (L.mem_assoc g x.ph)) [set_ph x g (Fresh a)]
  | 40 ->
      let n = Array.length c.flags in
      let all_got = L.for_all (fun kc -> is_ks c kc || L.mem kc x.got) (L.init n (fun i -> i)) in
      let at_rest = (function
          | Idle | GDone -> true
          | ResDo (ri, Idle) -> hit "late_async_resolve"; (try L.assoc ri.rf x.once = -1 with Not_found -> false)   (* a resolve that came too late: once.Do did nothing *)
          | _ -> false) in
      guard (L.for_all (fun (_, p) -> at_rest p) x.ph && x.early = [] && all_got && V.vterminalb x.m
             && fv x A.Coq_mm = 0 && a = 0 && fv x A.Coq_nc = 0 && fv x A.Coq_ns = 0) [x]
  | _ -> (match (try Some (L.assoc g x.ph) with Not_found -> None) with
      | Some ph -> handle c x g ph k a b
      | None -> [])

(* ------------------------------------------------------------------------------------------------------------------ *)
let n_traces = ref 0 and n_obs = ref 0 and n_rejected = ref 0 and max_states = ref 0

let rec take n = function [] -> [] | y :: r -> if n <= 0 then [] else y :: take (n - 1) r

let trace (args : int list) : int list =
  match args with
  | seed :: case :: ncalls :: rest ->
      incr n_traces;
      let flags = Array.of_list (take ncalls rest) in
      let rest = (let rec drop n l = if n = 0 then l else drop (n - 1) (L.tl l) in drop ncalls rest) in
      let nev, evs = (match rest with n :: e -> n, e | [] -> failwith "excl_trace: args") in
      let rec quad l acc = (match l with
          | g :: k :: a :: b :: r -> quad r ((g, k, a, b) :: acc) | [] -> L.rev acc | _ -> failwith "excl_trace: truncated") in
      let obs = quad evs [] in
      if L.length obs <> nev then failwith "excl_trace: event count";
      let c = { flags } in
      let nks = Array.fold_left (fun n f -> n + (f land 1)) 0 flags in
      let nkc = ncalls - nks in
      let x0 = { m = V.vinit (i2n nkc) (i2n nks) (i2n nkc); ph = []; pend = []; gof = []; ks = []; attm = []; once = []; cur = None;
                 early = []; got = [] } in
      let diag what i o (xs : xs list) (recent : (int * int * int * int) list) =
        incr n_rejected;
        Printf.printf "MISMATCH model=excl_trace kind=F case=t-%d-%d %s observation#%d=%s candidates=%d %s recent=[%s]\n" seed case what i
          (match o with Some o -> s_obs o | None -> "-") (L.length xs)
          (String.concat " | " (L.map (s_state c) (take 4 xs)))
          (String.concat " " (L.rev_map s_obs (take 14 recent))) in
      let rec go i xs recent = function
        | [] -> diag "log-ends-without-END(implementation-did-not-finish)" i None xs recent; [2; i]
        | ((_, 40, _, _) as o) :: _ ->
            if L.concat_map (fun x -> observe c x o) xs <> [] then [1]
            else begin diag "not-terminal-at-END" i (Some o) xs recent; [0; i] end
        | o :: os ->
            incr n_obs;
            let xs' = L.concat_map (fun x -> observe c x o) xs in
            if L.length xs' > !max_states then max_states := L.length xs';
            if xs' = [] then begin diag "no-model-state-explains" i (Some o) xs recent; [0; i] end
            else go (i + 1) xs' (o :: recent) os in
      go 0 [x0] [] obs
  | _ -> failwith "excl_trace: args"

let init () =
  register_fn "excl_trace" trace;
  summaries := !summaries @ [fun () ->
    if !n_traces > 0 then
      Printf.printf "SUMMARY model=excl_trace cases=%d bad=%d observations=%d model_steps=%d abs_step_projections_checked=%d max_states=%d%s\n"
        !n_traces !n_rejected !n_obs !steps_taken !proj_checked !max_states
        (String.concat "" (L.map (fun (k, v) -> Printf.sprintf " %s=%d" k v) (L.sort compare (Hashtbl.fold (fun k v acc -> (k, v) :: acc) cov []))))]
