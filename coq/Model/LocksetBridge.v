(* C11 — the bridge between the two halves of the property (executable definitions only).

   Model/Lockset.v has (A) an abstract lock-state machine with the [disciplined] check and (B) the translator's facts
   with the [guard_ok] check over the hand-written guard table. This file relates them:

   * [tr_access], [tr_held]: the translation of a fact, instantiated at an OBJECT (a number standing for one value of
     the fact's struct type), to an abstract action and to the abstract locks the translator saw held on that object;
   * [core], [abs_guard]: the abstract guard of a location = the table's guard with every exemption stripped;
   * [bridged]: the facts whose justification is ENTIRELY the abstract discipline (mutex in adequate mode / atomic /
     never written) — for them Proofs/LocksetBridge.v proves [action_ok];
   * [pitem], [consistent]: thread programs made of lock operations and of fact sites, each site executed while the
     thread really holds what the translator saw held ("consistent");
   * [trust_kind], [classify], [trusted_table]: the explicit, finite list of everything that is NOT bridged — the
     trusted remainder of C11 — keyed by (top-level function, struct, field, kind), never by line number. *)
From Coq Require Import List String Ascii Bool Arith.
From BB Require Import Model.Lockset Model.LocksetHB.
Import ListNotations.
Open Scope string_scope.

(* ---- abstract identities: an object number, the struct it is a value of, and a field / lock-field path ---- *)
Definition obj := nat.
Definition alock := (obj * (string * string))%type.
Definition aloc := (obj * (string * string))%type.

Definition alock_eqb (a b : alock) : bool :=
  Nat.eqb (fst a) (fst b) && String.eqb (fst (snd a)) (fst (snd b)) && String.eqb (snd (snd a)) (snd (snd b)).

(* The guard with all exemptions removed. *)
Fixpoint core (g : guard) : guard :=
  match g with GExempt _ _ _ g' => core g' | _ => g end.

Definition core_is_abstract (g : guard) : bool :=
  match core g with GMutex _ | GAtomic | GImmutable => true | _ => false end.

(* A guard lookup: the table of Model/Lockset.v, or a table with a default (captured locals, Model/LocksetLocals.v). *)
Definition glookup := string -> string -> option guard.

(* The abstract guard of location (o, s, f). Fields whose core guard has no abstract counterpart (GOwned, GChanSync),
   and unknown fields, are mapped to LImmutable: no bridged fact ever writes them (see [bridged]). *)
Definition abs_guard (lk : glookup) (x : aloc) : lguard alock :=
  match lk (fst (snd x)) (snd (snd x)) with
  | Some g => match core g with
              | GMutex lf => LMutex (fst x, (fst (snd x), lf))
              | GAtomic => LAtomic
              | _ => LImmutable
              end
  | None => LImmutable
  end.

(* ---- translation of a fact at object o ---- *)
Definition fact_loc (o : obj) (fa : fact) : aloc := (o, (f_struct fa, f_field fa)).

Definition tr_access (o : obj) (fa : fact) : action alock aloc :=
  if f_atomic fa then AtomicOp (fact_loc o fa) else Access (fact_loc o fa) (f_kind fa).

(* Only the locks of THE SAME OBJECT (l_same) are translated; locks of other objects never satisfy a guard. *)
Definition tr_held (o : obj) (h : list (lockid * mode)) : list (alock * mode) :=
  map (fun p => ((o, (l_struct (fst p), l_field (fst p))), snd p)) (filter (fun p => l_same (fst p)) h).

(* A fact is bridged if its field's guard, WITH EVERY EXEMPTION REMOVED, is one of the three abstract guards and is
   satisfied by the fact. (Fresh facts that happen to satisfy their guard are bridged too: freshness is then not
   needed.) *)
Definition bridged (lk : glookup) (fa : fact) : bool :=
  match lk (f_struct fa) (f_field fa) with
  | Some g => core_is_abstract g && guard_sat (core g) fa
  | None => false
  end.

(* ---- thread programs over fact sites ---- *)
Inductive pitem :=
| PAcq (o : obj) (s lf : string) (m : mode)      (* o.lf.Lock() / RLock() where o is a value of struct s *)
| PRel (o : obj) (s lf : string)                 (* Unlock / RUnlock; cond.Wait() is PRel followed by PAcq *)
| PFact (o : obj) (fa : fact)                    (* the access described by fact fa, performed on object o *)
| PTau.

Definition tr_item (i : pitem) : action alock aloc :=
  match i with
  | PAcq o s lf m => Acq (o, (s, lf)) m
  | PRel o s lf => Rel (o, (s, lf))
  | PFact o fa => tr_access o fa
  | PTau => Tau
  end.

(* h holds every lock of h0, in write mode where h0 has write mode. *)
Definition held_covers (h h0 : list (alock * mode)) : bool :=
  forallb (fun p => if mode_is_w (snd p) then holds_w alock alock_eqb h (fst p)
                    else holds_any alock alock_eqb h (fst p)) h0.

(* "each access is executed while holding what the translator saw held": symbolic execution of the thread's own
   lock operations (the same [held_after] as the abstract machine), comparing at every fact site. *)
Fixpoint consistent (h : list (alock * mode)) (p : list pitem) : bool :=
  match p with
  | [] => true
  | i :: p' =>
      match i with
      | PFact o fa => held_covers h (tr_held o (f_held fa))
      | _ => true
      end && consistent (held_after alock aloc alock_eqb h (tr_item i)) p'
  end.

Definition prog_facts (p : list pitem) : list fact :=
  flat_map (fun i => match i with PFact _ fa => [fa] | _ => [] end) p.

Definition tr_thread (p : list pitem) : thread alock aloc := mkThread (map tr_item p) [].

(* ---- the trusted remainder ---- *)
Inductive trust_kind :=
| TFresh                 (* access through an object not yet published (the translator's judgement), guard not met *)
| TOwned                 (* GOwned: confined to one call chain *)
| TChanSync              (* GChanSync: handed over through a channel *)
| TExempt (why : exemption).

Definition exemption_eqb (a b : exemption) : bool :=
  match a, b with
  | ExLazyInitProviso, ExLazyInitProviso | ExGoOrdered, ExGoOrdered | ExUnpublished, ExUnpublished
  | ExOnceGuarded, ExOnceGuarded | ExKnownFinding, ExKnownFinding => true
  | _, _ => false
  end.

Definition trust_kind_eqb (a b : trust_kind) : bool :=
  match a, b with
  | TFresh, TFresh | TOwned, TOwned | TChanSync, TChanSync => true
  | TExempt x, TExempt y => exemption_eqb x y
  | _, _ => false
  end.

(* Which non-abstract clause of the guard accepts the fact (first match, outermost exemption first). [fnof] names the
   function an exemption is compared with: the top-level function (fields, as [guard_sat] does) or the function
   literal (captured locals). *)
Fixpoint classify_g (fnof : fact -> string) (g : guard) (fa : fact) : option trust_kind :=
  match g with
  | GExempt fn k why g' =>
      if String.eqb fn (fnof fa) && rw_eqb k (f_kind fa) && negb (f_atomic fa) then Some (TExempt why)
      else classify_g fnof g' fa
  | GOwned fns => if negb (f_atomic fa) && in_fns fns (f_fn fa) then Some TOwned else None
  | GChanSync fns => if negb (f_atomic fa) && in_fns fns (f_fn fa) then Some TChanSync else None
  | _ => None
  end.

(* None: the fact is bridged (nothing to trust) or it is a violation (unknown field, or no clause accepts it). *)
Definition classify (fnof : fact -> string) (lk : glookup) (fa : fact) : option trust_kind :=
  match lk (f_struct fa) (f_field fa) with
  | Some g => if bridged lk fa then None
              else if f_fresh fa && negb (f_atomic fa) then Some TFresh
              else classify_g fnof g fa
  | None => None
  end.

Definition trusted_entry := (string * (string * (string * trust_kind)))%type.   (* function, struct, field, kind *)

Definition entry_matches (fnof : fact -> string) (lk : glookup) (e : trusted_entry) (fa : fact) : bool :=
  String.eqb (fst e) (fnof fa) && String.eqb (fst (snd e)) (f_struct fa)
  && String.eqb (fst (snd (snd e))) (f_field fa)
  && match classify fnof lk fa with Some k => trust_kind_eqb (snd (snd (snd e))) k | None => false end.

Definition in_trusted (fnof : fact -> string) (lk : glookup) (tbl : list trusted_entry) (fa : fact) : bool :=
  existsb (fun e => entry_matches fnof lk e fa) tbl.

(* Every fact is either bridged or listed; every entry is used by some fact. *)
Definition remainder_ok (fnof : fact -> string) (lk : glookup) (tbl : list trusted_entry) (facts : list fact) : bool :=
  forallb (fun fa => bridged lk fa || in_trusted fnof lk tbl fa) facts.
Definition table_tight (fnof : fact -> string) (lk : glookup) (tbl : list trusted_entry) (facts : list fact) : bool :=
  forallb (fun e => existsb (entry_matches fnof lk e) facts) tbl.

(* The entries a list of facts needs, in order of first occurrence (to review a change of the source:
   Eval vm_compute in needed_entries f_fn (lookup guard_table) impl_facts). *)
Definition entry_eqb (a b : trusted_entry) : bool :=
  String.eqb (fst a) (fst b) && String.eqb (fst (snd a)) (fst (snd b))
  && String.eqb (fst (snd (snd a))) (fst (snd (snd b))) && trust_kind_eqb (snd (snd (snd a))) (snd (snd (snd b))).

Fixpoint needed_entries_acc (fnof : fact -> string) (lk : glookup) (facts : list fact) (acc : list trusted_entry)
  : list trusted_entry :=
  match facts with
  | [] => rev acc
  | fa :: fs =>
      match classify fnof lk fa with
      | Some k => let e := (fnof fa, (f_struct fa, (f_field fa, k))) in
                  if existsb (entry_eqb e) acc then needed_entries_acc fnof lk fs acc
                  else needed_entries_acc fnof lk fs (e :: acc)
      | None => needed_entries_acc fnof lk fs acc
      end
  end.
Definition needed_entries (fnof : fact -> string) (lk : glookup) (facts : list fact) : list trusted_entry :=
  needed_entries_acc fnof lk facts [].

(* The lock named by a GMutex guard is reached through a path from the object ("mutex", "pongC.L"). The abstract
   lock (o, s, path) denotes ONE lock only if the pointer-typed components of the path never change: the first
   component, when it is itself a field of the table, must be immutable. *)
Fixpoint first_component (s : string) : string :=
  match s with
  | EmptyString => EmptyString
  | String c s' => if Ascii.eqb c "."%char then EmptyString else String c (first_component s')
  end.

Definition lock_paths_stable (t : guard_tbl) : bool :=
  forallb (fun e => match core (snd e) with
                    | GMutex lf => match lookup t (fst (fst e)) (first_component lf) with
                                   | Some g => match g with GImmutable => true | _ => false end
                                   | None => true       (* a sync.Mutex / RWMutex held by value: not a memory location *)
                                   end
                    | _ => true
                    end) t.

(* ---- the explicit trusted remainder of the CURRENT source, fields of the library's structs ----
   One line per (function, struct, field, kind). TFresh: the function builds the object (a literal, new(T), a local
   struct value, or a by-value copy) and the access precedes its first escaping use. The other kinds repeat the
   justification given next to the field's entry in [guard_table]. *)
Definition trusted_table : list trusted_entry := [
  ("FixedBufferCleaner", ("FixedBufferCleanerNotification", ("Max", TFresh)));
  ("FixedBufferCleaner", ("FixedBufferCleanerNotification", ("Target", TFresh)));
  ("FixedBufferCleaner", ("FixedBufferCleanerNotification", ("Size", TFresh)));
  ("FixedBufferCleaner", ("FixedBufferCleanerNotification", ("Offsets", TFresh)));
  ("FixedBufferCleaner", ("FixedBufferCleanerNotification", ("Trim", TFresh)));
  ("FatalError", ("fatalError", ("err", TFresh)));
  ("Buffer.NewConsumer", ("consumer", ("done", TFresh)));
  ("Buffer.NewConsumer", ("consumer", ("producer", TFresh)));
  ("Buffer.NewConsumer", ("consumer", ("cond", TFresh)));
  ("Buffer.NewConsumer", ("consumer", ("ctx", TFresh)));
  ("Buffer.NewConsumer", ("consumer", ("cancel", TFresh)));
  ("Buffer.getAsync", ("struct{Value,Error}", ("Error", TChanSync)));
  ("Buffer.getAsync", ("struct{Value,Error}", ("Value", TChanSync)));
  ("Buffer.ensure", ("Buffer", ("ctx", (TExempt ExLazyInitProviso))));
  ("Buffer.ensure", ("Buffer", ("cancel", (TExempt ExLazyInitProviso))));
  ("Buffer.ensure", ("Buffer", ("consumers", (TExempt ExLazyInitProviso))));
  ("Buffer.ensure", ("Buffer", ("done", (TExempt ExLazyInitProviso))));
  ("Buffer.ensure", ("Buffer", ("cleaner", (TExempt ExLazyInitProviso))));
  ("Buffer.ensure", ("CleanerConfig", ("Cleaner", TFresh)));
  ("Buffer.ensure", ("CleanerConfig", ("Cooldown", TFresh)));
  ("Buffer.ensure", ("Buffer", ("cond", (TExempt ExLazyInitProviso))));
  ("NewCallable", ("callable", ("callableValue", TFresh)));
  ("Call", ("callConfig", ("this", TFresh)));
  ("Call", ("callConfig", ("args", TOwned)));
  ("Call", ("callConfig", ("results", TOwned)));
  ("CallArgs", ("callConfig", ("this", TOwned)));
  ("CallArgs", ("callConfig", ("args", TOwned)));
  ("CallResults", ("callConfig", ("this", TOwned)));
  ("CallResults", ("callConfig", ("results", TOwned)));
  ("CallResultsSlice", ("callConfig", ("this", TOwned)));
  ("CallResultsSlice", ("callConfig", ("results", TOwned)));
  ("CallArgsRaw", ("callConfig", ("args", TOwned)));
  ("CallResultsRaw", ("callConfig", ("results", TOwned)));
  ("NewChanCaster", ("ChanCaster", ("C", TFresh)));
  ("NewChannel", ("Channel", ("valid", TFresh)));
  ("NewChannel", ("Channel", ("source", TFresh)));
  ("NewChannel", ("Channel", ("done", TFresh)));
  ("NewChannel", ("Channel", ("rate", TFresh)));
  ("NewChannel", ("Channel", ("ctx", TFresh)));
  ("NewChannel", ("Channel", ("cancel", TFresh)));
  ("NewChanPubSub", ("ChanCaster", ("C", TFresh)));
  ("NewChanPubSub", ("ChanPubSub", ("pongC", TFresh)));
  ("NewChanPubSub", ("ChanPubSub", ("broken", TFresh)));
  ("consumer.Get", ("struct{Value,Error}", ("Error", TFresh)));
  ("consumer.Get", ("struct{Value,Error}", ("Value", TFresh)));
  ("ExclusiveKey", ("exclusiveConfig", ("key", TOwned)));
  ("ExclusiveWork", ("exclusiveConfig", ("work", TOwned)));
  ("ExclusiveWait", ("exclusiveConfig", ("wait", TOwned)));
  ("ExclusiveStart", ("exclusiveConfig", ("start", TOwned)));
  ("ExclusiveWrapper", ("exclusiveConfig", ("wrappers", TOwned)));
  ("Exclusive.CallWithOptions", ("exclusiveConfig", ("wrappers", TOwned)));
  ("Exclusive.CallWithOptions", ("exclusiveConfig", ("work", TOwned)));
  ("Exclusive.call", ("exclusiveConfig", ("work", TFresh)));
  ("Exclusive.call", ("exclusiveConfig", ("key", TFresh)));
  ("Exclusive.call", ("exclusiveItem", ("mutex", TFresh)));
  ("Exclusive.call", ("exclusiveItem", ("cond", TFresh)));
  ("Exclusive.call", ("exclusiveConfig", ("wait", TFresh)));
  ("Exclusive.call", ("exclusiveConfig", ("start", TFresh)));
  ("Exclusive.call", ("ExclusiveOutcome", ("Result", TFresh)));
  ("Exclusive.call", ("ExclusiveOutcome", ("Error", TFresh)));
  ("Exclusive.call", ("exclusiveItem", ("running", TFresh)));
  ("Exclusive.call", ("exclusiveConfig", ("key", TOwned)));
  ("Exclusive.call", ("exclusiveItem", ("work", (TExempt ExUnpublished))));
  ("Notifier.SubscribeContext", ("notifierSubscriber", ("ctx", TFresh)));
  ("Notifier.SubscribeContext", ("notifierSubscriber", ("target", TFresh)));
  ("Worker.do", ("Worker", ("stop", (TExempt ExGoOrdered))));
  ("Worker.do", ("Worker", ("done", (TExempt ExGoOrdered))));
  ("Workers.Call", ("struct{value,output}", ("value", TFresh)));
  ("Workers.Call", ("struct{value,output}", ("output", TFresh)));
  ("Workers.Call", ("struct{result,error}", ("result", TFresh)));
  ("Workers.Call", ("struct{result,error}", ("error", TFresh)));
  ("Workers.worker", ("struct{result,error}", ("result", TFresh)));
  ("Workers.worker", ("struct{result,error}", ("error", TFresh)))
].

(* ---- the same for the captured locals (Model/LocksetData.v; facts impl_local_facts) ----
   The function is the function LITERAL (f_fn ++ f_lit). TFresh: the declaring function writes the variable before the
   first literal that captures it is created (`c := make(chan ..)`, `item = e.work[key]`, `stops = append(stops, ..)`):
   published to the capturing goroutine by the go statement / the registration call that receives the literal. *)
Definition local_trusted_table : list trusted_entry := [
  ("LinearAttempt", ("local LinearAttempt", ("c", TFresh)));
  ("LinearAttempt", ("local LinearAttempt", ("count", TFresh)));
  ("Buffer.NewConsumer", ("local Buffer.NewConsumer", ("c", TFresh)));
  ("Buffer.getAsync", ("local Buffer.getAsync", ("out", TFresh)));
  ("Buffer.cleanup", ("local Buffer.cleanup", ("mutex", TFresh)));
  ("Buffer.cleanup", ("local Buffer.cleanup", ("timer", TFresh)));
  ("Buffer.cleanup", ("local Buffer.cleanup", ("broadcast", TFresh)));
  ("Buffer.cleanup$1$1", ("local Buffer.cleanup", ("timer", (TExempt ExGoOrdered))));
  ("CallArgs$1", ("local CallArgs$1", ("in", TFresh)));
  ("CallResultsSlice$1", ("local CallResultsSlice$1", ("value", TFresh)));
  ("ChanPubSub.SubscribeContext", ("local ChanPubSub.SubscribeContext", ("ctx", TFresh)));
  ("ChanPubSub.SubscribeContext", ("local ChanPubSub.SubscribeContext", ("stop", TFresh)));
  ("ConflatedContext", ("local ConflatedContext", ("cancel", TFresh)));
  ("ChainAfterFunc", ("local ChainAfterFunc", ("stop", TFresh)));
  ("CombineContext", ("local CombineContext", ("stops", TFresh)));
  ("Exclusive.call", ("local Exclusive.call", ("item", TFresh)));
  ("Exclusive.call", ("local Exclusive.call", ("outcome", TFresh)));
  ("Notifier.SubscribeCancel", ("local Notifier.SubscribeCancel", ("ctx", TFresh)));
  ("ExponentialRetry", ("local ExponentialRetry", ("ctx", TFresh)));
  ("ExponentialRetry", ("local ExponentialRetry", ("rate", TFresh)));
  ("WaitCond", ("local WaitCond", ("ctx", (TExempt ExGoOrdered))))
].

(* The program "take every lock the translator saw held on the object, then perform the access": shows that the
   hypotheses of the bridge theorem are satisfiable for a fact, and is the building block of the all-sites example. *)
Definition site_prog (o : obj) (fa : fact) : list pitem :=
  map (fun p => PAcq o (l_struct (fst p)) (l_field (fst p)) (snd p)) (filter (fun p => l_same (fst p)) (f_held fa))
  ++ [PFact o fa].

(* ---- the same programs over the machine with ownership-carrying happens-before edges (Model/LocksetHB.v) ----
   Channels are numbers; [hpay c] is the abstract lock (token) every message of channel c carries. HSendI / HRecvI also
   stand for `go` with a lock hand-over (HGo / HStart) and for close / receive-from-closed. *)
Inductive hitem :=
| HItem (i : pitem)
| HSendI (c : nat)
| HRecvI (c : nat).

Definition htr_access (o : obj) (fa : fact) : haction alock aloc nat :=
  if f_atomic fa then HAtomic (fact_loc o fa) else HAccess (fact_loc o fa) (f_kind fa).

Definition tr_hitem (i : hitem) : haction alock aloc nat :=
  match i with
  | HItem (PAcq o s lf m) => HAcq (o, (s, lf)) m
  | HItem (PRel o s lf) => HRel (o, (s, lf))
  | HItem (PFact o fa) => htr_access o fa
  | HItem PTau => HTau
  | HSendI c => HSend c
  | HRecvI c => HRecv c
  end.

(* as [consistent]; in addition a thread only hands over a token it holds in write mode *)
Fixpoint h_consistent (hpay : nat -> alock) (h : list (alock * mode)) (p : list hitem) : bool :=
  match p with
  | [] => true
  | i :: p' =>
      match i with
      | HItem (PFact o fa) => held_covers h (tr_held o (f_held fa))
      | HSendI c => holds_w alock alock_eqb h (hpay c)
      | _ => true
      end && h_consistent hpay (h_held_after alock aloc nat alock_eqb hpay h (tr_hitem i)) p'
  end.

Definition tr_hthread (p : list hitem) : hthread alock aloc nat := mkHThread (map tr_hitem p) [].
Definition tr_hstate (progs : list (list hitem)) : hstate alock aloc nat := mkHState (map tr_hthread progs) [].

Definition hprog_facts (p : list hitem) : list fact :=
  flat_map (fun i => match i with HItem (PFact _ fa) => [fa] | _ => [] end) p.

(* a boolean form of the hypotheses of the HB bridge theorem, for concrete programs *)
Definition hprogs_ok (lk : glookup) (hpay : nat -> alock) (progs : list (list hitem)) : bool :=
  forallb (fun p => h_consistent hpay [] p && forallb (bridged lk) (hprog_facts p)) progs.
