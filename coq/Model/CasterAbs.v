(* Counter abstraction of the ChanCaster protocol (chancaster.go) with an UNBUFFERED channel, used per its
   contract: every receiver registers with Add(+1), then either receives exactly one value from C or
   deregisters with Add(-1) (and then never receives).  Senders call Send once each.

   The state word is abstracted to (cnt, armed): cnt = hi, armed = 1 iff lo = hi + MaxInt32 (the arithmetic of
   the word itself, with its wrap-around, is Model/Caster.v; here counts are far below MaxInt32 and the only
   arithmetic panic that can matter is a decrement below zero, flagged by [bad]).

   State = pc of the one Send inside mutex.Lock()..Unlock() + a map [var -> nat] holding the shared variables,
   the number of receiver goroutines at each program point, and ghost counters + ONE individually tracked
   ("tagged") receiver, which is ALSO counted in the counters (the counter projection is exactly the untagged
   protocol; the tag only says in which counter the tagged receiver sits and what it has received).

   Sender pcs:
     SNone  no Send is inside Lock()..Unlock()
     S3     mutex.Lock(): writer announced (new RLocks block), waiting for the readers to drain
     S4     holds the write lock, about to load the word / CAS it to armed.  The load/validate/CAS loop is ONE
            step: a failed CAS has no effect and re-loads, so the last (successful) iteration is an atomic
            read-modify-write of the word; the word only changes under it by negative Adds (no ABA issue).
     S6     armed; k copies still to hand out on C (each `x.C <- value` is a rendezvous with one receive)
     S7     all copies handed out, about to load + validate the word (hi <= receivers, still armed)
     S7c    validated, about to CAS the loaded word to 0 (fails iff the word changed in between)
     S8     CAS done (or zero slow path / a panic): about to run the deferred mutex.Unlock() and return [ret]

   Receiver program points:
     a0        Add(+1) not yet called (or blocked in RLock)
     u1        holds the read lock, before the atomic add
     u2        added (registered), before RUnlock
     b0n b0o   registered and idle (may receive, may deregister); ghost split: counted by the arming of the
               running Send ("owed" a copy) or not
     got       received its value: done
     n5        deregistered with Add(-1) while armed: inside `for range delta { <-x.C }`, must absorb one copy
     fin       deregistered: done

   Shared: nsend (Sends not yet started), sq (Sends past the fast path, queued on the mutex), w / wp / r (write
   lock held / writer pending / readers), cnt, armed, k; reg0 is Send's local [receivers]; ret its return value.
   Ghost: dlv / absd (copies of the running Send taken by registered receivers / by deregistering Adds), nret
   (Sends returned through the slow path), nzero (fast-path returns), retsum (sum of returned values), bad (one
   of the code's panics would fire), stolen (a receiver not counted by the running Send took a copy).

   Executable definitions only; proofs are in Proofs/CasterAbs.v. *)
From Coq Require Import List Arith Bool.
Import ListNotations.

Inductive spc := SNone | S3 | S4 | S6 | S7 | S7c | S8.
Inductive var :=
| nsend | sq | k | w | wp | r | cnt | armed
| a0 | u1 | u2 | b0o | b0n | got | n5 | fin
| reg0 | dlv | absd | ret | nret | nzero | retsum
| bad | stolen.
Scheme Equality for var.

Definition set (x : var) (n : nat) (f : var -> nat) : var -> nat := fun y => if var_beq y x then n else f y.
Notation "f [ x := n ]" := (set x n f) (at level 10, left associativity).
Definition pos (n : nat) := negb (n =? 0).
Definition rlockable (f : var -> nat) := (f w =? 0) && (f wp =? 0).

(* ---------------------------------------------------------------------------------------------------------- *)
(* Picks                                                                                                      *)

Inductive bpick :=
| PSendStart   (* a Send is called: fast-path load; returns 0 or queues on the mutex *)
| PSendLock    (* a queued Send wins the writer side of the mutex and announces itself *)
| PS           (* next step of the Send inside Lock()..Unlock() *)
| PU0          (* Add(+1): RLock *)
| PU1          (* Add(+1): atomic add, validate *)
| PU2          (* Add(+1): deferred RUnlock, return *)
| PRecvO       (* an owed idle receiver takes a copy *)
| PRecvN       (* a not-owed idle receiver takes a copy *)
| PAbsorb      (* an Add(-1) that saw the armed word takes a copy *)
| PDeregO      (* an owed idle receiver calls Add(-1): atomic subtract, validate, look at lo *)
| PDeregN.     (* a not-owed idle receiver calls Add(-1) *)

(* the same receiver steps taken by the tagged receiver *)
Inductive tpick := TU0 | TU1 | TU2 | TRecv | TDereg | TAbsorb.

Inductive pick := PB (b : bpick) | PT (t : tpick).
Coercion PB : bpick >-> pick.

Definition all_bpicks : list bpick :=
  [PSendStart; PSendLock; PS; PU0; PU1; PU2; PRecvO; PRecvN; PAbsorb; PDeregO; PDeregN].
Definition all_tpicks : list tpick := [TU0; TU1; TU2; TRecv; TDereg; TAbsorb].
Definition all_picks : list pick := map PB all_bpicks ++ map PT all_tpicks.

(* ---------------------------------------------------------------------------------------------------------- *)
(* Protocol variants (for mutation sensitivity); [good] is the code as written                               *)

Record flags := {
  fl_absorb : bool;  (* a negative Add that sees the armed word receives [delta] copies itself *)
  fl_rlock  : bool   (* a positive Add holds mutex.RLock() around its atomic add *)
}.
Definition good : flags := {| fl_absorb := true; fl_rlock := true |}.

(* ---------------------------------------------------------------------------------------------------------- *)
(* Counter-level transition function, with an effect label for the tag bookkeeping                           *)

Inductive eff :=
| ENone
| EArm      (* the Send armed the word: every registered idle receiver is now owed a copy *)
| EZero     (* the Send found the word 0 on the slow path *)
| EUnlock.  (* the Send unlocked and returned *)

Definition cres := (eff * spc * (var -> nat))%type.
Definition mk (e : eff) (p : spc) (f : var -> nat) : cres := (e, p, f).

(* Add(-1) by a receiver at idle point [x] (b0o or b0n): the atomic subtract happens first; then validation
   (a count that was 0 is the `maxReceivers-receivers >= delta` panic); then the switch on lo. *)
Definition dereg (fl : flags) (c : spc) (f : var -> nat) (x : var) : option cres :=
  if pos (f x) then
    let g := f [x := f x - 1] [bad := if f cnt =? 0 then 1 else f bad] [cnt := f cnt - 1] in
    if f armed =? 0 then Some (mk ENone c (g [fin := S (f fin)]))
    else if fl_absorb fl then Some (mk ENone c (g [n5 := S (f n5)]))
    else Some (mk ENone c (g [fin := S (f fin)]))
  else None.

Definition cstep (fl : flags) (c : spc) (f : var -> nat) (p : bpick) : option cres :=
  match p with
  | PSendStart =>
      if pos (f nsend) then
        if (f cnt =? 0) && (f armed =? 0)
        then Some (mk ENone c (f [nsend := f nsend - 1] [nzero := S (f nzero)]))      (* state == 0: return 0 *)
        else Some (mk ENone c (f [nsend := f nsend - 1] [sq := S (f sq)]))
      else None
  | PSendLock =>
      match c with
      | SNone => if pos (f sq) then Some (mk ENone S3 (f [sq := f sq - 1] [wp := 1])) else None
      | _ => None
      end
  | PS =>
      match c with
      | SNone => None
      | S3 => if f r =? 0 then Some (mk ENone S4 (f [w := 1] [wp := 0])) else None
      | S4 =>
          if (f cnt =? 0) && (f armed =? 0)
          then Some (mk EZero S8 (f [ret := 0] [reg0 := 0] [dlv := 0] [absd := 0]))   (* slow-path return 0 *)
          else if f armed =? 0
          then Some (mk EArm S6 (f [armed := 1] [k := f cnt] [reg0 := f cnt] [dlv := 0] [absd := 0]
                                   [b0o := f b0o + f b0n] [b0n := 0]))
          else Some (mk ENone S8 (f [bad := 1]))                                       (* tracker != receivers *)
      | S6 => if f k =? 0 then Some (mk ENone S7 f) else None
      | S7 =>
          if (f cnt <=? f reg0) && (f armed =? 1)
          then Some (mk ENone S7c (f [ret := f cnt]))
          else Some (mk ENone S8 (f [bad := 1]))
      | S7c =>
          if (f cnt =? f ret) && (f armed =? 1)
          then Some (mk ENone S8 (f [cnt := 0] [armed := 0]))
          else Some (mk ENone S8 (f [bad := 1]))                                       (* CAS to 0 failed *)
      | S8 => Some (mk EUnlock SNone (f [w := 0] [nret := S (f nret)] [retsum := f retsum + f ret]))
      end
  | PU0 =>
      if fl_rlock fl then
        if pos (f a0) && rlockable f
        then Some (mk ENone c (f [a0 := f a0 - 1] [u1 := S (f u1)] [r := S (f r)])) else None
      else
        if pos (f a0) then Some (mk ENone c (f [a0 := f a0 - 1] [u1 := S (f u1)])) else None
  | PU1 =>
      if pos (f u1) then
        if f armed =? 0 then
          if fl_rlock fl
          then Some (mk ENone c (f [u1 := f u1 - 1] [cnt := S (f cnt)] [u2 := S (f u2)]))
          else Some (mk ENone c (f [u1 := f u1 - 1] [cnt := S (f cnt)] [b0n := S (f b0n)]))
        else (* receivers != tracker with delta != 0: the Add panics (after having added) *)
          Some (mk ENone c (f [u1 := f u1 - 1] [cnt := S (f cnt)] [fin := S (f fin)] [bad := 1]
                              [r := if fl_rlock fl then f r - 1 else f r]))
      else None
  | PU2 => if pos (f u2) then Some (mk ENone c (f [u2 := f u2 - 1] [r := f r - 1] [b0n := S (f b0n)])) else None
  | PRecvO =>
      match c with
      | S6 => if pos (f k) && pos (f b0o)
              then Some (mk ENone S6 (f [b0o := f b0o - 1] [got := S (f got)] [k := f k - 1] [dlv := S (f dlv)]))
              else None
      | _ => None
      end
  | PRecvN =>
      match c with
      | S6 => if pos (f k) && pos (f b0n)
              then Some (mk ENone S6 (f [b0n := f b0n - 1] [got := S (f got)] [k := f k - 1] [dlv := S (f dlv)]
                                        [stolen := 1]))
              else None
      | _ => None
      end
  | PAbsorb =>
      match c with
      | S6 => if pos (f k) && pos (f n5)
              then Some (mk ENone S6 (f [n5 := f n5 - 1] [fin := S (f fin)] [k := f k - 1] [absd := S (f absd)]))
              else None
      | _ => None
      end
  | PDeregO => dereg fl c f b0o
  | PDeregN => dereg fl c f b0n
  end.

(* ---------------------------------------------------------------------------------------------------------- *)
(* The tagged receiver                                                                                        *)

Inductive tagpc :=
| TA0    (* counted in a0 *)
| TL1    (* counted in u1 *)
| TL2    (* counted in u2 *)
| TB0    (* counted in b0o if [tow] else in b0n *)
| TGot   (* counted in got *)
| TN5    (* counted in n5 *)
| TFin.  (* counted in fin *)

Record tagst := {
  tpc  : tagpc;
  tow  : bool;   (* ghost: it was registered and idle when the running Send armed (kept until that Send unlocks) *)
  trs  : nat;    (* ghost: values it received (as a receiver) from the running Send *)
  tas  : nat;    (* ghost: values it absorbed (inside Add(-1)) from the running Send *)
  trcv : nat;    (* ghost: values it received in total *)
  tabs : nat     (* ghost: values it absorbed in total *)
}.
Definition tag0 : tagst := {| tpc := TA0; tow := false; trs := 0; tas := 0; trcv := 0; tabs := 0 |}.
Definition with_tpc (p : tagpc) (t : tagst) : tagst :=
  {| tpc := p; tow := tow t; trs := trs t; tas := tas t; trcv := trcv t; tabs := tabs t |}.

Record st := { sp : spc; v : var -> nat; tg : tagst }.

(* how a counter-level effect moves the tagged receiver's ghost state *)
Definition tag_eff (e : eff) (t : tagst) : tagst :=
  match e with
  | ENone => t
  | EArm => {| tpc := tpc t; tow := match tpc t with TB0 => true | _ => false end;
               trs := 0; tas := 0; trcv := trcv t; tabs := tabs t |}
  | EZero => {| tpc := tpc t; tow := false; trs := 0; tas := 0; trcv := trcv t; tabs := tabs t |}
  | EUnlock => {| tpc := tpc t; tow := false; trs := trs t; tas := tas t; trcv := trcv t; tabs := tabs t |}
  end.

(* an anonymous step needs an anonymous receiver at its location *)
Definition guard (t : tagst) (f : var -> nat) (b : bpick) : bool :=
  match b, tpc t with
  | PU0, TA0 => 1 <? f a0
  | PU1, TL1 => 1 <? f u1
  | PU2, TL2 => 1 <? f u2
  | PRecvO, TB0 => if tow t then 1 <? f b0o else true
  | PDeregO, TB0 => if tow t then 1 <? f b0o else true
  | PRecvN, TB0 => if tow t then true else 1 <? f b0n
  | PDeregN, TB0 => if tow t then true else 1 <? f b0n
  | PAbsorb, TN5 => 1 <? f n5
  | _, _ => true
  end.

(* the counter-level step a tagged step performs *)
Definition base_of (t : tagst) (p : tpick) : bpick :=
  match p with
  | TU0 => PU0 | TU1 => PU1 | TU2 => PU2
  | TRecv => if tow t then PRecvO else PRecvN
  | TDereg => if tow t then PDeregO else PDeregN
  | TAbsorb => PAbsorb
  end.

(* a tagged step needs the tagged receiver at its location; it moves the tag (f is the counter map BEFORE) *)
Definition tag_pre (fl : flags) (f : var -> nat) (p : tpick) (t : tagst) : option tagst :=
  match p, tpc t with
  | TU0, TA0 => Some (with_tpc TL1 t)
  | TU1, TL1 => Some (with_tpc (if f armed =? 0 then (if fl_rlock fl then TL2 else TB0) else TFin) t)
  | TU2, TL2 => Some (with_tpc TB0 t)
  | TRecv, TB0 => Some {| tpc := TGot; tow := tow t; trs := S (trs t); tas := tas t; trcv := S (trcv t); tabs := tabs t |}
  | TDereg, TB0 => Some (with_tpc (if f armed =? 0 then TFin else if fl_absorb fl then TN5 else TFin) t)
  | TAbsorb, TN5 => Some {| tpc := TFin; tow := tow t; trs := trs t; tas := S (tas t); trcv := trcv t; tabs := S (tabs t) |}
  | _, _ => None
  end.

(* ---------------------------------------------------------------------------------------------------------- *)
(* The transition function                                                                                    *)

Definition lift (fl : flags) (s : st) (b : bpick) (t : tagst) : option st :=
  match cstep fl (sp s) (v s) b with
  | Some (e, c', f') => Some {| sp := c'; v := f'; tg := tag_eff e t |}
  | None => None
  end.

Definition step_gen (fl : flags) (s : st) (p : pick) : option st :=
  match p with
  | PB b => if guard (tg s) (v s) b then lift fl s b (tg s) else None
  | PT t => match tag_pre fl (v s) t (tg s) with
            | Some t1 => lift fl s (base_of (tg s) t) t1
            | None => None
            end
  end.

Definition step : st -> pick -> option st := step_gen good.

(* [receivers] anonymous receivers plus the tagged one *)
Definition init (senders receivers : nat) : st :=
  {| sp := SNone; v := fun x => match x with nsend => senders | a0 => S receivers | _ => 0 end; tg := tag0 |}.

(* A schedule is a list of picks; a pick that is not enabled is a stutter. *)
Fixpoint run_gen (fl : flags) (s : st) (sched : list pick) : st :=
  match sched with
  | [] => s
  | p :: rest => run_gen fl (match step_gen fl s p with Some s' => s' | None => s end) rest
  end.
Definition run : st -> list pick -> st := run_gen good.

Definition terminalb_gen (fl : flags) (s : st) : bool :=
  forallb (fun p => match step_gen fl s p with Some _ => false | None => true end) all_picks.
Definition terminalb : st -> bool := terminalb_gen good.

(* Deregistering is an idle receiver's free choice, not an obligation: a state is quiescent when nothing is
   enabled except such voluntary deregistrations.  (A terminal state is one without idle receivers.) *)
Definition voluntary (p : pick) : bool :=
  match p with PB PDeregO | PB PDeregN | PT TDereg => true | _ => false end.
Definition quiescentb_gen (fl : flags) (s : st) : bool :=
  forallb (fun p => voluntary p || match step_gen fl s p with Some _ => false | None => true end) all_picks.
Definition quiescentb : st -> bool := quiescentb_gen good.
