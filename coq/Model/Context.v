(* Model of context.go (ConflatedContext, ChainAfterFunc, CombineContext) on top of a model of the std `context`
   package (DESIGN 3.4), written once:
     - a forest of context nodes; a node knows its cancellation ancestors (itself first), whether it is cancelled, and
       the key/value pairs visible through Value (contexts are immutable, so a child's view is fixed at creation:
       the parent's view, plus its own pair);
     - `cancel n` marks n and every descendant of n in ONE atomic step and fires every pending AfterFunc registration
       on a node that became cancelled;
     - `AfterFunc(c, f)` creates a registration: Pending, or (c already cancelled) fired at once;
     - a fired registration is a goroutine of its own, `Run f`, which takes its steps at arbitrary later points;
     - `stop()` atomically moves Pending -> Stopped and returns true, else returns false;
     - `WithoutCancel` keeps the values and drops the ancestors.
   The three library functions are small program-counter machines over these primitives, one step per std call /
   per sync.WaitGroup call, so that every interleaving with cancellations and hook goroutines is a schedule.
   Executable definitions only; proofs are in Proofs/Context.v. *)
From Coq Require Import List Arith Bool.
Import ListNotations.

(* ------------------------------------------------------------------------------------------------------------ *)
(* std context                                                                                                  *)
(* ------------------------------------------------------------------------------------------------------------ *)
Record node := { anc : list nat; canc : bool; vals : list (nat * nat) }.

(* what a callback does *)
Inductive act :=
| ACall                 (* the user's f of ChainAfterFunc: counted in `calls` *)
| ACancel (n : nat)     (* a CancelFunc of node n *)
| AWgDone.              (* wg.Done *)

Inductive fn :=
| FAct (a : act)
| FChain (consult : bool) (r : nat) (a : act)   (* func() { if stop_r() { a() } }   (consult = false: DEFECT, a() regardless) *)
| FStopAll (rs : list nat).                     (* stopCallbackSlice.Stop *)

Inductive rstate := Pending | Stopped | Run (f : fn) (* fired; f is what its goroutine still has to do *) | Done.

Record reg := { rnode : nat; rfn : fn; rst : rstate }.

Record world := { nodes : list node; regs : list reg;
                  calls : nat;       (* number of times the user's f ran *)
                  wg : nat;          (* sync.WaitGroup counter *)
                  wgneg : bool }.    (* wg.Done at 0: Go panics "sync: negative WaitGroup counter" *)

Definition init_world (ns : list node) : world := {| nodes := ns; regs := []; calls := 0; wg := 0; wgneg := false |}.

Fixpoint updf {A : Type} (l : list A) (i : nat) (f : A -> A) : list A :=
  match l, i with
  | [], _ => []
  | x :: t, 0 => f x :: t
  | x :: t, S j => x :: updf t j f
  end.

Definition memb (n : nat) (l : list nat) : bool := existsb (Nat.eqb n) l.

Definition is_canc (ns : list node) (n : nat) : bool :=
  match nth_error ns n with Some x => canc x | None => false end.
Definition anc_of (ns : list node) (n : nat) : list nat :=
  match nth_error ns n with Some x => anc x | None => [] end.
Definition vals_of (ns : list node) (n : nat) : list (nat * nat) :=
  match nth_error ns n with Some x => vals x | None => [] end.

Fixpoint lookup (kv : list (nat * nat)) (k : nat) : option nat :=
  match kv with
  | [] => None
  | (k', v) :: t => if k =? k' then Some v else lookup t k
  end.

Definition mark (n : nat) (x : node) : node :=
  if memb n (anc x) then {| anc := anc x; canc := true; vals := vals x |} else x.

Definition set_rst (r : reg) (s : rstate) : reg := {| rnode := rnode r; rfn := rfn r; rst := s |}.

Definition fire (ns : list node) (r : reg) : reg :=
  match rst r with
  | Pending => if is_canc ns (rnode r) then set_rst r (Run (rfn r)) else r
  | _ => r
  end.

Definition w_cancel (w : world) (n : nat) : world :=
  let ns := map (mark n) (nodes w) in
  {| nodes := ns; regs := map (fire ns) (regs w); calls := calls w; wg := wg w; wgneg := wgneg w |}.

Definition w_addnode (w : world) (x : node) : world :=
  {| nodes := nodes w ++ [x]; regs := regs w; calls := calls w; wg := wg w; wgneg := wgneg w |}.

(* context.WithCancel(p) (also: any cancellable child).  A child of a cancelled parent is born cancelled. *)
Definition w_child (w : world) (p : nat) : world :=
  w_addnode w {| anc := length (nodes w) :: anc_of (nodes w) p; canc := is_canc (nodes w) p; vals := vals_of (nodes w) p |}.

(* context.WithoutCancel(p); with None: context.Background() *)
Definition w_detached (w : world) (p : option nat) : world :=
  w_addnode w {| anc := [length (nodes w)]; canc := false;
                 vals := match p with Some p => vals_of (nodes w) p | None => [] end |}.

(* context.AfterFunc(n, f); the new registration's id is length (regs w) *)
Definition w_afterfunc (w : world) (n : nat) (f : fn) : world :=
  {| nodes := nodes w;
     regs := regs w ++ [{| rnode := n; rfn := f; rst := if is_canc (nodes w) n then Run f else Pending |}];
     calls := calls w; wg := wg w; wgneg := wgneg w |}.

Definition w_setregs (w : world) (rs : list reg) : world :=
  {| nodes := nodes w; regs := rs; calls := calls w; wg := wg w; wgneg := wgneg w |}.

Definition w_setrst (w : world) (r : nat) (s : rstate) : world :=
  w_setregs w (updf (regs w) r (fun x => set_rst x s)).

Definition is_pending (w : world) (r : nat) : bool :=
  match nth_error (regs w) r with
  | Some x => match rst x with Pending => true | _ => false end
  | None => false
  end.

(* stop_r() *)
Definition w_stop (w : world) (r : nat) : world * bool :=
  if is_pending w r then (w_setrst w r Stopped, true) else (w, false).

Definition w_act (w : world) (a : act) : world :=
  match a with
  | ACall => {| nodes := nodes w; regs := regs w; calls := S (calls w); wg := wg w; wgneg := wgneg w |}
  | ACancel n => w_cancel w n
  | AWgDone => match wg w with
               | 0 => {| nodes := nodes w; regs := regs w; calls := calls w; wg := 0; wgneg := true |}
               | S k => {| nodes := nodes w; regs := regs w; calls := calls w; wg := k; wgneg := wgneg w |}
               end
  end.

Definition w_wgadd (w : world) : world :=
  {| nodes := nodes w; regs := regs w; calls := calls w; wg := S (wg w); wgneg := wgneg w |}.

(* one step of the goroutine of fired registration r *)
Definition w_hook (w : world) (r : nat) : option world :=
  match nth_error (regs w) r with
  | Some x =>
      match rst x with
      | Run (FAct a) => Some (w_setrst (w_act w a) r Done)
      | Run (FChain c r0 a) =>
          let '(w1, ok) := w_stop w r0 in
          Some (w_setrst w1 r (if ok || negb c then Run (FAct a) else Done))
      | Run (FStopAll []) => Some (w_setrst w r Done)
      | Run (FStopAll (r0 :: rs)) => Some (w_setrst (fst (w_stop w r0)) r (Run (FStopAll rs)))
      | _ => None
      end
  | None => None
  end.

Definition running (r : reg) : bool := match rst r with Run _ => true | _ => false end.
Definition no_running (w : world) : bool := forallb (fun r => negb (running r)) (regs w).

(* schedule labels: which thread takes its next step *)
Inductive lbl :=
| LMain              (* the goroutine executing the library function *)
| LHook (r : nat)    (* the goroutine of fired registration r *)
| LCancel (n : nat)  (* environment: the owner of input context n cancels it (n < number of input nodes) *)
| LUser              (* environment: the caller invokes the CancelFunc returned by ConflatedContext *)
| LWaiter.           (* ConflatedContext's waiter goroutine *)

Section Run.
  Context {T : Type} (step : T -> lbl -> option T).
  Definition step_or_stutter (s : T) (l : lbl) : T := match step s l with Some s' => s' | None => s end.
  Fixpoint run (s : T) (sched : list lbl) : T :=
    match sched with
    | [] => s
    | l :: t => run (step_or_stutter s l) t
    end.
  (* run every enabled non-environment thread until none is enabled (quiescence), first candidate first *)
  Fixpoint first_enabled (s : T) (cands : list lbl) : option T :=
    match cands with
    | [] => None
    | l :: t => match step s l with Some s' => Some s' | None => first_enabled s t end
    end.
  Fixpoint settle (cands : T -> list lbl) (fuel : nat) (s : T) : T :=
    match fuel with
    | 0 => s
    | S k => match first_enabled s (cands s) with Some s' => settle cands k s' | None => s end
    end.
End Run.

Definition internal_lbls (w : world) : list lbl := LMain :: LWaiter :: map LHook (seq 0 (length (regs w))).

(* ------------------------------------------------------------------------------------------------------------ *)
(* ChainAfterFunc(ctx, other, f)                                         context.go:100-111                     *)
(* ------------------------------------------------------------------------------------------------------------ *)
Record cst := { cw : world; cpc : nat }.

Definition chain_init (ns : list node) : cst := {| cw := init_world ns; cpc := 0 |}.

Definition chain_step (consult : bool) (cx other : nat) (nenv : nat) (s : cst) (l : lbl) : option cst :=
  match l with
  | LMain =>
      match cpc s with
      | 0 => Some {| cw := w_afterfunc (cw s) other (FAct ACall); cpc := 1 |}                     (* stop := AfterFunc(other, f) *)
      | 1 => Some {| cw := w_afterfunc (cw s) cx (FChain consult 0 ACall); cpc := 2 |}            (* AfterFunc(ctx, func(){...}) *)
      | _ => None
      end
  | LHook r => match w_hook (cw s) r with Some w' => Some {| cw := w'; cpc := cpc s |} | None => None end
  | LCancel n => if n <? nenv then Some {| cw := w_cancel (cw s) n; cpc := cpc s |} else None
  | _ => None
  end.

Definition chain_quiescent (s : cst) : bool := (cpc s =? 2) && no_running (cw s).

(* ------------------------------------------------------------------------------------------------------------ *)
(* CombineContext(ctx, others...)                                        context.go:120-162                     *)
(* ------------------------------------------------------------------------------------------------------------ *)
Inductive bpc :=
| BStart                  (* 121-125 *)
| BCheck (i n : nat)      (* 129-138, about to look at others[i]; n non-nil so far *)
| BEarlyNew               (* 132 *)
| BEarlyCancel            (* 133 *)
| BNew                    (* 147 *)
| BReg (i : nat)          (* 150-154 *)
| BStop                   (* 157 *)
| BRetP (r : nat)         (* 124 / 140: returned the (effective) primary itself *)
| BRetE (r : nat)         (* 134: returned a fresh, already cancelled child *)
| BRetN (r : nat).        (* 161: returned the wired-up child *)

Record bst := { bw : world; bpcv : bpc; bP : nat; bR : nat; bstops : list nat }.

Definition combine_init (ns : list node) : bst :=
  {| bw := init_world ns; bpcv := BStart; bP := 0; bR := 0; bstops := [] |}.

Definition bset (s : bst) (w : world) (p : bpc) : bst :=
  {| bw := w; bpcv := p; bP := bP s; bR := bR s; bstops := bstops s |}.

Definition combine_main (regstop : bool) (primary : option nat) (others : list (option nat)) (s : bst) : option bst :=
  let w := bw s in
  match bpcv s with
  | BStart =>
      match primary with
      | None => Some {| bw := w_detached w None; bpcv := BCheck 0 0; bP := length (nodes w); bR := bR s; bstops := [] |}
      | Some p => if is_canc (nodes w) p then Some (bset s w (BRetP p))
                  else Some {| bw := w; bpcv := BCheck 0 0; bP := p; bR := bR s; bstops := [] |}
      end
  | BCheck i n =>
      match nth_error others i with
      | Some None => Some (bset s w (BCheck (S i) n))
      | Some (Some o) => if is_canc (nodes w) o then Some (bset s w BEarlyNew) else Some (bset s w (BCheck (S i) (S n)))
      | None => if n =? 0 then Some (bset s w (BRetP (bP s))) else Some (bset s w BNew)
      end
  | BEarlyNew =>
      Some {| bw := w_child w (bP s); bpcv := BEarlyCancel; bP := bP s; bR := length (nodes w); bstops := bstops s |}
  | BEarlyCancel => Some (bset s (w_cancel w (bR s)) (BRetE (bR s)))
  | BNew =>
      Some {| bw := w_child w (bP s); bpcv := BReg 0; bP := bP s; bR := length (nodes w); bstops := bstops s |}
  | BReg i =>
      match nth_error others i with
      | Some None => Some (bset s w (BReg (S i)))
      | Some (Some o) =>
          Some {| bw := w_afterfunc w o (FAct (ACancel (bR s))); bpcv := BReg (S i); bP := bP s; bR := bR s;
                  bstops := bstops s ++ [length (regs w)] |}
      | None => Some (bset s w BStop)
      end
  | BStop =>
      Some (bset s (if regstop then w_afterfunc w (bR s) (FStopAll (bstops s)) else w) (BRetN (bR s)))
  | BRetP _ | BRetE _ | BRetN _ => None
  end.

Definition combine_step (regstop : bool) (primary : option nat) (others : list (option nat)) (nenv : nat)
                        (s : bst) (l : lbl) : option bst :=
  match l with
  | LMain => combine_main regstop primary others s
  | LHook r => match w_hook (bw s) r with Some w' => Some (bset s w' (bpcv s)) | None => None end
  | LCancel n => if n <? nenv then Some (bset s (w_cancel (bw s) n) (bpcv s)) else None
  | _ => None
  end.

Definition combine_ret (s : bst) : option nat := match bpcv s with BRetP r | BRetE r | BRetN r => Some r | _ => None end.
Definition combine_quiescent (s : bst) : bool :=
  match bpcv s with BRetP _ | BRetE _ | BRetN _ => no_running (bw s) | _ => false end.

(* ------------------------------------------------------------------------------------------------------------ *)
(* ConflatedContext(contexts...)                                         context.go:45-91                       *)
(* ------------------------------------------------------------------------------------------------------------ *)
Inductive fpc :=
| F0                      (* 51: WithoutCancel(contexts[0]) *)
| F1                      (* 51: WithCancel *)
| F2                      (* 62: wg.Add(1) guard *)
| FLoop (i : nat)         (* 66-67: ctx2.Err() of contexts[i] *)
| FAdd (i : nat)          (* 70: wg.Add(1) *)
| FRegA (i : nat)         (* 101: stop := AfterFunc(other, wg.Done) *)
| FRegB (i a : nat)       (* 102: AfterFunc(ctx, ...) *)
| FEnd                    (* 77 *)
| FDefer                  (* 56: deferred cancel, success = false *)
| FDoneG                  (* 81: wg.Done of the guard *)
| FSpawn                  (* 83: go func *)
| FRet                    (* returned *)
| FPanic.                 (* 47: no contexts *)

Inductive wpc := WNone | WWait | WCancel | WExit.

Record fstate := { fw : world; fpcv : fpc; fD : nat; fR : nat; fok : bool;
                flives : list nat;    (* ghost: the inputs found live by the Err() check, in order *)
                fwait : wpc; fucancel : bool (* ghost: the returned CancelFunc has been called *) }.

Definition confl_init (ns : list node) : fstate :=
  {| fw := init_world ns; fpcv := F0; fD := 0; fR := 0; fok := false; flives := []; fwait := WNone; fucancel := false |}.

Definition fset (s : fstate) (w : world) (p : fpc) : fstate :=
  {| fw := w; fpcv := p; fD := fD s; fR := fR s; fok := fok s; flives := flives s; fwait := fwait s; fucancel := fucancel s |}.

Definition confl_main (detach consult : bool) (inputs : list nat) (s : fstate) : option fstate :=
  let w := fw s in
  match fpcv s with
  | F0 =>
      match inputs with
      | [] => Some (fset s w FPanic)
      | c0 :: _ =>
          if detach
          then Some {| fw := w_detached w (Some c0); fpcv := F1; fD := length (nodes w); fR := fR s; fok := fok s;
                       flives := flives s; fwait := fwait s; fucancel := fucancel s |}
          else Some {| fw := w; fpcv := F1; fD := c0; fR := fR s; fok := fok s;
                       flives := flives s; fwait := fwait s; fucancel := fucancel s |}
      end
  | F1 => Some {| fw := w_child w (fD s); fpcv := F2; fD := fD s; fR := length (nodes w); fok := fok s;
                  flives := flives s; fwait := fwait s; fucancel := fucancel s |}
  | F2 => Some (fset s (w_wgadd w) (FLoop 0))
  | FLoop i =>
      match nth_error inputs i with
      | Some x => if is_canc (nodes w) x then Some (fset s w (FLoop (S i)))
                  else Some {| fw := w; fpcv := FAdd i; fD := fD s; fR := fR s; fok := true;
                               flives := flives s ++ [x]; fwait := fwait s; fucancel := fucancel s |}
      | None => Some (fset s w FEnd)
      end
  | FAdd i => Some (fset s (w_wgadd w) (FRegA i))
  | FRegA i =>
      match nth_error inputs i with
      | Some x => Some (fset s (w_afterfunc w x (FAct AWgDone)) (FRegB i (length (regs w))))
      | None => None
      end
  | FRegB i a => Some (fset s (w_afterfunc w (fR s) (FChain consult a AWgDone)) (FLoop (S i)))
  | FEnd => if fok s then Some (fset s w FDoneG) else Some (fset s w FDefer)
  | FDefer => Some (fset s (w_cancel w (fR s)) FRet)
  | FDoneG => Some (fset s (w_act w AWgDone) FSpawn)
  | FSpawn => Some {| fw := w; fpcv := FRet; fD := fD s; fR := fR s; fok := fok s;
                      flives := flives s; fwait := WWait; fucancel := fucancel s |}
  | FRet => None
  | FPanic => None
  end.

Definition confl_step (detach consult : bool) (inputs : list nat) (nenv : nat) (s : fstate) (l : lbl) : option fstate :=
  match l with
  | LMain => confl_main detach consult inputs s
  | LHook r => match w_hook (fw s) r with Some w' => Some (fset s w' (fpcv s)) | None => None end
  | LCancel n => if n <? nenv then Some (fset s (w_cancel (fw s) n) (fpcv s)) else None
  | LUser =>
      match fpcv s with
      | FRet => Some {| fw := w_cancel (fw s) (fR s); fpcv := FRet; fD := fD s; fR := fR s; fok := fok s;
                        flives := flives s; fwait := fwait s; fucancel := true |}
      | _ => None
      end
  | LWaiter =>
      match fwait s with
      | WWait => if wg (fw s) =? 0
                 then Some {| fw := fw s; fpcv := fpcv s; fD := fD s; fR := fR s; fok := fok s;
                              flives := flives s; fwait := WCancel; fucancel := fucancel s |}
                 else None
      | WCancel => Some {| fw := w_cancel (fw s) (fR s); fpcv := fpcv s; fD := fD s; fR := fR s; fok := fok s;
                           flives := flives s; fwait := WExit; fucancel := fucancel s |}
      | _ => None
      end
  end.

Definition waiter_idle (s : fstate) : bool :=
  match fwait s with
  | WNone | WExit => true
  | WWait => negb (wg (fw s) =? 0)
  | WCancel => false
  end.
Definition confl_quiescent (s : fstate) : bool :=
  match fpcv s with FRet => no_running (fw s) && waiter_idle s | _ => false end.

(* ------------------------------------------------------------------------------------------------------------ *)
(* building an input forest (for the checker and the examples)                                                  *)
(* ------------------------------------------------------------------------------------------------------------ *)
Record envnode := { eparent : option nat; ekv : option (nat * nat) }.

Definition add_env (ns : list node) (e : envnode) : list node :=
  let id := length ns in
  let kv := match ekv e with Some p => [p] | None => [] end in
  match eparent e with
  | Some p => ns ++ [{| anc := id :: anc_of ns p; canc := false; vals := kv ++ vals_of ns p |}]
  | None => ns ++ [{| anc := [id]; canc := false; vals := kv |}]
  end.

Definition build_env (es : list envnode) (pre : list nat) : list node :=
  fold_left (fun ns n => map (mark n) ns) pre (fold_left add_env es []).

(* quiescent drivers used by the checker: after every operation run all enabled library/hook goroutines to completion *)
Definition chain_settle consult cx other nenv fuel (s : cst) : cst :=
  settle (chain_step consult cx other nenv) (fun s => internal_lbls (cw s)) fuel s.
Definition combine_settle regstop primary others nenv fuel (s : bst) : bst :=
  settle (combine_step regstop primary others nenv) (fun s => internal_lbls (bw s)) fuel s.
Definition confl_settle detach consult inputs nenv fuel (s : fstate) : fstate :=
  settle (confl_step detach consult inputs nenv) (fun s => internal_lbls (fw s)) fuel s.
