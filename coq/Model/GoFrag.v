(* A deep embedding of the small, loop-structured, integer fragment of Go in which the cleaner functions of bigbuff.go are
   written, with an executable big-step interpreter.  harness/cmd/gotr prints the functions of /repo's CURRENT source as
   terms of [fundef] (coq/Gen/ImplCleaners.v, regenerated on every run); Proofs/CleanerGen.v proves that they compute the
   hand-written model functions of Model/Cleaner.v for every input.

   Fragment: int (unbounded Z - no property here is about overflow), bool, []int, a possibly-nil function value that is only
   called for effect; := / = / op= assignment, if/else, `for _, x := range xs`, return, continue, break, calls of previously
   translated functions.  Scoping is resolved by the translator (every declaration gets its own name), so the
   environment is flat.  Anything outside the fragment makes the translator fail, never this interpreter guess. *)
From Coq Require Import List ZArith Bool String.
Import ListNotations.
Local Open Scope string_scope.
Local Open Scope Z_scope.

Inductive val :=
| VInt (z : Z)
| VBool (b : bool)
| VList (l : list Z)
| VFunc (nonnil : bool).      (* a function value: only its nil-ness is observable here *)

Inductive binop := BAdd | BSub | BMul | BLt | BLe | BGt | BGe | BEq | BNe | BAnd | BOr | BMin | BMax.   (* BMin/BMax: the builtins min, max *)

Inductive expr :=
| EVar (x : string)
| EInt (z : Z)
| EBool (b : bool)
| ENil
| EBin (op : binop) (a b : expr)
| ENot (a : expr)
| ENeg (a : expr)
| ELen (a : expr)
| ECall (f : string) (args : list expr).

Inductive stmt :=
| SSkip
| SAssign (x : string) (e : expr)
| SSeq (a b : stmt)
| SIf (c : expr) (t e : stmt)
| SRange (x : string) (xs : expr) (body : stmt)     (* for _, x := range xs { body } *)
| SReturn (e : expr)
| SContinue
| SBreak
| SEffect (f : string).                             (* f(pure arguments), results discarded; f must be a non-nil func *)

Record fundef := { fname : string; params : list string; body : stmt }.

Definition env := list (string * val).

Fixpoint lookup (x : string) (e : env) : option val :=
  match e with
  | [] => None
  | (y, v) :: e' => if String.eqb y x then Some v else lookup x e'
  end.

Definition set (x : string) (v : val) (e : env) : env := (x, v) :: e.

(* previously translated functions, as Gallina functions on values *)
Definition fenv := list (string * (list val -> option val)).

Fixpoint flookup (f : string) (fe : fenv) : option (list val -> option val) :=
  match fe with
  | [] => None
  | (g, h) :: fe' => if String.eqb g f then Some h else flookup f fe'
  end.

Definition eval_bin (op : binop) (a b : val) : option val :=
  match op, a, b with
  | BAdd, VInt x, VInt y => Some (VInt (x + y))
  | BSub, VInt x, VInt y => Some (VInt (x - y))
  | BMul, VInt x, VInt y => Some (VInt (x * y))
  | BMin, VInt x, VInt y => Some (VInt (Z.min x y))
  | BMax, VInt x, VInt y => Some (VInt (Z.max x y))
  | BLt, VInt x, VInt y => Some (VBool (x <? y))
  | BLe, VInt x, VInt y => Some (VBool (x <=? y))
  | BGt, VInt x, VInt y => Some (VBool (x >? y))
  | BGe, VInt x, VInt y => Some (VBool (x >=? y))
  | BEq, VInt x, VInt y => Some (VBool (x =? y))
  | BNe, VInt x, VInt y => Some (VBool (negb (x =? y)))
  | BEq, VBool x, VBool y => Some (VBool (Bool.eqb x y))
  | BNe, VBool x, VBool y => Some (VBool (negb (Bool.eqb x y)))
  | _, _, _ => None
  end.

Section Eval.
Variable fe : fenv.

Fixpoint eval (e : env) (x : expr) : option val :=
  match x with
  | EVar v => lookup v e
  | EInt z => Some (VInt z)
  | EBool b => Some (VBool b)
  | ENil => Some (VFunc false)
  | EBin BAnd a b =>                                   (* short circuit *)
      match eval e a with
      | Some (VBool false) => Some (VBool false)
      | Some (VBool true) => match eval e b with Some (VBool r) => Some (VBool r) | _ => None end
      | _ => None
      end
  | EBin BOr a b =>
      match eval e a with
      | Some (VBool true) => Some (VBool true)
      | Some (VBool false) => match eval e b with Some (VBool r) => Some (VBool r) | _ => None end
      | _ => None
      end
  | EBin BEq a ENil => match eval e a with Some (VFunc n) => Some (VBool (negb n)) | _ => None end
  | EBin BNe a ENil => match eval e a with Some (VFunc n) => Some (VBool n) | _ => None end
  | EBin op a b =>
      match eval e a, eval e b with
      | Some va, Some vb => eval_bin op va vb
      | _, _ => None
      end
  | ENot a => match eval e a with Some (VBool b) => Some (VBool (negb b)) | _ => None end
  | ENeg a => match eval e a with Some (VInt z) => Some (VInt (- z)) | _ => None end
  | ELen a => match eval e a with Some (VList l) => Some (VInt (Z.of_nat (List.length l))) | _ => None end
  | ECall f args =>
      match flookup f fe with
      | Some h =>
          (fix evs (l : list expr) (acc : list val) : option val :=
             match l with
             | [] => h (rev acc)
             | a :: l' => match eval e a with Some v => evs l' (v :: acc) | None => None end
             end) args []
      | None => None
      end
  end.

Inductive outcome :=
| ONormal (e : env)
| OContinue (e : env)
| OBreak (e : env)
| OReturn (v : val)
| OError.

Fixpoint exec (s : stmt) (e : env) : outcome :=
  match s with
  | SSkip => ONormal e
  | SAssign x a => match eval e a with Some v => ONormal (set x v e) | None => OError end
  | SSeq a b => match exec a e with ONormal e' => exec b e' | r => r end
  | SIf c t f =>
      match eval e c with
      | Some (VBool true) => exec t e
      | Some (VBool false) => exec f e
      | _ => OError
      end
  | SRange x xs b =>
      match eval e xs with
      | Some (VList l) =>
          (fix loop (l : list Z) (e : env) : outcome :=
             match l with
             | [] => ONormal e
             | v :: l' =>
                 match exec b (set x (VInt v) e) with
                 | ONormal e' | OContinue e' => loop l' e'
                 | OBreak e' => ONormal e'
                 | r => r
                 end
             end) l e
      | _ => OError
      end
  | SReturn a => match eval e a with Some v => OReturn v | None => OError end
  | SContinue => OContinue e
  | SBreak => OBreak e
  | SEffect f => match lookup f e with Some (VFunc true) => ONormal e | _ => OError end
  end.

(* the loop of SRange, named so that proofs can state invariants about it *)
Fixpoint range_loop (x : string) (b : stmt) (l : list Z) (e : env) : outcome :=
  match l with
  | [] => ONormal e
  | v :: l' =>
      match exec b (set x (VInt v) e) with
      | ONormal e' | OContinue e' => range_loop x b l' e'
      | OBreak e' => ONormal e'
      | r => r
      end
  end.

Fixpoint bind_params (ps : list string) (vs : list val) : option env :=
  match ps, vs with
  | [], [] => Some []
  | p :: ps', v :: vs' => match bind_params ps' vs' with Some e => Some ((p, v) :: e) | None => None end
  | _, _ => None
  end.

(* a call: every path of a translated function ends in a return *)
Definition call (f : fundef) (args : list val) : option val :=
  match bind_params (params f) args with
  | Some e => match exec (body f) e with OReturn v => Some v | _ => None end
  | None => None
  end.

End Eval.
