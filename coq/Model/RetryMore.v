(* Additions to Model/Retry.v (nothing there is changed; this file is not extracted).  Executable definitions only;
   proofs are in Proofs/RetryMore.v.

   1. Errors with NON-fatal wrappers.  Model/Retry.v's [err] can only nest fatalError directly inside fatalError.  Real
      Go errors can also wrap with something else (fmt.Errorf("...: %w", inner), any type with Unwrap): [werr] adds
      that constructor.  [wunpack] / [wis_fatal] are bigbuff.go:375-387 as coded: a type switch / type assertion on the
      value itself - they do NOT follow Unwrap - so wunpack strips the CONSECUTIVE fatalError layers at the head and
      stops at the first value of any other type.  fatalError has no Unwrap method (bigbuff.go:219-221, 371-373), so
      errors.As / errors.Is walk a chain through WWrap and stop AT a fatalError: [has_fatal] is
      `errors.As(e, new(fatalError))`, "a fatal wrapper at some depth".
   2. The closure of ExponentialRetry (retry.go:60-76) once more, generic in the error type: [loopG] takes
      isFatalError / unpackFatalError as parameters.  It is [loop faithful] of Model/Retry.v when instantiated with
      [err], [is_fatal], [unpack] (Proofs/RetryMore.v: loopG_is_loop), and [wrun] when instantiated with [werr].
   3. waitDuration (retry.go:79-89) in discrete time: [first_return] is the first instant at which the select of
      [wait_returns] (Model/Retry.v) can return, given when the context is done and when the timer has fired. *)
From Coq Require Import List ZArith Bool Arith.
From BB Require Import Model.Retry.
Import ListNotations.
Open Scope Z_scope.

(* ---- 1. errors ---- *)
Inductive werr :=
| WBase (id : Z)           (* an error that wraps nothing *)
| WFatal (inner : werr)    (* fatalError{err: inner} = FatalError(inner) *)
| WWrap (inner : werr).    (* any other wrapping error: Unwrap() = inner *)

(* bigbuff.go:375-382 *)
Fixpoint wunpack (e : werr) : werr :=
  match e with
  | WFatal inner => wunpack inner
  | _ => e
  end.

(* bigbuff.go:384-387 *)
Definition wis_fatal (e : werr) : bool :=
  match e with WFatal _ => true | _ => false end.

(* errors.As(e, new(fatalError)): some value of the chain e, Unwrap(e), ... is a fatalError *)
Fixpoint has_fatal (e : werr) : bool :=
  match e with
  | WBase _ => false
  | WFatal _ => true
  | WWrap inner => has_fatal inner
  end.

(* FatalError applied `depth` times *)
Fixpoint wwrap (depth : nat) (e : werr) : werr :=
  match depth with
  | O => e
  | S d => WFatal (wwrap d e)
  end.

(* the errors of Model/Retry.v are the werr without WWrap *)
Fixpoint embed (e : err) : werr :=
  match e with
  | EBase id => WBase id
  | EFatal inner => WFatal (embed inner)
  end.

(* ---- 2. the closure, generic in the error type ---- *)
Section LoopG.
  Variable E : Type.
  Variable isf : E -> bool.     (* isFatalError *)
  Variable unp : E -> E.        (* unpackFatalError *)

  Record outcomeG := mkOG { og_res : option Z; og_err : option E }.

  Inductive rerrG :=
  | GNil | GErr (e : E) | GCtx | GExhausted | GPanic.     (* as [rerr] of Model/Retry.v *)

  Record resultG := mkRG { g_calls : nat; g_res : option Z; g_ret : rerrG; g_waits : list wait_rec }.

  Variable max_shift : Z.
  Variable calc : nat -> Z -> Z -> option Z.
  Variable cancel_at : option nat.
  Variable rate : Z.

  (* retry.go:62-75, as [loop faithful] *)
  Fixpoint loopG (script : list outcomeG) (k : nat) (c : Z) : resultG :=
    if cancelled_by cancel_at (2 * k) then mkRG 0 None GCtx []                            (* :63-65 *)
    else
      match script with
      | [] => mkRG 0 None GExhausted []
      | o :: rest =>
          let c1 := bump max_shift c in                                                  (* :66-68 *)
          match og_err o with                                                            (* :69 value() *)
          | None => mkRG 1 (og_res o) GNil []                                            (* :70 *)
          | Some e =>
              if isf e then mkRG 1 (og_res o) (GErr (unp e)) []                          (* :71-72 *)
              else
                match calc k rate c1 with                                                (* :74 *)
                | None => mkRG 1 None GPanic []
                | Some d =>
                    let w := mkW rate c1 d (cancelled_by cancel_at (2 * k + 1))
                                 (wait_how_of d (cancelled_by cancel_at (2 * k + 2))) in
                    let r := loopG rest (S k) c1 in
                    mkRG (S (g_calls r)) (g_res r) (g_ret r) (w :: g_waits r)
                end
          end
      end.
End LoopG.

Arguments mkOG {E}. Arguments og_res {E}. Arguments og_err {E}.
Arguments GNil {E}. Arguments GErr {E}. Arguments GCtx {E}. Arguments GExhausted {E}. Arguments GPanic {E}.
Arguments mkRG {E}. Arguments g_calls {E}. Arguments g_res {E}. Arguments g_ret {E}. Arguments g_waits {E}.

(* one invocation of the closure returned by ExponentialRetry, on errors that may carry non-fatal wrappers *)
Definition wrun (max_shift default_rate : Z) (rnd : nat -> Z -> Z) (cancel_at : option nat) (rate : Z)
                (script : list (outcomeG werr)) : resultG werr :=
  loopG werr wis_fatal wunpack max_shift (calc_real max_shift rnd) cancel_at (eff_rate default_rate rate) script 0 0.

(* ---- 3. waitDuration in discrete time ---- *)

(* the first instant in [now, now + fuel] at which the select can return (None: still blocked at now + fuel);
   ctx_done_at n / timer_at n: ctx.Done() is closed / timer.C holds a value at instant n *)
Fixpoint first_return (d : Z) (ctx_done_at timer_at : nat -> bool) (now fuel : nat) : option nat :=
  if wait_returns d (ctx_done_at now) (timer_at now) then Some now
  else match fuel with
       | O => None
       | S f => first_return d ctx_done_at timer_at (S now) f
       end.

(* instants are counted from the entry into waitDuration, in the unit of d: the context is cancelled at instant tc
   (None: never), the timer created with duration d fires at instant d *)
Definition ctx_done_from (tc : option nat) (n : nat) : bool :=
  match tc with Some t => Nat.leb t n | None => false end.
Definition timer_from (d : Z) (n : nat) : bool := d <=? Z.of_nat n.
