(* Helper definitions for the trace-acceptance stage C06TRACE (harness/inpkg/pubsub_trace.go, checker/ad_pubsubtrace.ml).

   The instrumented ChanPubSub announces the individual atomic operations of Send (the Load of `subscribers` and ping.Add; the
   caster's Load and CompareAndSwap), which is the granularity of Model/PubSubSplit.v, and every announcement comes with the
   goroutine that makes it, which is the granularity of Model/PubSubIdx.v (every subscriber tracked by index).  Neither model
   has both, so the two are composed here, by definition only and from their own pieces:

     shared state and sender   PubSubSplit.xstep_gen, unchanged;
     per-index bookkeeping     PubSubIdx.sub / relabel_sub / upd with PubSubTag.src / dst / is_recv, unchanged; the relabelling
                               "not owed -> owed" and the round counter move at the Load of `subscribers` (X4a), where
                               PubSubSplit takes the count (PubSubIdx, whose sender is fused, does it at S4).

   [jbase (jstep s q)] is literally [xstep (jbase s) p] for the pick p of q, and the per-index update is literally that of
   PubSubIdx.nstep; the adapter re-checks the first by applying the extracted [xstep] beside every [jstep], and [jcount_ok]
   (every per-program-point counter of the shared state = the number of indices at that program point, the CountInv of
   Proofs/PubSubIdx.v) after every step.

   Executable definitions only; nothing is proved here and no existing definition is changed. *)
From Coq Require Import List Arith Bool.
From BB.Model Require Import PubSubAbs PubSubSplit PubSubTag PubSubIdx.
Import ListNotations.

Record jst := { jbase : xst; jround : nat; jsubs : list sub }.

(* the step in which Send reads a non-zero `subscribers` (X4a -> X4b): PubSubTag.is_count at the split granularity *)
Definition jis_count (s : xst) (p : pick) : bool :=
  match p, xp s with PS, X4a => negb (xv s subs =? 0) | _, _ => false end.

Definition jstep_gen (fl : flags) (s : jst) (q : npick) : option jst :=
  match q with
  | Sender p =>
      match src p with
      | Some _ => None
      | None =>
          match xstep_gen fl (jbase s) p with
          | None => None
          | Some b' =>
              if jis_count (jbase s) p
              then Some {| jbase := b'; jround := S (jround s); jsubs := map relabel_sub (jsubs s) |}
              else Some {| jbase := b'; jround := jround s; jsubs := jsubs s |}
          end
      end
  | Sub i p =>
      match nth_error (jsubs s) i, src p with
      | Some x, Some a =>
          if var_beq (pc x) a then
            match xstep_gen fl (jbase s) p with
            | None => None
            | Some b' =>
                Some {| jbase := b'; jround := jround s;
                        jsubs := upd (jsubs s) i
                                   {| pc := dst fl (xv (jbase s)) p; cnted := cnted x;
                                      subat := match p with PU1 => jround s | _ => subat x end;
                                      slog := if is_recv p then jround s :: slog x else slog x |} |}
            end
          else None
      | _, _ => None
      end
  end.

Definition jstep : jst -> npick -> option jst := jstep_gen good_flags.

(* [senders] Send calls and [n] subscriptions, nobody subscribed yet *)
Definition jinit (senders n : nat) : jst :=
  {| jbase := xinit senders n; jround := 0; jsubs := repeat sub0 n |}.

(* the subscriber program points (the thread counters of PubSubAbs) *)
Definition thread_vars : list var :=
  [u0; u1; u2; b0o; b0n; b1; n1o; n1n; n2ko; n2kn; n3k; n2fo; n2fn; n4o; n4n; n5; fin].

Definition jat (x : var) (s : jst) : nat := length (filter (fun y => var_beq (pc y) x) (jsubs s)).

(* every counter is the number of indices at that program point *)
Definition jcount_ok (s : jst) : bool := forallb (fun x => xv (jbase s) x =? jat x s) thread_vars.

(* nothing is enabled but voluntary unsubscribes of idle subscribers, no invariant panic, no stolen copy, no Send in progress *)
Definition jrestb (s : jst) : bool :=
  xquiescentb (jbase s) && (xv (jbase s) bad =? 0) && (xv (jbase s) steal =? 0) &&
  match xp (jbase s) with XNone => true | _ => false end.

(* the pick by which a subscriber at program point [x] performs the action [a]:
   0 RLock | 1 subscribers+1 | 2 RUnlock (Add(+1)) | 3 receive | 4 Wait's decrement | 5 first TryRLock | 6 leave the spin loop
   | 7 subscribers-1 | 8 RUnlock (Add(-1)) | 9 ping.Add(-1) | 10 absorb *)
Definition pick_at (x : var) (a : nat) : option pick :=
  match a, x with
  | 0, u0 => Some PU0 | 1, u1 => Some PU1 | 2, u2 => Some PU2
  | 3, b0o => Some PRecvO | 3, b0n => Some PRecvN
  | 4, b1 => Some PWait
  | 5, b0o => Some PUnsubO | 5, b0n => Some PUnsubN
  | 6, n1o => Some PSpinO | 6, n1n => Some PSpinN
  | 7, n2ko => Some PN2KO | 7, n2kn => Some PN2KN | 7, n2fo => Some PN2FO | 7, n2fn => Some PN2FN
  | 8, n3k => Some PN3K
  | 9, n4o => Some PN4O | 9, n4n => Some PN4N
  | 10, n5 => Some PAbsorb
  | _, _ => None
  end.
