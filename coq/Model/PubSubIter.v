(* Finite-control model of ChanPubSub.SubscribeContext's unsubscribe arbitration (chanpubsub.go:105-163).

     x.Subscribe()
     stop := context.AfterFunc(ctx, x.Unsubscribe)
     return func(yield func(V) bool) {
         if yield == nil { if stop() { x.Unsubscribe() }; panic(...) }
         if !stop() { return }
         defer x.Unsubscribe()
         for { ... <-ctx.Done(): return ... <-x.broken: panic ... v := <-C; x.Wait(); if !yield(v) { return } ... }
     }

   The initial state is the one right after [context.AfterFunc] registered the callback: the subscription has been made
   (subscribers + 1) and nothing else has happened.  What is modelled is who calls x.Unsubscribe, and how often.

   Standard library facts used (context.go, afterFuncCtx): the registration holds a sync.Once.  Cancelling the context first
   publishes the cancellation (ctx.Err() set, ctx.Done() closed) and THEN cancels the children, which for the registration is
   [once.Do(func() { go f() })]; [stop()] is [once.Do(func() { stopped = true })] and returns [stopped].  So exactly one of
   {the cancellation starts the goroutine that runs f, the FIRST stop() call returns true} happens, decided atomically by the
   Once; every later stop() returns false.  A context that is already cancelled when AfterFunc is called goes through the same
   once.Do at once: in the model that is the schedule in which the canceller runs first.

   Threads (one pick each; a pick whose thread has nothing to do is disabled):
     PCancel   the canceller, two steps: CIdle -(publish: ctxd := true)-> CDone -(once.Do: start AfterFunc goroutine if the Once is
               still open)-> CFin.  Enabled only if the program cancels the context at all ([cancels]).
     PAf       the AfterFunc goroutine: ARun -(x.Unsubscribe())-> AFin.
     PIt1/PIt2 two invocations of the returned iterator function (the doc says "single-use", the code says "also used to handle
               multiple calls": both invocations may run concurrently).  What an invocation does is a program parameter [use]:
                 UNever          the iterator function is never called
                 UNil            called with a nil yield:       IIdle -> IStopNil -(stop())-> IUnsubNil -(Unsubscribe)-> IPanNil
                                                                                     or (stop() = false) -> IPanNil
                 URun e          called with a yield function:  IIdle -> IStop -(stop())-> ILoop ... or (stop() = false) -> IRet
                                 ILoop is the receive loop (the subscription is in use); the invocation leaves it -> IDefer when
                                 it observes ctx.Done() (needs ctxd) or, if [e = Some k], whenever the loop body decides to stop
                                 early: k = EBreak (yield returned false: `break` in the range-over-func body), EPanic (yield, or
                                 the broken-state check, panicked), EGoexit (runtime.Goexit inside yield), EClosed (channel
                                 closed).  All four run the deferred call: IDefer -(x.Unsubscribe())-> IFin.
   [unsubs] counts the x.Unsubscribe() calls made.

   Variants (mutation sensitivity, same step function):
     fl_consult = false   the iterator ignores the result of stop() (always enters the loop and defers Unsubscribe)
     fl_after   = false   no AfterFunc is registered (cancellation alone never unsubscribes)

   Executable definitions only; proofs are in Proofs/PubSubIter.v. *)
From Coq Require Import List Arith Bool.
Import ListNotations.

Inductive once_st := OOpen | OStopped | OFired.
Inductive cpc := CIdle | CDone | CFin.
Inductive apc := ANone | ARun | AFin.
Inductive ipc := IIdle | IStopNil | IUnsubNil | IPanNil | IStop | IRet | ILoop | IDefer | IFin.

Inductive exitk := EBreak | EPanic | EGoexit | EClosed.
Inductive use := UNever | UNil | URun (e : option exitk).

(* the program: does anybody ever cancel the context; what the two invocations of the iterator do *)
Record prog := { cancels : bool; use1 : use; use2 : use }.

Record ictl := {
  ctxd : bool;        (* ctx.Done() is closed *)
  once : once_st;     (* the Once of the AfterFunc registration *)
  cp : cpc; ap : apc; i1 : ipc; i2 : ipc
}.

Record ist := { ic : ictl; unsubs : nat }.

Record iflags := { fl_consult : bool; fl_after : bool }.
Definition good_iflags : iflags := {| fl_consult := true; fl_after := true |}.

Inductive ipick := PCancel | PAf | PIt1 | PIt2.
Definition all_ipick : list ipick := [PCancel; PAf; PIt1; PIt2].

Definition early (u : use) : bool := match u with URun (Some _) => true | _ => false end.

(* One step of an iterator invocation at pc [i]: new pc, new Once state, number of Unsubscribe calls made (0 or 1). *)
Definition it_step (fl : iflags) (u : use) (done : bool) (o : once_st) (i : ipc) : option (ipc * once_st * nat) :=
  match i with
  | IIdle => match u with UNever => None | UNil => Some (IStopNil, o, 0) | URun _ => Some (IStop, o, 0) end
  | IStopNil => match o with OOpen => Some (IUnsubNil, OStopped, 0) | _ => Some (IPanNil, o, 0) end
  | IUnsubNil => Some (IPanNil, o, 1)
  | IStop => match o with
             | OOpen => Some (ILoop, OStopped, 0)
             | _ => if fl_consult fl then Some (IRet, o, 0) else Some (ILoop, o, 0)
             end
  | ILoop => if done || early u then Some (IDefer, o, 0) else None
  | IDefer => Some (IFin, o, 1)
  | IPanNil | IRet | IFin => None
  end.

Definition istep_gen (fl : iflags) (pg : prog) (s : ist) (p : ipick) : option ist :=
  let c := ic s in
  match p with
  | PCancel =>
      match cp c with
      | CIdle => if cancels pg
                 then Some {| ic := {| ctxd := true; once := once c; cp := CDone; ap := ap c; i1 := i1 c; i2 := i2 c |};
                              unsubs := unsubs s |}
                 else None
      | CDone => match once c with
                 | OOpen => if fl_after fl
                            then Some {| ic := {| ctxd := ctxd c; once := OFired; cp := CFin; ap := ARun; i1 := i1 c; i2 := i2 c |};
                                         unsubs := unsubs s |}
                            else Some {| ic := {| ctxd := ctxd c; once := once c; cp := CFin; ap := ap c; i1 := i1 c; i2 := i2 c |};
                                         unsubs := unsubs s |}
                 | _ => Some {| ic := {| ctxd := ctxd c; once := once c; cp := CFin; ap := ap c; i1 := i1 c; i2 := i2 c |};
                                unsubs := unsubs s |}
                 end
      | CFin => None
      end
  | PAf =>
      match ap c with
      | ARun => Some {| ic := {| ctxd := ctxd c; once := once c; cp := cp c; ap := AFin; i1 := i1 c; i2 := i2 c |};
                        unsubs := S (unsubs s) |}
      | _ => None
      end
  | PIt1 =>
      match it_step fl (use1 pg) (ctxd c) (once c) (i1 c) with
      | Some (i', o', n) => Some {| ic := {| ctxd := ctxd c; once := o'; cp := cp c; ap := ap c; i1 := i'; i2 := i2 c |};
                                    unsubs := n + unsubs s |}
      | None => None
      end
  | PIt2 =>
      match it_step fl (use2 pg) (ctxd c) (once c) (i2 c) with
      | Some (i', o', n) => Some {| ic := {| ctxd := ctxd c; once := o'; cp := cp c; ap := ap c; i1 := i1 c; i2 := i'|};
                                    unsubs := n + unsubs s |}
      | None => None
      end
  end.

Definition istep : prog -> ist -> ipick -> option ist := istep_gen good_iflags.

Definition iinit : ist :=
  {| ic := {| ctxd := false; once := OOpen; cp := CIdle; ap := ANone; i1 := IIdle; i2 := IIdle |}; unsubs := 0 |}.

Fixpoint irun_gen (fl : iflags) (pg : prog) (s : ist) (sched : list ipick) : ist :=
  match sched with
  | [] => s
  | p :: rest => irun_gen fl pg (match istep_gen fl pg s p with Some s' => s' | None => s end) rest
  end.

Definition irun : prog -> ist -> list ipick -> ist := irun_gen good_iflags.

Definition iterminalb_gen (fl : iflags) (pg : prog) (s : ist) : bool :=
  forallb (fun p => match istep_gen fl pg s p with Some _ => false | None => true end) all_ipick.

Definition iterminalb : prog -> ist -> bool := iterminalb_gen good_iflags.

(* observations used in the statements *)
Definition in_loop (i : ipc) : bool := match i with ILoop => true | _ => false end.
(* the subscription is in use: an invocation is inside the receive loop *)
Definition in_use (c : ictl) : bool := in_loop (i1 c) || in_loop (i2 c).
Definition invoked_pc (i : ipc) : bool := match i with IIdle => false | _ => true end.
(* the iterator function was called at least once *)
Definition invoked (c : ictl) : bool := invoked_pc (i1 c) || invoked_pc (i2 c).
