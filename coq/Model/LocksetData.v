(* C11 — further data regenerated from the source by harness/cmd/lockx (record types), and the checks made on it
   in Coq. Executable definitions only. Imported by the generated file Gen/ImplLocksets.v.

   A. The synchronous-caller assumption. The translator analyses the function literal passed to WaitCond with the
      locks its caller holds (WaitCond calls fn on the calling goroutine; cond.Wait releases and re-acquires cond.L
      only). Instead of a verdict computed in Go the generated file carries the DATA:
        impl_sync_assumed  the (function, parameter index) pairs the translator relies on;
        impl_sync_uses     every use of that parameter inside the function, and every lock operation the function
                           performs itself outside function literals;
        impl_sync_sites    every library call site where the assumption was applied: the locks held there (relative
                           to the object owning the *sync.Cond argument) and that cond's locker, resolved from the
                           `x.cond = sync.NewCond(&x.<path>)` assignments of the package;
      and [sync_callers_ok] decides: the parameter is only called directly or nil-compared (never from a go / defer /
      literal), the function touches no lock itself, and every call site holds the cond's locker in write mode
      (WaitCond's documented precondition: "the relevant locker must be locked before this is called").

   B. Captured locals. A local variable captured by a function literal that may run on another goroutine (`go`
      literal; literal passed to context.AfterFunc, stored, returned; method value on a local slice) is a shared
      location: struct "local <declaring function>", field <variable>. [local_guard_table] lists the guards of the
      captured locals that are WRITTEN AFTER they are captured; every other captured local defaults to GImmutable
      (written only while fresh: by its declaring function, before the first capturing literal is created), so a new
      capture that is written later without an entry here fails [local_guard_ok]. Exemptions of this table name the
      function LITERAL (f_fn ++ f_lit), not only the top-level function. *)
From Coq Require Import List String Bool Arith.
From BB Require Import Model.Lockset.
Import ListNotations.
Open Scope string_scope.

Record capture := mkCapture {
  c_scope : string;     (* declaring function: "Buffer.cleanup", "Exclusive.call$1" *)
  c_var : string;
  c_how : string;       (* "go" | "escape" | "mvalue" : the first capture *)
  c_lit : string;       (* the capturing literal *)
  c_pos : string
}.

Record syncuse := mkSyncUse {
  su_fn : string; su_idx : nat; su_param : string;
  su_kind : string;     (* "call" | "nilcmp" | "go" | "defer" | "literal" | "other" | "lockop" | "missing" *)
  su_pos : string
}.

Record syncsite := mkSyncSite {
  ss_fn : string; ss_lit : string; ss_callee : string;
  ss_arg : string;            (* "literal $2" | "other" *)
  ss_cond_struct : string;    (* struct owning the *sync.Cond argument, "" if it is not a field of a library struct *)
  ss_cond_locker : string;    (* lock path of that cond's L relative to the same object; "?" unresolved *)
  ss_held : list (lockid * mode);
  ss_pos : string
}.

(* ---- A. synchronous callers ---- *)
Definition str_in (l : list string) (s : string) : bool := existsb (String.eqb s) l.

Definition sync_use_ok (u : syncuse) : bool := str_in ["call"; "nilcmp"] (su_kind u).

Definition sync_assumed_ok (uses : list syncuse) (a : string * nat) : bool :=
  existsb (fun u => String.eqb (su_fn u) (fst a) && Nat.eqb (su_idx u) (snd a) && String.eqb (su_kind u) "call") uses.

Definition sync_site_ok (assumed : list (string * nat)) (s : syncsite) : bool :=
  existsb (fun a => String.eqb (fst a) (ss_callee s)) assumed
  && negb (String.eqb (ss_cond_struct s) "") && negb (String.eqb (ss_cond_locker s) "")
  && negb (String.eqb (ss_cond_locker s) "?")
  && held_lock (ss_held s) (ss_cond_struct s) (ss_cond_locker s) true.

Definition sync_callers_ok (assumed : list (string * nat)) (uses : list syncuse) (sites : list syncsite) : bool :=
  forallb sync_use_ok uses && forallb (sync_assumed_ok uses) assumed && forallb (sync_site_ok assumed) sites.

(* ---- B. captured locals ---- *)
Definition fn_lit (fa : fact) : string := f_fn fa ++ f_lit fa.

(* [guard_sat] with exemptions compared against the function literal. *)
Fixpoint lguard_sat (g : guard) (fa : fact) : bool :=
  match g with
  | GExempt fn k _ g' => (String.eqb fn (fn_lit fa) && rw_eqb k (f_kind fa) && negb (f_atomic fa)) || lguard_sat g' fa
  | _ => guard_sat g fa
  end.

Definition is_local (s : string) : bool := String.prefix "local " s.

Definition local_guard_table : guard_tbl := [
  (* Buffer.cleanup (buffer.go): `timer` and `broadcast` are shared by the cleaner goroutine (closure `cleanup`, $1)
     and the timer goroutine it starts ($1$1, deferred part $1$1$1); both take the local `mutex`.
     The timer goroutine reads `timer` twice WITHOUT the mutex (`defer timer.Stop()` evaluates the receiver,
     `<-timer.C`): ordered after the single write `timer = time.NewTimer(d)` by the go statement that starts it; the
     only other writes are its own `timer = nil` (later in the same goroutine) and the next `timer = NewTimer`, which
     the cleaner performs only after it has seen `timer == nil` under the mutex, i.e. after this goroutine's last
     read. No race (and none reported by the race detector, scenario C11RACE). *)
  (("local Buffer.cleanup", "timer"),     GExempt "Buffer.cleanup$1$1" R ExGoOrdered (GMutex "mutex"));
  (("local Buffer.cleanup", "broadcast"), GMutex "mutex");
  (* WaitCond (sync.go): the parameter ctx is overwritten once (`ctx, cancel = context.WithCancel(ctx)`, guarded by
     `cancel == nil`, which the same statement falsifies for good) immediately before the go statement whose literal
     reads it; the write is inside the `for` loop that also contains the go statement, which is why the translator
     cannot call it fresh. Every later access, in either goroutine, is a read. *)
  (("local WaitCond", "ctx"),             GExempt "WaitCond" W ExGoOrdered GImmutable)
].

Definition local_lookup (s f : string) : option guard :=
  match lookup local_guard_table s f with
  | Some g => Some g
  | None => if is_local s then Some GImmutable else None
  end.

Definition local_guard_ok (fa : fact) : bool :=
  match local_lookup (f_struct fa) (f_field fa) with
  | None => false
  | Some g => (f_fresh fa && negb (f_atomic fa)) || lguard_sat g fa
  end.

(* The lock of a GMutex entry of the local table is itself a local variable of the same function: it denotes one
   lock only if it is never reassigned after it is captured, i.e. if the variable (a captured local itself) obeys
   GImmutable — which is what [local_guard_ok] checks for it, provided it has NO entry of its own in the table. *)
Definition local_lock_vars_stable : bool :=
  forallb (fun e => match e with
                    | ((s, _), g) =>
                        (fix lockvar (g : guard) : bool :=
                           match g with
                           | GMutex lf => match lookup local_guard_table s lf with None => true | Some _ => false end
                           | GExempt _ _ _ g' => lockvar g'
                           | _ => true
                           end) g
                    end) local_guard_table.
