(* Bridge between the two ChanCaster models: the 64-bit state word of Model/Caster.v and the abstract
   (cnt, armed) pair of the protocol Model/CasterAbs.v.

     word_of n a   the word the protocol state (cnt = n, armed = a) stands for: hi = n, lo = n (+ MaxInt32 if armed)
     absw w        the protocol's view of a word
     wop_of c f p  the operation of Model/Caster.v that the protocol step [p] performs on the word, with the
                   arguments the Go code passes (Send's local `receivers` is the protocol's reg0; the word its final
                   CAS expects is the one it loaded at S7, i.e. word_of ret 1)
     wexec o w     runs that operation on a concrete word: new word, and whether the call panicked
     wrun          a protocol run with the concrete word carried along and driven ONLY by wexec

   Executable definitions only; proofs are in Proofs/CasterBridge.v. *)
From Coq Require Import List ZArith Bool Arith.
From BB.Model Require Import Caster.
From BB.Model Require CasterAbs.
Import ListNotations.

Definition word_of (n a : nat) : Z :=
  mkword (Z.of_nat n) (Z.of_nat n + (if Nat.eqb a 0 then 0 else maxi))%Z.

Definition absw (x : Z) : nat * nat :=
  (Z.to_nat (hi x), if (lo x =? hi x + maxi)%Z then 1 else 0).

Inductive wop :=
| WNone                                 (* the step does not write the word and cannot panic on it *)
| WAdd (delta : Z)                      (* x.state.Add(..) + validation, inside ChanCaster.Add(delta) *)
| WSendBegin                            (* Send: load, `state == 0`, validate, arming CAS *)
| WSendCheck (receivers : Z)            (* Send: final load + the two validations (no write) *)
| WSendCas (receivers : Z) (loaded : Z).  (* Send: CompareAndSwap(loaded, 0) *)

Definition wop_of (c : CasterAbs.spc) (f : CasterAbs.var -> nat) (p : CasterAbs.bpick) : wop :=
  match p with
  | CasterAbs.PU1 => WAdd 1
  | CasterAbs.PDeregO | CasterAbs.PDeregN => WAdd (-1)
  | CasterAbs.PS =>
      match c with
      | CasterAbs.S4 => WSendBegin
      | CasterAbs.S7 => WSendCheck (Z.of_nat (f CasterAbs.reg0))
      | CasterAbs.S7c => WSendCas (Z.of_nat (f CasterAbs.reg0)) (word_of (f CasterAbs.ret) 1)
      | _ => WNone
      end
  | _ => WNone
  end.

Definition wexec (o : wop) (x : Z) : Z * bool :=
  match o with
  | WNone => (x, false)
  | WAdd d => let r := add x d in (fst r, match snd r with AddPanic => true | AddRet _ _ => false end)
  | WSendBegin => let r := send_begin x in (fst r, match snd r with SbPanic => true | _ => false end)
  | WSendCheck rc => (x, match snd (send_end rc x) with SePanic => true | SeRet _ => false end)
  | WSendCas rc wl => let r := send_end_cas rc wl x in
                      (fst r, match snd r with SePanic => true | SeRet _ => false end)
  end.

(* the counter-level step a pick performs (the tagged receiver's steps are the anonymous ones, see CasterAbs) *)
Definition pick_base (s : CasterAbs.st) (p : CasterAbs.pick) : CasterAbs.bpick :=
  match p with
  | CasterAbs.PB b => b
  | CasterAbs.PT t => CasterAbs.base_of (CasterAbs.tg s) t
  end.

(* a run of the protocol with the real word alongside: state, word, "some word operation panicked" *)
Fixpoint wrun (s : CasterAbs.st) (x : Z) (pan : bool) (sched : list CasterAbs.pick) : CasterAbs.st * Z * bool :=
  match sched with
  | [] => (s, x, pan)
  | p :: rest =>
      match CasterAbs.step s p with
      | Some s' =>
          let r := wexec (wop_of (CasterAbs.sp s) (CasterAbs.v s) (pick_base s p)) x in
          wrun s' (fst r) (pan || snd r) rest
      | None => wrun s x pan rest
      end
  end.
