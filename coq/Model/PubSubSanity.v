(* Model of ChanPubSub.sanityCheckSubscribersDelta (chanpubsub.go) and of the atomic.Int32 addition that feeds it,
   over Z with EXPLICIT 32-bit two's-complement wrap-around.

     func (x *ChanPubSub[C, V]) sanityCheckSubscribersDelta(subscribers, delta int) {
         oldSubscribers := int(int32(subscribers) - int32(delta))
         if (delta > 0 && oldSubscribers >= subscribers) || (delta < 0 && oldSubscribers <= subscribers) { markBroken; panic }
         if subscribers < 0 { markBroken; panic }
         if oldSubscribers < 0 { markBroken; panic }
     }

   Executable definitions only; proofs are in Proofs/PubSubSanity.v. *)
From Coq Require Import ZArith Bool.
Open Scope Z_scope.

Definition min_int32 : Z := -2147483648.
Definition max_int32 : Z := 2147483647.

(* conversion of a Go int to int32 / result of an int32 operation: the unique representative of z modulo 2^32 in
   [-2^31, 2^31) *)
Definition wrap32 (z : Z) : Z := (z + 2147483648) mod 4294967296 - 2147483648.

(* x.subscribers.Add(int32(delta)), as returned to the caller (converted back to int) *)
Definition add_subscribers (old delta : Z) : Z := wrap32 (old + wrap32 delta).

(* which check fires: 0 none | 1 overflow/underflow | 2 negative subscribers | 3 negative old subscribers *)
Definition sanity_check (subscribers delta : Z) : Z :=
  let old := wrap32 (wrap32 subscribers - wrap32 delta) in
  if ((0 <? delta) && (subscribers <=? old)) || ((delta <? 0) && (old <=? subscribers)) then 1
  else if subscribers <? 0 then 2
  else if old <? 0 then 3
  else 0.

Definition sanity_fires (subscribers delta : Z) : bool := negb (sanity_check subscribers delta =? 0).
