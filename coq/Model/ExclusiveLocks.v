(* C09, "keys are independent": what the lockset facts regenerated from the CURRENT source (Gen/ImplLocksets.v, produced by
   harness/cmd/lockx; record type in Model/Lockset.v) say about Exclusive.mutex, the lock of the key -> item map, the
   only object shared between keys.  The product models (Model/ExclusiveKeys.v, ExclusiveKeysN.v) take every critical
   section on it as part of ONE key's atomic step; that is sound if a goroutine never BLOCKS while holding it.
   Executable checks only; the theorems over the generated facts are in Properties/C09.v.

   A fact is a field access with the set of locks held at that point.  The translator does not record blocking
   operations as such (see the end of this file for what it would have to emit), so the checks below are stated on the
   field accesses through which exclusive.go can block:
     * `item.mutex.Lock()`        reads the field exclusiveItem.mutex,
     * `item.cond.Wait()`         reads exclusiveItem.cond and sits in `for item.running { ... }` (reads exclusiveItem.running),
     * `item.work(resolve)`       reads exclusiveItem.work (user code of unbounded duration).
   time.Sleep (exclusive.go:258) and the send on the buffered outcome channel touch no struct field and are invisible. *)
From Coq Require Import List String Bool Arith.
From BB Require Import Model.Lockset.
Import ListNotations.
Open Scope string_scope.

Definition is_map_lock (l : lockid) : bool := String.eqb (l_struct l) "Exclusive" && String.eqb (l_field l) "mutex".
Definition holds_map_lock (fa : fact) : bool := existsb (fun p => is_map_lock (fst p)) (f_held fa).
Definition item_field (fa : fact) (fld : string) : bool :=
  String.eqb (f_struct fa) "exclusiveItem" && String.eqb (f_field fa) fld.
Definition is_read (fa : fact) : bool := negb (rw_is_w (f_kind fa)).
(* the mutex of the SAME item as the accessed field is held (held_lock requires l_same) *)
Definition holds_own_item_mutex (fa : fact) : bool := held_lock (f_held fa) "exclusiveItem" "mutex" false.

(* (A) While the map lock is held:
       - exclusiveItem.work is never read (no work function is fetched to be called);
       - exclusiveItem.running and exclusiveItem.complete, the conditions goroutines wait for, are never read on a
         published item (no wait loop runs under the map lock);
       - exclusiveItem.mutex / exclusiveItem.cond are touched only on a fresh (unpublished) item or while that item's own
         mutex is ALREADY held -- the pointer copies into the successor literal (exclusive.go:267-268) -- so neither is the
         target of a blocking Lock() (Go mutexes are not reentrant: such a Lock would deadlock on every execution). *)
Definition map_lock_section_ok (fa : fact) : bool :=
  negb (holds_map_lock fa) ||
  (negb (item_field fa "work" && is_read fa) &&
   negb ((item_field fa "running" || item_field fa "complete") && is_read fa && negb (f_fresh fa)) &&
   (negb (item_field fa "mutex" || item_field fa "cond") || f_fresh fa || holds_own_item_mutex fa)).

(* (B) A goroutine that reads an item's mutex field WITHOUT holding that mutex is about to Lock() it (Unlock needs it
       held; the only copies are made with it held, see (A)).  At every such point NO lock at all is held: neither the map
       lock nor another item's mutex, so a blocked Lock() on one key's item never holds up another key. *)
Definition item_lock_acquire (fa : fact) : bool :=
  item_field fa "mutex" && is_read fa && negb (f_fresh fa) && negb (holds_own_item_mutex fa).
Definition item_lock_acquire_ok (fa : fact) : bool :=
  negb (item_lock_acquire fa) || match f_held fa with [] => true | _ => false end.

(* (C) the work function is fetched (exclusive.go:300) with no lock held at all *)
Definition work_call_ok (fa : fact) : bool :=
  negb (item_field fa "work" && is_read fa) || match f_held fa with [] => true | _ => false end.

(* (D) the only locks ever held in exclusive.go's item protocol are the map lock and item mutexes, always in write mode *)
Definition only_known_locks (fa : fact) : bool :=
  negb (String.eqb (f_struct fa) "exclusiveItem" || String.eqb (f_struct fa) "Exclusive") ||
  forallb (fun p => (is_map_lock (fst p) || (String.eqb (l_struct (fst p)) "exclusiveItem" && String.eqb (l_field (fst p)) "mutex"))
                    && mode_is_w (snd p)) (f_held fa).

(* non-vacuity: the facts the checks are about exist *)
Definition count_facts (P : fact -> bool) (l : list fact) : nat := List.length (filter P l).
Definition reads_item_work (fa : fact) : bool := item_field fa "work" && is_read fa.
Definition cond_access_own_mutex_only (fa : fact) : bool :=
  item_field fa "cond" && negb (holds_map_lock fa) && holds_own_item_mutex fa.

(* WHAT THE TRANSLATOR WOULD HAVE TO EMIT to state "Exclusive.mutex is never held across a blocking operation" directly
   (harness/cmd/lockx is not changed here).  One more generated list
       Definition impl_blockops : list blockop
   with  Record blockop := mkBlock { b_fn : string; b_lit : string; b_kind : blockkind; b_target : string * string;
                                     b_held : list (lockid * mode); b_pos : string }
   and   Inductive blockkind := BLock | BRLock | BCondWait | BChanSend | BChanRecv | BSelect | BSleep | BWaitGroupWait
                               | BCallFuncValue | BCallUnknown
   emitted at the places where lockx already classifies calls: exprs.go, the `case "sync":` switch that counts
   nLockOps (Lock/RLock: emit BLock/BRLock with the held set BEFORE the acquisition and the lock's owner struct/field as
   target) and nCondWait (sync.Cond.Wait: emit BCondWait with the held set MINUS cond.L); calls whose callee is
   time.Sleep, sync.WaitGroup.Wait, a value of function type (item.work(resolve): BCallFuncValue) or a function
   outside the package that is not known non-blocking (BCallUnknown); stmts.go for send statements, receive
   expressions and select statements without default on channels that are not provably buffered-and-fresh.  The C09
   obligation would then be
       forallb (fun o => negb (existsb (fun p => is_map_lock (fst p)) (b_held o))) impl_blockops = true
   and (B)/(C) above would become its special cases. *)
