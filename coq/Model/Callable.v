(* Model of callable.go: bigbuff.Call with the options CallArgs, CallResults, CallResultsSlice, and callable.Call.
   Line numbers refer to /repo/callable.go at HEAD (which CONTAINS the fix commits cba04f9 and d98fcef).
   (CallArgsRaw / CallResultsRaw are out of scope: the only thunks that reach callable.Call here are the ones the three
   validated options build with reflect.MakeFunc, which are non-nil funcs without inputs, so the kind / nil / NumIn checks
   at callable.go:219-242 always pass on them and are not modelled.  Also out of scope: the `not func` error of
   callable.go:77-79.  The property is about function values, i.e. Callables made by NewCallable, which panics at
   l.64-69 for anything that is not a non-nil func, and callable.Type() is reflect.Value.Type() of that func, whose Kind
   is Func: the branch is dead for them.  It can only be taken by a foreign implementation of the Callable interface
   whose Type() is not a func type; it then returns the error before any option runs and before anything is invoked.)

   The reflect package is modelled, not verified: a type universe `ty` with reflect's own tables
     kind       : ty -> kindT          reflect.Type.Kind
     assignable : ty -> ty -> bool     assignable a b  =  a.AssignableTo(b)
     elem       : ty -> ty             reflect.Type.Elem (meaningful on array/chan/map/ptr/slice kinds only)
   as Section variables (the checker instantiates them with the tables the harness dumps from reflect itself), and
   the reflect operations the library uses, INCLUDING the inputs on which they panic:
     method call on a nil reflect.Type (reflect.TypeOf(nil))            -> PNilType
     Value.Type / Value.Elem / Value.Set on the zero Value (ValueOf(nil)) -> PZeroValueType / PElemKind / PSetZeroValue
     Value.Set / Value.Call / Append with a non-assignable value         -> PSetNotAssignable / PCallNotAssignable
     Value.Call with too few / too many arguments                        -> PCallTooFew / PCallTooMany
     reflect.FuncOf with more than 128 inputs+outputs                    -> PFuncOfTooMany
   Nothing is concurrent here.  Executable definitions only; proofs are in Proofs/Callable.v.

   Variants, selected by explicit arguments:
     fixed = true    THE CURRENT CODE (/repo HEAD): an untyped nil argument is accepted iff the parameter kind is nilable
                     and passed as the zero value of the parameter type; a nil result target, more than 128 expanded
                     arguments, more than 128 results with a results option, and omitted CallArgs for a function with
                     mandatory parameters give descriptive errors.  (This pipeline was written as "the minimally repaired
                     pipeline" before the fixes landed; the fixes are cba04f9 - nil arguments / nil targets / omitted
                     CallArgs / more than 128 arguments - and d98fcef - more than 128 results.)
     fixed = false   HISTORY: the code before cba04f9 (snapshot 271484f), which panicked on those inputs.
     mut             seeded defects used by the refutation theorems (a validation removed).

   Order of the checks, fixed = true against callable.go at HEAD, line by line (verified 2026-10-01):
     resolve_args / check_assign   l.276-304: variadic expansion l.281-286; length l.287-289 (EArgsLen); per argument
                                   l.290-302: untyped nil -> nilable kind or error l.291-298 (EArgsNil), then
                                   AssignableTo l.299-301 (EArgsAssign)
     call_args                     l.95-120: resolveArgs l.98-101; len(in) > 128 l.102-104 (EArgsTooMany); thunk
                                   l.105-117 (set_arg: reflect.New(in).Elem(), Set only `if args[i] != nil` l.110-113)
     call_results / check_targets  l.122-160: length l.126-128 (EResLen); len(out) > 128 l.129-131 (EResTooMany); per
                                   target l.132-148: nil l.133-135 (EResNilTarget), not ptr l.138-140 (EResNotPtr),
                                   nil ptr l.141-143 (EResNilPtr), AssignableTo l.144-147 (EResAssign); thunk l.149-157
     call_results_slice            l.162-199: Kind != Ptr l.166-168 (ESliceNotPtr; an untyped nil has Kind Invalid);
                                   IsNil l.169-171 (ESliceNilPtr); not slice l.172-174 (ESliceNotSlice); len(out) > 128
                                   l.176-178 (ESliceTooMany); per result AssignableTo l.181-186 (ESliceAssign); thunk
                                   l.188-196
     apply_opts / call             l.75-86: options in order, first error returned l.80-84, then caller.Call l.85
     callable_call                 l.218-258: args omitted and the function has a mandatory input l.247-249
                                   (ECallArgsMissing; NumIn() > 1 || (NumIn() == 1 && !IsVariadic()) is
                                   length s_fixed <> 0); in = argsV.Call(nil) l.246; the function l.251; the results
                                   thunk l.253-255.  (In the code the omitted-args test comes after the kind / nil
                                   checks of the results thunk l.234-242, which always pass here.) *)
From Coq Require Import List ZArith Bool Arith.
Import ListNotations.

(* reflect.Kind, sized integer / float / complex kinds grouped (none of them is nilable or has Elem) *)
Inductive kindT := KBool | KInt | KUint | KFloat | KComplex | KString | KStruct | KArray
                 | KPtr | KSlice | KMap | KChan | KFunc | KIface | KUnsafePtr.

(* kinds whose zero value is nil (those on which Value.IsNil does not panic) *)
Definition nilable (k : kindT) : bool :=
  match k with KPtr | KSlice | KMap | KChan | KFunc | KIface | KUnsafePtr => true | _ => false end.
Definition is_ptr (k : kindT) : bool := match k with KPtr => true | _ => false end.
Definition is_slice (k : kindT) : bool := match k with KSlice => true | _ => false end.

(* reflect.FuncOf panics when len(in)+len(out) > 128 *)
Definition funcof_max : nat := 128.

Inductive errT :=
| EArgsLen | EArgsAssign (i : nat) | EArgsNil (i : nat) | EArgsTooMany
| EResLen | EResTooMany | EResNilTarget (i : nat) | EResNotPtr (i : nat) | EResNilPtr (i : nat) | EResAssign (i : nat)
| ESliceNotPtr | ESliceNilPtr | ESliceNotSlice | ESliceTooMany | ESliceAssign (i : nat)
| ECallArgsMissing.

Inductive panicT :=
| PNilType | PZeroValueType | PSetZeroValue | PSetNotAssignable | PElemKind | PIndex
| PFuncOfTooMany | PCallTooFew | PCallTooMany | PCallNotAssignable | PAppendKind.

Inductive res (A : Type) := Ok (a : A) | Err (e : errT) | Panic (p : panicT).
Arguments Ok {A} a. Arguments Err {A} e. Arguments Panic {A} p.

Definition bind {A B : Type} (r : res A) (f : A -> res B) : res B :=
  match r with Ok a => f a | Err e => Err e | Panic p => Panic p end.

(* seeded defects (a validation deleted from the source) *)
Inductive mutT := MNone | MNoAssignCheck | MNoNilPtrCheck | MNoResLenCheck.
Definition mut_is_assign (m : mutT) : bool := match m with MNoAssignCheck => true | _ => false end.
Definition mut_is_nilptr (m : mutT) : bool := match m with MNoNilPtrCheck => true | _ => false end.
Definition mut_is_reslen (m : mutT) : bool := match m with MNoResLenCheck => true | _ => false end.

Fixpoint forallb2 {A B : Type} (f : A -> B -> bool) (l1 : list A) (l2 : list B) : bool :=
  match l1, l2 with
  | [], [] => true
  | a :: l1', b :: l2' => f a b && forallb2 f l1' l2'
  | _, _ => false
  end.

Fixpoint map2 {A B C : Type} (f : A -> B -> C) (l1 : list A) (l2 : list B) : list C :=
  match l1, l2 with
  | a :: l1', b :: l2' => f a b :: map2 f l1' l2'
  | _, _ => []
  end.

Section Callable.
Variable ty : Type.
Variable kind : ty -> kindT.
Variable assignable : ty -> ty -> bool.
Variable elem : ty -> ty.

(* the content of a reflect.Value: the tagged value it was made from, or the zero value of type t (kept through
   conversions: the zero *int converted to interface{} is a non-nil interface holding a nil *int) *)
Inductive src := SVal (id : Z) | SZeroOf (t : ty).

(* an interface{} value handed to an option: its dynamic type (None = untyped nil), whether it is a nil pointer /
   map / ... of that type, and a unique tag *)
Record val := mkVal { vty : option ty; vnil : bool; vid : Z }.

(* a reflect.Value travelling through the thunks: static type and content *)
Record rval := mkR { rty : ty; rsrc : src }.

(* a function type: the non-variadic parameters, the ELEMENT type of the trailing ...T parameter if any
   (so NumIn = length s_fixed + 1 when variadic, and In(NumIn-1).Elem() = T), and the results *)
Record sig := mkSig { s_fixed : list ty; s_var : option ty; s_out : list ty }.

Inductive copt := OArgs (args : list val) | OResults (targets : list val) | OResultsSlice (target : val).

(* config.args / config.results as built by the options *)
Inductive athunk := AThunk (ins : list ty) (args : list val).
Inductive rthunk := RPtrs (outs : list ty) (targets : list val) | RSlice (elems : list ty) (target : val).

Inductive store := SSet (target : Z) (v : rval) | SAppend (target : Z) (vs : list rval).

Inductive result := ROk | RErr (e : errT) | RPanic (p : panicT).
(* what an observer sees of one bigbuff.Call: the returned error / panic, every invocation of the function with the
   arguments it received, every write to a result target, in order *)
Record outcome := mkOut { o_res : result; o_inv : list (list rval); o_sto : list store }.

Section Variant.
Variable fixed : bool.
Variable mut : mutT.

(* ---- resolveArgs (callable.go:276-304), on typesArgs(args) = map vty args ---- *)

(* for i, in := range in { if !args[i].AssignableTo(in) {...} } ; args[i] is a nil reflect.Type for an untyped nil *)
Fixpoint check_assign (i : nat) (args : list (option ty)) (ins : list ty) : res unit :=
  match ins with
  | [] => Ok tt
  | t :: ins' =>
      match args with
      | [] => Panic PIndex
      | a :: args' =>
          match a with
          | None =>
              if fixed then (if nilable (kind t) then check_assign (S i) args' ins' else Err (EArgsNil i))
              else Panic PNilType
          | Some at_ =>
              if assignable at_ t || mut_is_assign mut then check_assign (S i) args' ins' else Err (EArgsAssign i)
          end
      end
  end.

(* in = In(0..NumIn-1); if variadic: drop the last, then `for len(args) > len(in) { in = append(in, variadic) }` *)
Definition expand (sg : sig) (nargs : nat) : list ty :=
  match s_var sg with
  | None => s_fixed sg
  | Some v => s_fixed sg ++ repeat v (nargs - length (s_fixed sg))
  end.

Definition resolve_args (sg : sig) (args : list (option ty)) : res (list ty) :=
  let ins := expand sg (length args) in
  if length args =? length ins
  then bind (check_assign 0 args ins) (fun _ => Ok ins)
  else Err EArgsLen.

(* ---- CallArgs (callable.go:95-120): resolveArgs, then reflect.FuncOf(nil, in, false) + MakeFunc ---- *)
Definition call_args (sg : sig) (args : list val) : res athunk :=
  bind (resolve_args sg (map vty args)) (fun ins =>
    if funcof_max <? length ins
    then (if fixed then Err EArgsTooMany else Panic PFuncOfTooMany)
    else Ok (AThunk ins args)).

(* the closure: results[i] = reflect.New(in).Elem(); results[i].Set(reflect.ValueOf(args[i])) *)
Definition set_arg (t : ty) (a : val) : res rval :=
  match vty a with
  | None => if fixed then Ok (mkR t (SZeroOf t)) else Panic PSetZeroValue
  | Some at_ => if assignable at_ t then Ok (mkR t (SVal (vid a))) else Panic PSetNotAssignable
  end.

Fixpoint thunk_vals (ins : list ty) (args : list val) : res (list rval) :=
  match ins with
  | [] => Ok []
  | t :: ins' =>
      match args with
      | [] => Panic PIndex
      | a :: args' =>
          bind (set_arg t a) (fun r => bind (thunk_vals ins' args') (fun rs => Ok (r :: rs)))
      end
  end.

Definition run_athunk (th : athunk) : res (list rval) :=
  match th with AThunk ins args => thunk_vals ins args end.

(* ---- CallResults (callable.go:122-160) ---- *)
Fixpoint check_targets (i : nat) (outs : list ty) (targets : list val) : res unit :=
  match outs with
  | [] => Ok tt
  | o :: outs' =>
      match targets with
      | [] => Panic PIndex
      | r :: targets' =>
          match vty r with
          | None => if fixed then Err (EResNilTarget i) else Panic PZeroValueType     (* reflect.ValueOf(nil).Type() *)
          | Some t =>
              if negb (is_ptr (kind t)) then Err (EResNotPtr i)
              else if vnil r && negb (mut_is_nilptr mut) then Err (EResNilPtr i)
              else if assignable o (elem t) then check_targets (S i) outs' targets'
              else Err (EResAssign i)
          end
      end
  end.

(* length check; (repaired: the reflect.FuncOf limit as an error;) the loop over the targets; then
   reflect.FuncOf(out, nil, false), which panics beyond 128 *)
Definition call_results (sg : sig) (targets : list val) : res rthunk :=
  if (length targets =? length (s_out sg)) || mut_is_reslen mut
  then if fixed && (funcof_max <? length (s_out sg)) then Err EResTooMany
       else bind (check_targets 0 (s_out sg) targets) (fun _ =>
              if funcof_max <? length (s_out sg) then Panic PFuncOfTooMany
              else Ok (RPtrs (s_out sg) targets))
  else Err EResLen.

(* ---- CallResultsSlice (callable.go:162-199) ---- *)
Fixpoint check_slice_assign (i : nat) (outs : list ty) (e : ty) : res unit :=
  match outs with
  | [] => Ok tt
  | o :: outs' => if assignable o e then check_slice_assign (S i) outs' e else Err (ESliceAssign i)
  end.

Definition call_results_slice (sg : sig) (target : val) : res rthunk :=
  match vty target with
  | None => Err ESliceNotPtr                               (* reflect.ValueOf(nil).Kind() = Invalid, no panic *)
  | Some t =>
      if negb (is_ptr (kind t)) then Err ESliceNotPtr
      else if vnil target then Err ESliceNilPtr
      else if negb (is_slice (kind (elem t))) then Err ESliceNotSlice
      else if fixed && (funcof_max <? length (s_out sg)) then Err ESliceTooMany
      else let e := elem (elem t) in
           bind (check_slice_assign 0 (s_out sg) e) (fun _ =>
             if funcof_max <? length (s_out sg) then Panic PFuncOfTooMany      (* reflect.FuncOf(out, nil, false) *)
             else Ok (RSlice (map (fun _ => e) (s_out sg)) target))
  end.

(* ---- bigbuff.Call (callable.go:73-86): options in order, the first error wins, later options overwrite ---- *)
Fixpoint apply_opts (sg : sig) (opts : list copt) (cfg : option athunk * option rthunk)
  : res (option athunk * option rthunk) :=
  match opts with
  | [] => Ok cfg
  | OArgs a :: rest => bind (call_args sg a) (fun th => apply_opts sg rest (Some th, snd cfg))
  | OResults r :: rest => bind (call_results sg r) (fun th => apply_opts sg rest (fst cfg, Some th))
  | OResultsSlice t :: rest => bind (call_results_slice sg t) (fun th => apply_opts sg rest (fst cfg, Some th))
  end.

(* ---- reflect.Value.Call: arity, then assignability of every argument, values converted to the parameter types ---- *)
Fixpoint convert_all (ins : list ty) (vs : list rval) : res (list rval) :=
  match ins, vs with
  | [], [] => Ok []
  | [], _ :: _ => Panic PCallTooMany
  | _ :: _, [] => Panic PCallTooFew
  | t :: ins', v :: vs' =>
      if assignable (rty v) t
      then bind (convert_all ins' vs') (fun r => Ok (mkR t (rsrc v) :: r))
      else Panic PCallNotAssignable
  end.

(* calling the user's function through reflect: a variadic function takes any number of trailing arguments *)
Definition fn_params (sg : sig) (n : nat) : res (list ty) :=
  match s_var sg with
  | None => Ok (s_fixed sg)
  | Some v => if n <? length (s_fixed sg) then Panic PCallTooFew
              else Ok (s_fixed sg ++ repeat v (n - length (s_fixed sg)))
  end.

(* the closures of the result thunks *)
Definition set_target (t : val) (a : rval) : res store :=
  match vty t with
  | None => Panic PElemKind                                   (* Value.Elem on the zero Value *)
  | Some pt =>
      if negb (is_ptr (kind pt)) then Panic PElemKind
      else if vnil t then Panic PSetZeroValue                  (* Elem of a nil pointer is the zero Value *)
      else if assignable (rty a) (elem pt) then Ok (SSet (vid t) a)
      else Panic PSetNotAssignable
  end.

(* for i, arg := range args { reflect.ValueOf(results[i]).Elem().Set(arg) }: stores made before a panic stay made *)
Fixpoint store_all (targets : list val) (args : list rval) : list store * res unit :=
  match args with
  | [] => ([], Ok tt)
  | a :: args' =>
      match targets with
      | [] => ([], Panic PIndex)
      | t :: targets' =>
          match set_target t a with
          | Ok s => let (ss, r) := store_all targets' args' in (s :: ss, r)
          | Err e => ([], Err e)
          | Panic p => ([], Panic p)
          end
      end
  end.

Definition append_target (t : val) (args : list rval) : list store * res unit :=
  match args with
  | [] => ([], Ok tt)                                         (* if len(args) != 0 { ... } *)
  | _ :: _ =>
      match vty t with
      | None => ([], Panic PElemKind)
      | Some pt =>
          if negb (is_ptr (kind pt)) then ([], Panic PElemKind)
          else if vnil t then ([], Panic PAppendKind)
          else if negb (is_slice (kind (elem pt))) then ([], Panic PAppendKind)
          else if forallb (fun a => assignable (rty a) (elem (elem pt))) args
               then ([SAppend (vid t) args], Ok tt)
               else ([], Panic PSetNotAssignable)
      end
  end.

Definition run_rthunk (th : rthunk) (outs : list rval) : list store * res unit :=
  match th with
  | RPtrs ins targets =>
      match convert_all ins outs with
      | Ok args => store_all targets args
      | Err e => ([], Err e)
      | Panic p => ([], Panic p)
      end
  | RSlice ins target =>
      match convert_all ins outs with
      | Ok args => append_target target args
      | Err e => ([], Err e)
      | Panic p => ([], Panic p)
      end
  end.

Definition result_of (r : res unit) : result :=
  match r with Ok _ => ROk | Err e => RErr e | Panic p => RPanic p end.

(* ---- callable.Call (callable.go:217-258); `body` is the user's function ---- *)
Definition callable_call (sg : sig) (body : list rval -> list rval)
           (args : option athunk) (results : option rthunk) : outcome :=
  let missing :=
    match args with None => fixed && negb (length (s_fixed sg) =? 0) | Some _ => false end in
  if missing then mkOut (RErr ECallArgsMissing) [] []
  else
    let in_r := match args with None => Ok [] | Some th => run_athunk th end in   (* in = argsV.Call(nil) *)
    match bind in_r (fun ins => bind (fn_params sg (length ins)) (fun ps => convert_all ps ins)) with
    | Err e => mkOut (RErr e) [] []
    | Panic p => mkOut (RPanic p) [] []
    | Ok ins' =>
        let outs := body ins' in                                                   (* out := x.callableValue.Call(in) *)
        match results with
        | None => mkOut ROk [ins'] []
        | Some th => let (ss, r) := run_rthunk th outs in mkOut (result_of r) [ins'] ss   (* resultsV.Call(out) *)
        end
    end.

Definition call (sg : sig) (body : list rval -> list rval) (opts : list copt) : outcome :=
  match apply_opts sg opts (None, None) with
  | Err e => mkOut (RErr e) [] []
  | Panic p => mkOut (RPanic p) [] []
  | Ok (a, r) => callable_call sg body a r
  end.

End Variant.

(* ---------------------------------------------------------------------------------------------------------------- *)
(* Specification: what a direct call would do                                                                      *)
(* ---------------------------------------------------------------------------------------------------------------- *)

(* parameter types seen by n arguments (variadic expansion) *)
Definition param_types (sg : sig) (n : nat) : list ty :=
  match s_var sg with
  | None => s_fixed sg
  | Some v => s_fixed sg ++ repeat v (n - length (s_fixed sg))
  end.

(* an argument as the function receives it: of the parameter's type; an untyped nil is the zero value of that type *)
Definition pass (t : ty) (a : val) : rval :=
  mkR t (match vty a with None => SZeroOf t | Some _ => SVal (vid a) end).

Definition arg_ok (t : ty) (a : val) : bool :=
  match vty a with None => nilable (kind t) | Some at_ => assignable at_ t end.

Definition args_valid (sg : sig) (args : list val) : bool :=
  forallb2 arg_ok (param_types sg (length args)) args && (length args <=? funcof_max).

Definition target_ok (o : ty) (r : val) : bool :=
  match vty r with
  | None => false
  | Some t => is_ptr (kind t) && negb (vnil r) && assignable o (elem t)
  end.

Definition results_valid (sg : sig) (targets : list val) : bool :=
  forallb2 target_ok (s_out sg) targets && (length (s_out sg) <=? funcof_max).

Definition slice_valid (sg : sig) (target : val) : bool :=
  match vty target with
  | None => false
  | Some t => is_ptr (kind t) && negb (vnil target) && is_slice (kind (elem t))
              && (length (s_out sg) <=? funcof_max)
              && forallb (fun o => assignable o (elem (elem t))) (s_out sg)
  end.

Definition opt_valid (sg : sig) (o : copt) : bool :=
  match o with
  | OArgs a => args_valid sg a
  | OResults r => results_valid sg r
  | OResultsSlice t => slice_valid sg t
  end.

Fixpoint last_args (opts : list copt) (acc : option (list val)) : option (list val) :=
  match opts with
  | [] => acc
  | OArgs a :: rest => last_args rest (Some a)
  | _ :: rest => last_args rest acc
  end.

Fixpoint last_results (opts : list copt) (acc : option copt) : option copt :=
  match opts with
  | [] => acc
  | OArgs _ :: rest => last_results rest acc
  | o :: rest => last_results rest (Some o)
  end.

(* omitting CallArgs means "no arguments": only acceptable when the function has no mandatory parameter *)
Definition args_present (sg : sig) (opts : list copt) : bool :=
  match last_args opts None with Some _ => true | None => length (s_fixed sg) =? 0 end.

Definition valid (sg : sig) (opts : list copt) : bool :=
  forallb (opt_valid sg) opts && args_present sg opts.

Definition expected_args (sg : sig) (opts : list copt) : list rval :=
  match last_args opts None with
  | None => []
  | Some a => map2 pass (param_types sg (length a)) a
  end.

Definition retype (t : ty) (v : rval) : rval := mkR t (rsrc v).

Definition expected_stores (opts : list copt) (outs : list rval) : list store :=
  match last_results opts None with
  | Some (OResults targets) => map2 (fun t v => SSet (vid t) v) targets outs
  | Some (OResultsSlice t) =>
      match outs, vty t with
      | _ :: _, Some pt => [SAppend (vid t) (map (retype (elem (elem pt))) outs)]
      | _, _ => []
      end
  | _ => []
  end.

End Callable.

Arguments SVal {ty}. Arguments SZeroOf {ty}.
Arguments mkVal {ty}. Arguments vty {ty}. Arguments vnil {ty}. Arguments vid {ty}.
Arguments mkR {ty}. Arguments rty {ty}. Arguments rsrc {ty}.
Arguments mkSig {ty}. Arguments s_fixed {ty}. Arguments s_var {ty}. Arguments s_out {ty}.
Arguments OArgs {ty}. Arguments OResults {ty}. Arguments OResultsSlice {ty}.
Arguments SSet {ty}. Arguments SAppend {ty}.
Arguments mkOut {ty}. Arguments o_res {ty}. Arguments o_inv {ty}. Arguments o_sto {ty}.
Arguments pass {ty}. Arguments retype {ty}. Arguments last_args {ty}. Arguments last_results {ty}.
Arguments param_types {ty}. Arguments expand {ty}.

(* [call_fixed] = the current code (/repo HEAD); [call_current] = HISTORY, the code before cba04f9 (the name dates from
   before the fixes landed and is kept because other files refer to it) *)
Definition call_current {ty} kind assignable elem := @call ty kind assignable elem false MNone.
Definition call_fixed {ty} kind assignable elem := @call ty kind assignable elem true MNone.

(* A small concrete universe for the examples and refutation witnesses (the checker uses reflect's own tables instead):
   0 int, 1 string, 2 *int, 3 interface{}, 4 []int, 5 *[]int, 6 *string, 7 *interface{}, 8 []interface{}, 9 *[]interface{} *)
Definition ex_kind (t : nat) : kindT :=
  match t with
  | 0 => KInt | 1 => KString | 2 => KPtr | 3 => KIface | 4 => KSlice | 5 => KPtr | 6 => KPtr | 7 => KPtr
  | 8 => KSlice | _ => KPtr
  end.
Definition ex_elem (t : nat) : nat :=
  match t with 2 => 0 | 4 => 0 | 5 => 4 | 6 => 1 | 7 => 3 | 8 => 3 | 9 => 8 | _ => t end.
Definition ex_assignable (a b : nat) : bool := (a =? b) || (b =? 3).
