(* Tagged-subscriber extension of the ChanPubSub counter abstraction (Model/PubSubAbs.v).

   The counter abstraction keeps subscribers anonymous.  Here ONE subscriber goroutine (one subscription: a single
   Add(+1) ... Add(-1) life cycle) is tracked individually, on top of the same counters: it IS counted in [base] (so every
   theorem about PubSubAbs applies to [base] unchanged), [tp] says at which counter (program point) it currently is, and
   ghost fields record what it observed:

     round  number of Sends that have read `subscribers` (non-zero) under the write lock so far = the index, in the global
            (sendMu) order, of the running / last delivery round;
     towed  the tagged subscription was established (Add(+1) returned, at b0n; or already spinning in Add(-1), n1n) when
            the running / last round was counted, i.e. it is one of the `subscribers` that Send read;
     tsub   value of [round] when the tagged subscriber incremented `subscribers` (its subscription was made);
     tlog   rounds whose copy the tagged subscriber received from the channel, NEWEST FIRST.

   A pick is either made by an anonymous thread ([Anon p], which needs an anonymous thread at the source program point of
   p: the counter there, not counting the tagged subscriber, is positive) or by the tagged subscriber ([Tag p], which
   needs it to be at the source program point of p).  The base transition is PubSubAbs.step_gen in both cases.  Since the
   anonymous threads are interchangeable, whatever is proved of the tagged subscriber holds of every subscriber.

   Executable definitions only; proofs are in Proofs/PubSubTag.v. *)
From Coq Require Import List Arith Bool.
From BB.Model Require Import PubSubAbs.
Import ListNotations.

Record tst := {
  base : st;
  tp : var;
  round : nat;
  towed : bool;
  tsub : nat;
  tlog : list nat
}.

Inductive tpick := Anon (p : pick) | Tag (p : pick).

Definition pick_of (q : tpick) : pick := match q with Anon p | Tag p => p end.

(* the counter a subscriber pick takes its thread from (None: a sender pick) *)
Definition src (p : pick) : option var :=
  match p with
  | PU0 => Some u0 | PU1 => Some u1 | PU2 => Some u2
  | PRecvO => Some b0o | PRecvN => Some b0n | PAbsorb => Some n5 | PWait => Some b1
  | PUnsubO => Some b0o | PUnsubN => Some b0n | PSpinO => Some n1o | PSpinN => Some n1n
  | PN2KO => Some n2ko | PN2KN => Some n2kn | PN3K => Some n3k
  | PN2FO => Some n2fo | PN2FN => Some n2fn | PN4O => Some n4o | PN4N => Some n4n
  | PSendStart | PSendLock | PS => None
  end.

(* ... and the counter it puts it into, from the pre-state (the same tests as PubSubAbs.step_gen) *)
Definition dst (fl : flags) (f : var -> nat) (p : pick) : var :=
  match p with
  | PU0 => u1 | PU1 => u2 | PU2 => b0n
  | PRecvO | PRecvN => b1 | PAbsorb => fin | PWait => b0n
  | PUnsubO => if rlockable f then n2ko else n1o
  | PUnsubN => if rlockable f then n2kn else n1n
  | PSpinO => if rlockable f then n2ko else n2fo
  | PSpinN => if rlockable f then n2kn else n2fn
  | PN2KO | PN2KN => n3k | PN3K => fin
  | PN2FO => n4o | PN2FN => n4n
  | PN4O | PN4N => if f armed =? 0 then fin else if fl_route fl then n5 else fin
  | PSendStart | PSendLock | PS => fin
  end.

Definition is_recv (p : pick) : bool := match p with PRecvO | PRecvN => true | _ => false end.

(* the step in which Send reads a non-zero `subscribers` and adds it to the caster (S4 -> S5): every subscribed thread
   becomes owed (the ghost relabelling n -> o of PubSubAbs) *)
Definition is_count (s : st) (p : pick) : bool :=
  match p, sp s with PS, S4 => negb (v s subs =? 0) | _, _ => false end.

Definition relabel (x : var) : var :=
  match x with b0n => b0o | n1n => n1o | n2kn => n2ko | n2fn => n2fo | _ => x end.

Definition relabels (x : var) : bool :=
  match x with b0n | n1n | n2kn | n2fn => true | _ => false end.

Definition tstep_gen (fl : flags) (t : tst) (q : tpick) : option tst :=
  match q with
  | Anon p =>
      match step_gen fl (base t) p with
      | None => None
      | Some b' =>
          match src p with
          | Some a =>
              if pos (v (base t) a - (if var_beq (tp t) a then 1 else 0))
              then Some {| base := b'; tp := tp t; round := round t; towed := towed t; tsub := tsub t; tlog := tlog t |}
              else None
          | None =>
              if is_count (base t) p
              then Some {| base := b'; tp := relabel (tp t); round := S (round t); towed := relabels (tp t);
                           tsub := tsub t; tlog := tlog t |}
              else Some {| base := b'; tp := tp t; round := round t; towed := towed t; tsub := tsub t; tlog := tlog t |}
          end
      end
  | Tag p =>
      match src p with
      | None => None
      | Some a =>
          if var_beq (tp t) a then
            match step_gen fl (base t) p with
            | None => None
            | Some b' =>
                Some {| base := b'; tp := dst fl (v (base t)) p; round := round t; towed := towed t;
                        tsub := match p with PU1 => round t | _ => tsub t end;
                        tlog := if is_recv p then round t :: tlog t else tlog t |}
            end
          else None
      end
  end.

Definition tstep : tst -> tpick -> option tst := tstep_gen good_flags.

(* [senders] Send calls, the tagged subscriber and [others] anonymous subscribers, nobody subscribed yet *)
Definition tinit (senders others : nat) : tst :=
  {| base := init senders (S others); tp := u0; round := 0; towed := false; tsub := 0; tlog := [] |}.

Fixpoint trun_gen (fl : flags) (t : tst) (sched : list tpick) : tst :=
  match sched with
  | [] => t
  | q :: rest => trun_gen fl (match tstep_gen fl t q with Some t' => t' | None => t end) rest
  end.

Definition trun : tst -> list tpick -> tst := trun_gen good_flags.

(* still subscribed and has not invoked Add(-1) *)
Definition standing (x : var) : bool := match x with b0o | b0n | b1 => true | _ => false end.
