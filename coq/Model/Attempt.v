(* Model of bigbuff.LinearAttempt (attempt.go:37-76).  Executable definitions only; proofs are in Proofs/Attempt.v.

   Threads:
     caller    the goroutine that calls LinearAttempt: ctx.Err() check (l.42), inline first send (l.46), count-- and
               either close+return (l.47-51) or `go` + return (l.52,75) — three steps, label LCall
     producer  the goroutine of l.52-74, one step per statement that touches shared state (label LProd):
                 GTicker  time.NewTicker                     (l.54)
                 GLoop    for-condition i < count            (l.56)
                 GSelect  select { ctx.Done | ticker.C }     (l.58-62)  choice: which READY case fires
                 GRecheck ctx.Err() != nil -> return         (l.63-66)
                 GSend    select { c <- t: i++ | default }   (l.67-72)
                 GStop    deferred ticker.Stop()             (l.55)
                 GClose   deferred close(c)                  (l.53)
     ticker    environment (LTick d): time advances by d >= 0 and the runtime offers the current time on ticker.C, a
               channel of capacity 1: the tick is DROPPED when one is already pending (time.Ticker semantics);
               enabled whenever the ticker is armed
     canceller environment (LCancel): one step, at any time (before the call: "already cancelled")
     receiver  environment (LRecv): takes the oldest buffered value, or observes the close; enabled only when that
               would not block; prompt / slow / absent receivers are schedules
   Protocol variants (realistic defects) are selected by the explicit bool flags of [cfg]; the code as it is has all
   flags false and cap = 1. *)
From Coq Require Import List Arith Bool.
Import ListNotations.

Record cfg := {
  cap         : nat;   (* capacity of c: make(chan time.Time, 1) *)
  count       : nat;   (* the count argument (>= 1, else LinearAttempt panics before doing anything) *)
  v_countdrop : bool;  (* defect: i++ also when the non-blocking send was dropped *)
  v_norecheck : bool;  (* defect: no ctx.Err() re-check after the tick *)
  v_blocksend : bool;  (* defect: plain blocking `c <- t` instead of select/default *)
  v_noclose1  : bool   (* defect: close(c) missing on the count = 1 path *)
}.

Definition impl_cap : nat := 1.

Definition faithful (n : nat) : cfg :=
  {| cap := impl_cap; count := n; v_countdrop := false; v_norecheck := false; v_blocksend := false; v_noclose1 := false |}.

Inductive cpcT := CEntry | CSend0 | CDec | CRet.
Inductive gpcT := GNone | GTicker | GLoop | GSelect | GRecheck | GSend | GStop | GClose | GExit.

Record st := {
  cpc       : cpcT;
  gpc       : gpcT;
  chanq     : list nat;    (* values buffered in c, oldest first (timestamps) *)
  closed    : bool;        (* c has been closed *)
  cancelled : bool;        (* ctx.Err() != nil / ctx.Done() is closed *)
  i         : nat;         (* the loop variable: ticks forwarded so far *)
  tmp       : nat;         (* the local t *)
  tickbuf   : option nat;  (* ticker.C, capacity 1 *)
  armed     : bool;        (* the ticker exists and has not been stopped *)
  now       : nat;         (* the clock: non-decreasing *)
  sent      : list nat;    (* ghost: every value ever sent on c, in order *)
  recvd     : list nat;    (* ghost: every value received from c, in order *)
  rclosed   : bool;        (* the receiver has observed the close *)
  sac       : nat;         (* ghost: sends on c that happened after the cancellation *)
  rac       : nat          (* ghost: receives from c that happened after the cancellation *)
}.

Definition init : st :=
  {| cpc := CEntry; gpc := GNone; chanq := []; closed := false; cancelled := false; i := 0; tmp := 0; tickbuf := None;
     armed := false; now := 0; sent := []; recvd := []; rclosed := false; sac := 0; rac := 0 |}.

Definition set_cpc (s : st) (x : cpcT) : st :=
  {| cpc := x; gpc := gpc s; chanq := chanq s; closed := closed s; cancelled := cancelled s; i := i s; tmp := tmp s;
     tickbuf := tickbuf s; armed := armed s; now := now s; sent := sent s; recvd := recvd s; rclosed := rclosed s;
     sac := sac s; rac := rac s |}.
Definition set_gpc (s : st) (x : gpcT) : st :=
  {| cpc := cpc s; gpc := x; chanq := chanq s; closed := closed s; cancelled := cancelled s; i := i s; tmp := tmp s;
     tickbuf := tickbuf s; armed := armed s; now := now s; sent := sent s; recvd := recvd s; rclosed := rclosed s;
     sac := sac s; rac := rac s |}.
Definition set_closed (s : st) (x : bool) : st :=
  {| cpc := cpc s; gpc := gpc s; chanq := chanq s; closed := x; cancelled := cancelled s; i := i s; tmp := tmp s;
     tickbuf := tickbuf s; armed := armed s; now := now s; sent := sent s; recvd := recvd s; rclosed := rclosed s;
     sac := sac s; rac := rac s |}.
Definition set_cancelled (s : st) (x : bool) : st :=
  {| cpc := cpc s; gpc := gpc s; chanq := chanq s; closed := closed s; cancelled := x; i := i s; tmp := tmp s;
     tickbuf := tickbuf s; armed := armed s; now := now s; sent := sent s; recvd := recvd s; rclosed := rclosed s;
     sac := sac s; rac := rac s |}.
Definition set_i (s : st) (x : nat) : st :=
  {| cpc := cpc s; gpc := gpc s; chanq := chanq s; closed := closed s; cancelled := cancelled s; i := x; tmp := tmp s;
     tickbuf := tickbuf s; armed := armed s; now := now s; sent := sent s; recvd := recvd s; rclosed := rclosed s;
     sac := sac s; rac := rac s |}.
Definition set_armed (s : st) (x : bool) : st :=
  {| cpc := cpc s; gpc := gpc s; chanq := chanq s; closed := closed s; cancelled := cancelled s; i := i s; tmp := tmp s;
     tickbuf := tickbuf s; armed := x; now := now s; sent := sent s; recvd := recvd s; rclosed := rclosed s;
     sac := sac s; rac := rac s |}.
Definition set_rclosed (s : st) (x : bool) : st :=
  {| cpc := cpc s; gpc := gpc s; chanq := chanq s; closed := closed s; cancelled := cancelled s; i := i s; tmp := tmp s;
     tickbuf := tickbuf s; armed := armed s; now := now s; sent := sent s; recvd := recvd s; rclosed := x;
     sac := sac s; rac := rac s |}.

(* the ticker fires: time advances by d; the tick is dropped if one is already pending *)
Definition do_tick (s : st) (d : nat) : st :=
  {| cpc := cpc s; gpc := gpc s; chanq := chanq s; closed := closed s; cancelled := cancelled s; i := i s; tmp := tmp s;
     tickbuf := match tickbuf s with None => Some (now s + d) | Some t => Some t end;
     armed := armed s; now := now s + d; sent := sent s; recvd := recvd s; rclosed := rclosed s;
     sac := sac s; rac := rac s |}.

(* the producer takes the pending tick t out of ticker.C *)
Definition take_tick (s : st) (t : nat) : st :=
  {| cpc := cpc s; gpc := GRecheck; chanq := chanq s; closed := closed s; cancelled := cancelled s; i := i s; tmp := t;
     tickbuf := None; armed := armed s; now := now s; sent := sent s; recvd := recvd s; rclosed := rclosed s;
     sac := sac s; rac := rac s |}.

(* a successful send of v on c *)
Definition do_send (s : st) (v : nat) : st :=
  {| cpc := cpc s; gpc := gpc s; chanq := chanq s ++ [v]; closed := closed s; cancelled := cancelled s; i := i s;
     tmp := tmp s; tickbuf := tickbuf s; armed := armed s; now := now s; sent := sent s ++ [v]; recvd := recvd s;
     rclosed := rclosed s; sac := (if cancelled s then S (sac s) else sac s); rac := rac s |}.

(* the receiver takes v, the head of the buffer, leaving rest *)
Definition do_recv (s : st) (v : nat) (rest : list nat) : st :=
  {| cpc := cpc s; gpc := gpc s; chanq := rest; closed := closed s; cancelled := cancelled s; i := i s;
     tmp := tmp s; tickbuf := tickbuf s; armed := armed s; now := now s; sent := sent s; recvd := recvd s ++ [v];
     rclosed := rclosed s; sac := sac s; rac := (if cancelled s then S (rac s) else rac s) |}.

Inductive label :=
| LCall                       (* next statement of the caller *)
| LProd (prefer_done : bool)  (* next statement of the producer; the flag resolves a select with both cases ready *)
| LTick (d : nat)             (* the ticker fires after d more time units *)
| LCancel                     (* the context is cancelled *)
| LRecv.                      (* the receiver receives *)

Inductive out := ONone | OVal (v : nat) | OClosed.

(* count after the decrement of l.47 *)
Definition cnt (c : cfg) : nat := count c - 1.

Definition step (c : cfg) (s : st) (l : label) : option (st * out) :=
  match l with
  | LCancel => if cancelled s then None else Some (set_cancelled s true, ONone)
  | LTick d => if armed s then Some (do_tick s d, ONone) else None
  | LRecv =>
      match cpc s with
      | CRet =>
          if rclosed s then None
          else match chanq s with
               | v :: rest => Some (do_recv s v rest, OVal v)
               | [] => if closed s then Some (set_rclosed s true, OClosed) else None
               end
      | _ => None
      end
  | LCall =>
      match cpc s with
      | CEntry =>                                            (* l.42-45 *)
          if cancelled s then Some (set_cpc (set_closed s true) CRet, ONone)
          else Some (set_cpc s CSend0, ONone)
      | CSend0 =>                                            (* l.46: c <- time.Now() *)
          if length (chanq s) <? cap c then Some (set_cpc (do_send s (now s)) CDec, ONone) else None
      | CDec =>                                              (* l.47-52, 75 *)
          if cnt c =? 0
          then Some (set_cpc (if v_noclose1 c then s else set_closed s true) CRet, ONone)
          else Some (set_cpc (set_gpc s GTicker) CRet, ONone)
      | CRet => None
      end
  | LProd pd =>
      match gpc s with
      | GNone | GExit => None
      | GTicker => Some (set_gpc (set_armed s true) GLoop, ONone)
      | GLoop => Some (set_gpc s (if i s <? cnt c then GSelect else GStop), ONone)
      | GSelect =>
          match cancelled s, tickbuf s with
          | true, Some t => if pd then Some (set_gpc s GStop, ONone) else Some (take_tick s t, ONone)
          | true, None => Some (set_gpc s GStop, ONone)
          | false, Some t => Some (take_tick s t, ONone)
          | false, None => None
          end
      | GRecheck =>
          if cancelled s && negb (v_norecheck c) then Some (set_gpc s GStop, ONone)
          else Some (set_gpc s GSend, ONone)
      | GSend =>
          if length (chanq s) <? cap c
          then Some (set_gpc (set_i (do_send s (tmp s)) (S (i s))) GLoop, ONone)
          else if v_blocksend c then None
          else Some (set_gpc (if v_countdrop c then set_i s (S (i s)) else s) GLoop, ONone)
      | GStop => Some (set_gpc (set_armed s false) GClose, ONone)
      | GClose => Some (set_gpc (set_closed s true) GExit, ONone)
      end
  end.

(* a disabled pick is a stutter *)
Definition step1 (c : cfg) (s : st) (l : label) : st :=
  match step c s l with Some (s', _) => s' | None => s end.

Fixpoint run (c : cfg) (s : st) (sched : list label) : st :=
  match sched with
  | [] => s
  | l :: rest => run c (step1 c s l) rest
  end.

Definition alive (s : st) : bool :=
  match gpc s with GNone | GExit => false | _ => true end.

Definition is_none {A : Type} (o : option A) : bool := match o with None => true | Some _ => false end.

(* no step of the library or of the ticker is enabled (the canceller and the receiver are not consulted) *)
Definition lib_quietb (c : cfg) (s : st) : bool :=
  is_none (step c s LCall) && is_none (step c s (LProd true)) && is_none (step c s (LProd false)) &&
  is_none (step c s (LTick 0)).

Definition rank (p : gpcT) : nat :=
  match p with
  | GNone | GExit => 0 | GClose => 1 | GStop => 2 | GRecheck => 3 | GSelect => 4 | GLoop => 5 | GSend => 6 | GTicker => 6
  end.

Fixpoint nprod (sched : list label) : nat :=
  match sched with
  | [] => 0
  | LProd _ :: r => S (nprod r)
  | _ :: r => nprod r
  end.

Fixpoint nondecb (l : list nat) : bool :=
  match l with
  | [] => true
  | x :: r => match r with [] => true | y :: _ => (x <=? y) && nondecb r end
  end.

(* ---- the monitor evaluated on what a harness can observe of one complete use of the channel:
        count, precancelled (ctx cancelled before the call), cancelled (cancel() was invoked before the close was
        observed), number of values received, max len(c) ever sampled, values whose receive began after cancel()
        returned, whether the close was observed, whether a non-blocking receive right after the call yielded a value,
        whether the received timestamps were non-decreasing, whether the producer goroutine was gone in the end ---- *)
Definition obs_ok (count nrecv maxlen nafter : nat) (precancelled cancelled closed_seen first_imm sorted exited : bool) : bool :=
  (nrecv <=? count) && (maxlen <=? impl_cap) && (nafter <=? impl_cap + 1) && closed_seen && sorted && exited &&
  (if precancelled then nrecv =? 0 else first_imm) &&
  (if cancelled then true else nrecv =? count).

(* the same observation computed from a model state in which the receiver has observed the close *)
Definition obs_of_state (c : cfg) (s : st) : bool :=
  obs_ok (count c) (length (recvd s)) (length (chanq s)) (rac s)
         (match sent s with [] => true | _ => false end) (cancelled s) (rclosed s)
         (match sent s with [] => false | _ => true end) (nondecb (recvd s)) (negb (alive s)).

(* ---- quiescent, sequential view used for the deterministic K1 cases: the producer runs (preferring ctx.Done) until it
        blocks after every operation; Await lets the ticker fire twice ---- *)
Fixpoint settle (c : cfg) (fuel : nat) (s : st) : st :=
  match fuel with
  | 0 => s
  | S f => match step c s (LProd true) with Some (s', _) => settle c f s' | None => s end
  end.

Inductive kop := KCall | KCancel | KRecv | KAwait.
Inductive kout :=
| KRet (len : nat)                 (* LinearAttempt returned; len(c) *)
| KOk
| KVal | KClosed | KEmpty          (* non-blocking receive *)
| KAw (len : nat) (live : bool).   (* after waiting for the producer to block or exit: len(c), producer alive *)

Definition kstep (c : cfg) (s : st) (o : kop) : st * kout :=
  match o with
  | KCall =>
      let s' := settle c 16 (step1 c (step1 c (step1 c s LCall) LCall) LCall) in (s', KRet (length (chanq s')))
  | KCancel => (settle c 16 (step1 c s LCancel), KOk)
  | KRecv =>
      match chanq s with
      | v :: rest => (step1 c s LRecv, KVal)
      | [] => if closed s then (step1 c s LRecv, KClosed) else (s, KEmpty)
      end
  | KAwait =>
      let s1 := settle c 16 (step1 c (settle c 16 s) (LTick 1)) in
      let s2 := settle c 16 (step1 c s1 (LTick 1)) in
      (s2, KAw (length (chanq s2)) (alive s2))
  end.

Fixpoint krun (c : cfg) (s : st) (ops : list kop) : st * list kout :=
  match ops with
  | [] => (s, [])
  | o :: rest => let '(s1, r) := kstep c s o in let '(s2, rs) := krun c s1 rest in (s2, r :: rs)
  end.
