(* C11 — lock discipline of the library (lockset model).

   Two parts, both executable Gallina only:

   A. The abstract concurrent semantics over which data-race freedom is proved (Proofs/Lockset.v): any number of
      threads, each a list of actions, over a mutex / RW-mutex lock-state machine.

   B. The tie to the source: the record type of the facts that the translator harness/cmd/lockx regenerates from
      /repo on every run (Gen/ImplLocksets.v), the HAND-WRITTEN guard table stating how every field of every struct
      of the library is protected, and the executable check [guard_ok].

   What is trusted (DESIGN.md 7): the translator's computation of the held-sets from Go syntax, its access-path
   aliasing, its "fresh" (not yet published) judgement; that sync.Mutex/RWMutex/atomic/channels/go statements
   synchronise as the Go memory model says. What is checked by Coq: that every fact produced by the translator
   obeys the discipline written below, and (generic theorem) that the mutex/atomic/immutable part of such a
   discipline excludes data races in every schedule. *)
From Coq Require Import List String Bool Arith.
Import ListNotations.
Open Scope string_scope.

(* ------------------------------------------------------------------------------------------------------------ *)
(* A. Abstract semantics                                                                                         *)
(* ------------------------------------------------------------------------------------------------------------ *)

Inductive rw := R | W.
Inductive mode := MR | MW.          (* a lock is held in read (RLock) or write (Lock) mode *)

Definition rw_is_w (k : rw) : bool := match k with W => true | R => false end.
Definition mode_is_w (m : mode) : bool := match m with MW => true | MR => false end.

(* How a location is protected in the abstract model. *)
Inductive lguard (lock : Type) :=
| LMutex (l : lock)       (* every access holds l; writes hold it in write mode *)
| LAtomic                 (* only atomic operations *)
| LImmutable.             (* never written (after publication) *)
Arguments LMutex {lock} l.
Arguments LAtomic {lock}.
Arguments LImmutable {lock}.

Section Semantics.
  Variable lock : Type.
  Variable loc : Type.
  Variable lock_eqb : lock -> lock -> bool.

  Inductive action :=
  | Acq (l : lock) (m : mode)      (* Lock / RLock: blocks until compatible *)
  | Rel (l : lock)                 (* Unlock / RUnlock of a lock this thread holds *)
  | Access (x : loc) (k : rw)      (* plain read or write *)
  | AtomicOp (x : loc)             (* sync/atomic operation *)
  | Tau.                           (* anything else (channel operations, calls, ...) *)

  (* cond.Wait() on a cond whose locker is l, held in mode m: releases, then re-acquires. *)
  Definition CondWait (l : lock) (m : mode) : list action := [Rel l; Acq l m].

  Record thread := mkThread { t_prog : list action; t_held : list (lock * mode) }.
  Definition state := list thread.

  Definition holds_any (h : list (lock * mode)) (l : lock) : bool :=
    existsb (fun p => lock_eqb (fst p) l) h.
  Definition holds_w (h : list (lock * mode)) (l : lock) : bool :=
    existsb (fun p => lock_eqb (fst p) l && mode_is_w (snd p)) h.
  (* adequate mode for an access of kind k: write mode for writes, any mode for reads *)
  Definition holds_for (h : list (lock * mode)) (l : lock) (k : rw) : bool :=
    if rw_is_w k then holds_w h l else holds_any h l.

  Fixpoint release (h : list (lock * mode)) (l : lock) : list (lock * mode) :=
    match h with
    | [] => []
    | p :: h' => if lock_eqb (fst p) l then h' else p :: release h' l
    end.

  (* The lock-state machine is the collection of held sets: a lock is write-held if some thread holds it in MW.
     Acq l MW is enabled iff NO thread (the acquirer included: Go mutexes are not reentrant) holds l in any mode;
     Acq l MR is enabled iff no thread holds l in write mode. *)
  Definition can_acq (s : state) (l : lock) (m : mode) : bool :=
    match m with
    | MW => negb (existsb (fun t => holds_any (t_held t) l) s)
    | MR => negb (existsb (fun t => holds_w (t_held t) l) s)
    end.

  (* The effect of an action on the executing thread's own held set. *)
  Definition held_after (h : list (lock * mode)) (a : action) : list (lock * mode) :=
    match a with
    | Acq l m => (l, m) :: h
    | Rel l => release h l
    | _ => h
    end.

  Definition enabled (s : state) (t : thread) (a : action) : bool :=
    match a with
    | Acq l m => can_acq s l m
    | Rel l => holds_any (t_held t) l     (* unlocking a lock one does not hold is a fatal error in Go: stuck *)
    | _ => true
    end.

  Fixpoint set_nth (s : state) (i : nat) (t : thread) : state :=
    match s, i with
    | [], _ => []
    | _ :: s', O => t :: s'
    | u :: s', S i' => u :: set_nth s' i' t
    end.

  (* Thread i takes its next action if it has one and it is enabled; otherwise the state is unchanged. *)
  Definition step (s : state) (i : nat) : state :=
    match nth_error s i with
    | Some t =>
        match t_prog t with
        | a :: p => if enabled s t a
                    then set_nth s i (mkThread p (held_after (t_held t) a))
                    else s
        | [] => s
        end
    | None => s
    end.

  Fixpoint run (s : state) (sched : list nat) : state :=
    match sched with
    | [] => s
    | i :: sched' => run (step s i) sched'
    end.

  (* The discipline, as a symbolic execution of ONE thread's own program: the held set of a thread depends only on
     its own actions, so it can be computed without looking at the other threads. *)
  Variable g : loc -> lguard lock.

  Definition action_ok (h : list (lock * mode)) (a : action) : bool :=
    match a with
    | Access x k =>
        match g x with
        | LMutex l => holds_for h l k
        | LAtomic => false
        | LImmutable => negb (rw_is_w k)
        end
    | AtomicOp x => match g x with LAtomic => true | _ => false end
    | _ => true
    end.

  Fixpoint check_prog (h : list (lock * mode)) (p : list action) : bool :=
    match p with
    | [] => true
    | a :: p' => action_ok h a && check_prog (held_after h a) p'
    end.

  Definition disciplined (s : state) : bool :=
    forallb (fun t => check_prog (t_held t) (t_prog t)) s.
End Semantics.

Arguments Acq {lock loc}. Arguments Rel {lock loc}. Arguments Access {lock loc}.
Arguments AtomicOp {lock loc}. Arguments Tau {lock loc}.
Arguments mkThread {lock loc}. Arguments t_prog {lock loc}. Arguments t_held {lock loc}.

(* ------------------------------------------------------------------------------------------------------------ *)
(* B. Facts regenerated from the source, and the reviewed discipline of the library                              *)
(* ------------------------------------------------------------------------------------------------------------ *)

(* A lock as the translator reports it: the struct that owns the lock field, the lock field (a path such as
   "mutex" or "pongC.L"), and whether the lock belongs to THE SAME OBJECT as the accessed field (same access path
   from the same base variable). A lock of another object never satisfies a guard. *)
Record lockid := mkLock { l_struct : string; l_field : string; l_same : bool }.

Record fact := mkFact {
  f_fn : string;        (* enclosing top-level function or method, e.g. "Buffer.Close" *)
  f_lit : string;       (* "" or the function literal inside it, e.g. "$1$2" *)
  f_struct : string;    (* struct owning the accessed field *)
  f_field : string;
  f_kind : rw;
  f_elem : bool;        (* a write to an element of the map/slice held in the field (not to the field word itself) *)
  f_atomic : bool;      (* a method call on a sync/atomic typed field *)
  f_fresh : bool;       (* through a local object that has not been published yet (or a local struct value) *)
  f_held : list (lockid * mode);
  f_pos : string        (* file:line, for reporting *)
}.

(* One `go` statement: where, what it starts, and which locks the new goroutine starts with (hand-off). *)
Record gostmt := mkGo {
  g_fn : string; g_lit : string; g_target : string; g_inherit : list (lockid * mode); g_pos : string
}.

Inductive exemption :=
| ExLazyInitProviso   (* Buffer.ensure's double-checked reads: "the first call on a zero-value Buffer must complete
                         before the Buffer is shared" — the property's own proviso *)
| ExGoOrdered         (* read by a goroutine of a value written before the `go` statement that (transitively) started
                         it, and not written again until that goroutine signals completion *)
| ExUnpublished       (* read after the object was removed, under its own lock, from the only structure through which
                         writers reach it (writers re-validate membership under the same lock) *)
| ExOnceGuarded       (* executed at most once, inside sync.Once.Do *)
| ExKnownFinding.     (* NOT justified: a genuine data race of the unchanged library, recorded as a finding (see the
                         table entry); kept as an explicit exemption so that every OTHER access stays checked *)

Inductive guard :=
| GMutex (lfield : string)          (* lock field `lfield` of the same object: write mode for writes, any for reads *)
| GAtomic                           (* only through sync/atomic methods *)
| GImmutable                        (* written only while the object is fresh (constructor, before it escapes) *)
| GOwned (fns : list string)        (* owned by one call chain at a time: touched only inside the listed functions
                                       (or while fresh); handed over by value / through a channel *)
| GChanSync (fns : list string)     (* as GOwned; the hand-over between the listed functions is a channel operation *)
| GExempt (fn : string) (k : rw) (why : exemption) (otherwise : guard).
                                    (* accesses of kind k inside top-level function fn are exempt for the stated,
                                       documented reason; every other access obeys `otherwise` *)

Definition rw_eqb (a b : rw) : bool :=
  match a, b with R, R | W, W => true | _, _ => false end.

Definition held_lock (h : list (lockid * mode)) (s lf : string) (need_w : bool) : bool :=
  existsb (fun p => l_same (fst p) && String.eqb (l_struct (fst p)) s && String.eqb (l_field (fst p)) lf
                    && (if need_w then mode_is_w (snd p) else true)) h.

Definition in_fns (fns : list string) (f : string) : bool := existsb (String.eqb f) fns.

Fixpoint guard_sat (g : guard) (fa : fact) : bool :=
  match g with
  | GMutex lf => negb (f_atomic fa) && held_lock (f_held fa) (f_struct fa) lf (rw_is_w (f_kind fa))
  | GAtomic => f_atomic fa
  | GImmutable => negb (f_atomic fa) && negb (rw_is_w (f_kind fa))
  | GOwned fns | GChanSync fns => negb (f_atomic fa) && in_fns fns (f_fn fa)
  | GExempt fn k _ g' => (String.eqb fn (f_fn fa) && rw_eqb k (f_kind fa) && negb (f_atomic fa)) || guard_sat g' fa
  end.

Definition guard_tbl := list ((string * string) * guard).

Fixpoint lookup (t : guard_tbl) (s f : string) : option guard :=
  match t with
  | [] => None
  | ((s', f'), g) :: t' => if String.eqb s s' && String.eqb f f' then Some g else lookup t' s f
  end.

(* A fact is in order if its field is in the table (an unknown field FAILS: new fields must be reviewed) and either
   the access is to a fresh object (only one goroutine can reach it; never for atomics mixed with plain access) or
   the field's guard is satisfied. *)
Definition guard_ok (t : guard_tbl) (fa : fact) : bool :=
  match lookup t (f_struct fa) (f_field fa) with
  | None => false
  | Some g => (f_fresh fa && negb (f_atomic fa)) || guard_sat g fa
  end.

(* The only `go` statement allowed to start with a lock held is the documented hand-off of exclusive.go: the
   goroutine started by Exclusive.call owns item.mutex, which its creator locked and does not touch again. *)
Definition gostmt_ok (g : gostmt) : bool :=
  match g_inherit g with
  | [] => true
  | [(l, MW)] => String.eqb (g_fn g) "Exclusive.call" && String.eqb (g_lit g) ""
                 && String.eqb (l_struct l) "exclusiveItem" && String.eqb (l_field l) "mutex"
  | _ => false
  end.

(* The lazy-initialisation proviso only justifies an unlocked read of a field that is written NOWHERE ELSE than in
   the lazy initialiser: every non-fresh write fact of a field whose entry is `GExempt fn R ExLazyInitProviso _` must
   be inside fn. Writes to the ELEMENTS of a map/slice held in the field do not count: the exempted reads are the
   nil-comparisons of the field word (by inspection of Buffer.ensure). *)
Definition lazyinit_fn (g : guard) : option string :=
  match g with GExempt fn R ExLazyInitProviso _ => Some fn | _ => None end.

Definition lazyinit_confined (t : guard_tbl) (facts : list fact) : bool :=
  forallb (fun fa =>
    match lookup t (f_struct fa) (f_field fa) with
    | Some g => match lazyinit_fn g with
                | Some fn => negb (rw_is_w (f_kind fa)) || f_elem fa || f_fresh fa || String.eqb fn (f_fn fa)
                | None => true
                end
    | None => true
    end) facts.

(* Finding F5 as a predicate on the facts: a locked write of Buffer.cleaner outside Buffer.ensure together with an
   unlocked read of it inside Buffer.ensure. (Diagnostic; true on the unchanged tree, false once repaired.) *)
Definition f5_present (facts : list fact) : bool :=
  existsb (fun fa => String.eqb (f_struct fa) "Buffer" && String.eqb (f_field fa) "cleaner" && rw_is_w (f_kind fa)
                     && negb (f_elem fa) && negb (f_fresh fa) && negb (String.eqb (f_fn fa) "Buffer.ensure")) facts
  && existsb (fun fa => String.eqb (f_struct fa) "Buffer" && String.eqb (f_field fa) "cleaner"
                     && negb (rw_is_w (f_kind fa)) && String.eqb (f_fn fa) "Buffer.ensure"
                     && negb (held_lock (f_held fa) "Buffer" "mutex" false)) facts.

(* ---- the reviewed discipline of the library: one entry per field, each with its justification ---- *)
Definition guard_table : guard_tbl := [
  (* Buffer (bigbuff.go). mutex: sync.RWMutex. The six lazily initialised fields are written only by Buffer.ensure,
     inside the deferred critical section (b.mutex.Lock); ensure's unlocked nil-checks are the double-checked reads
     of the proviso. *)
  (("Buffer", "ctx"),       GExempt "Buffer.ensure" R ExLazyInitProviso (GMutex "mutex"));
  (("Buffer", "cancel"),    GExempt "Buffer.ensure" R ExLazyInitProviso (GMutex "mutex"));
  (("Buffer", "consumers"), GExempt "Buffer.ensure" R ExLazyInitProviso (GMutex "mutex"));
  (("Buffer", "done"),      GExempt "Buffer.ensure" R ExLazyInitProviso (GMutex "mutex"));
  (* FINDING F5 (genuine data race, reported by the race detector on the tree before commit "fix: SetCleanerConfig…"):
     SetCleanerConfig used to REPLACE the pointer b.cleaner (under b.mutex) at any time, so ensure's unlocked
     `b.cleaner == nil` at the start of every other public call raced with it; the proviso (first call completes before
     sharing) does not cover that. Since the repair SetCleanerConfig overwrites the pointee (`*b.cleaner = config`)
     and the pointer is written only by ensure, like the five fields above; [lazyinit_confined] checks exactly that,
     so re-introducing the pointer write breaks C11_impl_lazyinit_confined. *)
  (("Buffer", "cleaner"),   GExempt "Buffer.ensure" R ExLazyInitProviso (GMutex "mutex"));
  (* b.cond is written exactly once, by ensure, in the critical section that then executes `go b.cleanup()`. Since the
     repair of finding F3 (989b0cf) the cleaner's timer goroutine re-broadcasts holding b.mutex, so every read outside
     ensure is under the mutex. (Before that repair the timer goroutine read b.cond holding only the cleaner's private
     mutex: ordered after the single write by the chain of go statements — a lost wake-up, not a data race; this
     table would then need `GExempt "Buffer.cleanup" R ExGoOrdered` here.) *)
  (("Buffer", "cond"),      GExempt "Buffer.ensure" R ExLazyInitProviso (GMutex "mutex"));
  (* the message buffer and its base offset: Put/cleanupLogic write under Lock, get/Slice/Size/Diff read under RLock *)
  (("Buffer", "buffer"),    GMutex "mutex");
  (("Buffer", "offset"),    GMutex "mutex");

  (* CleanerConfig: a value copied in and out under b.mutex: SetCleanerConfig overwrites the whole pointee under Lock
     (`*b.cleaner = config`), CleanerConfig() returns a copy under RLock, the cleaner reads the fields under Lock.
     The translator records field selections only, so the two whole-struct accesses are not facts (trusted: they are
     under b.mutex by inspection); every field-wise access is a read. *)
  (("CleanerConfig", "Cleaner"),  GImmutable);
  (("CleanerConfig", "Cooldown"), GImmutable);
  (* FixedBufferCleanerNotification: built as a literal, passed by value to the callback *)
  (("FixedBufferCleanerNotification", "Max"), GImmutable);
  (("FixedBufferCleanerNotification", "Target"), GImmutable);
  (("FixedBufferCleanerNotification", "Size"), GImmutable);
  (("FixedBufferCleanerNotification", "Offsets"), GImmutable);
  (("FixedBufferCleanerNotification", "Trim"), GImmutable);

  (* consumer (consumer.go). Everything but offset is set by Buffer.NewConsumer before the consumer escapes (before
     its watcher goroutine is started and before it is stored in b.consumers). *)
  (("consumer", "cond"),     GImmutable);
  (("consumer", "done"),     GImmutable);
  (("consumer", "ctx"),      GImmutable);
  (("consumer", "cancel"),   GImmutable);
  (("consumer", "producer"), GImmutable);
  (("consumer", "offset"),   GMutex "mutex");   (* uncommitted read offset: Get/Commit/Rollback/Close and Buffer.Diff *)

  (* Channel (channel.go): configuration set by NewChannel before `go c.cleanup()`; buffer/rollback under c.mutex *)
  (("Channel", "valid"),    GImmutable);
  (("Channel", "source"),   GImmutable);
  (("Channel", "ctx"),      GImmutable);
  (("Channel", "cancel"),   GImmutable);
  (("Channel", "done"),     GImmutable);
  (("Channel", "rate"),     GImmutable);
  (("Channel", "buffer"),   GMutex "mutex");
  (("Channel", "rollback"), GMutex "mutex");

  (* ChanCaster (chancaster.go): C is set at construction (exported; the contract forbids reassigning it); state is
     a sync/atomic word *)
  (("ChanCaster", "C"),     GImmutable);
  (("ChanCaster", "state"), GAtomic);

  (* ChanPubSub (chanpubsub.go): pongN is the only plain mutable field, guarded by the cond's locker x.pongC.L;
     pongC and broken are set by NewChanPubSub on the local value it then returns; subscribers is atomic *)
  (("ChanPubSub", "pongC"),       GImmutable);
  (("ChanPubSub", "broken"),      GImmutable);
  (("ChanPubSub", "pongN"),       GMutex "pongC.L");
  (("ChanPubSub", "subscribers"), GAtomic);

  (* Exclusive (exclusive.go): the key -> item map *)
  (("Exclusive", "work"), GMutex "mutex");
  (* exclusiveItem: mutex/cond are shared by an item and its successor and set in the literal that creates the item;
     all other fields are accessed holding item.mutex — by Exclusive.call, and by the goroutine it starts, which
     STARTS HOLDING item.mutex (lock hand-off, see gostmt_ok). *)
  (("exclusiveItem", "mutex"),    GImmutable);
  (("exclusiveItem", "cond"),     GImmutable);
  (("exclusiveItem", "ts"),       GMutex "mutex");
  (* item.work is read by the runner goroutine after it released item.mutex: by then it has, under item.mutex and
     e.mutex, replaced the map entry by the successor item, and writers (Exclusive.call) write item.work only after
     re-validating e.work[key] == item under both locks — so no write can follow. *)
  (("exclusiveItem", "work"),     GExempt "Exclusive.call" R ExUnpublished (GMutex "mutex"));
  (("exclusiveItem", "wait"),     GMutex "mutex");
  (("exclusiveItem", "running"),  GMutex "mutex");
  (("exclusiveItem", "complete"), GMutex "mutex");
  (("exclusiveItem", "count"),    GMutex "mutex");
  (("exclusiveItem", "result"),   GMutex "mutex");
  (("exclusiveItem", "err"),      GMutex "mutex");
  (* exclusiveConfig: a local of CallWithOptions filled in by the option closures it calls synchronously, then
     passed BY VALUE to Exclusive.call, whose goroutine only reads its copy *)
  (("exclusiveConfig", "key"),      GOwned ["ExclusiveKey"; "Exclusive.CallWithOptions"; "Exclusive.call"]);
  (("exclusiveConfig", "work"),     GOwned ["ExclusiveWork"; "Exclusive.CallWithOptions"; "Exclusive.call"]);
  (("exclusiveConfig", "wait"),     GOwned ["ExclusiveWait"; "Exclusive.CallWithOptions"; "Exclusive.call"]);
  (("exclusiveConfig", "start"),    GOwned ["ExclusiveStart"; "Exclusive.CallWithOptions"; "Exclusive.call"]);
  (("exclusiveConfig", "wrappers"), GOwned ["ExclusiveWrapper"; "Exclusive.CallWithOptions"]);
  (* ExclusiveOutcome: built as a literal, then sent on the (buffered) outcome channel *)
  (("ExclusiveOutcome", "Result"), GImmutable);
  (("ExclusiveOutcome", "Error"),  GImmutable);

  (* Workers (workers.go): everything under w.mutex; cond is created lazily under it *)
  (("Workers", "cond"),   GMutex "mutex");
  (("Workers", "count"),  GMutex "mutex");
  (("Workers", "target"), GMutex "mutex");
  (("Workers", "queue"),  GMutex "mutex");
  (* a queue element: built as a literal by Call, appended under w.mutex, popped under w.mutex by a worker, which
     then only reads it *)
  (("struct{value,output}", "value"),  GImmutable);
  (("struct{value,output}", "output"), GImmutable);
  (* the worker's / Call's result value: a local struct value sent BY VALUE on the output channel *)
  (("struct{result,error}", "result"), GChanSync ["Workers.worker"; "Workers.Call"]);
  (("struct{result,error}", "error"),  GChanSync ["Workers.worker"; "Workers.Call"]);
  (* getAsync's result value: a local of its goroutine sent BY VALUE on `out`, received by consumer.Get *)
  (("struct{Value,Error}", "Value"), GChanSync ["Buffer.getAsync"; "consumer.Get"]);
  (("struct{Value,Error}", "Error"), GChanSync ["Buffer.getAsync"; "consumer.Get"]);

  (* Worker (worker.go): under x.mu. Worker.do (started by `go x.do(fn)` from Do right after Do stored stop/done
     under x.mu) reads x.stop and x.done without the lock: ordered after those writes by the go statement; the only
     later writes (Worker.wait resetting both to nil) happen after wait received from x.done, which do closes last. *)
  (("Worker", "wg"),   GMutex "mu");
  (("Worker", "stop"), GExempt "Worker.do" R ExGoOrdered (GMutex "mu"));
  (("Worker", "done"), GExempt "Worker.do" R ExGoOrdered (GMutex "mu"));

  (* Notifier (notifier.go): the subscription map; Subscribe/Unsubscribe under Lock, Publish under RLock *)
  (("Notifier", "subscribers"), GMutex "mutex");
  (* notifierSubscriber: map VALUES; only ever accessed through local copies *)
  (("notifierSubscriber", "ctx"),    GImmutable);
  (("notifierSubscriber", "target"), GImmutable);

  (* Not concurrency-safe types, outside C11's claim, listed so that every fact has an entry: *)
  (* fatalError: an error value, built as a literal, read through value receivers *)
  (("fatalError", "err"), GImmutable);
  (* callable: wraps a reflect.Value at construction *)
  (("callable", "callableValue"), GImmutable);
  (* callConfig: a local of Call, filled in by the options it invokes synchronously *)
  (("callConfig", "this"),    GOwned ["Call"; "CallArgs"; "CallArgsRaw"; "CallResults"; "CallResultsRaw"; "CallResultsSlice"]);
  (("callConfig", "args"),    GOwned ["Call"; "CallArgs"; "CallArgsRaw"; "CallResults"; "CallResultsRaw"; "CallResultsSlice"]);
  (("callConfig", "results"), GOwned ["Call"; "CallArgs"; "CallArgsRaw"; "CallResults"; "CallResultsRaw"; "CallResultsSlice"])
].
