(* Model of bigbuff.ChanCaster's state word (chancaster.go), sequential view.

   The Go field `state atomic.Uint64` is a Z with 0 <= w < 2^64; hi = w >> 32 ("receivers"), lo = uint32(w)
   ("tracker").  Every uint32 / uint64 operation of the Go text is written with its wrap-around explicit, in the
   order the Go text performs it; in particular the atomic add of `Add` happens BEFORE the validation, so the
   word returned by `add` is the modified one even when the outcome is `AddPanic`.
   Executable definitions only; proofs are in Proofs/Caster.v. *)
From Coq Require Import ZArith Bool.
Local Open Scope Z_scope.

Definition two32 : Z := 2 ^ 32.
Definition two64 : Z := 2 ^ 64.
Definition maxi  : Z := 2 ^ 31 - 1.          (* math.MaxInt32 = maxReceivers *)

Definition hi (w : Z) : Z := w / two32.       (* uint32(state >> 32) *)
Definition lo (w : Z) : Z := w mod two32.     (* uint32(state) *)
Definition mkword (h l : Z) : Z := h * two32 + l.   (* uint64(h)<<32 | uint64(l), for 32-bit h and l *)
Definition u32 (x : Z) : Z := x mod two32.    (* conversion to / arithmetic in uint32 *)

(* ---------------------------------------------------------------------------------------------- Add *)

Inductive add_out :=
| AddRet (n absorb : Z)   (* returned receiver count; number of `<-x.C` receives performed before returning *)
| AddPanic.

(* chancaster.go:153-157, `state` being the value loaded / returned by the atomic add, delta >= 0 *)
Definition validate_pos (state delta : Z) : add_out :=
  let receivers := hi state in
  let tracker := lo state in
  if (receivers <=? maxi)
     && (u32 delta <=? receivers)
     && ((receivers =? tracker) || ((delta =? 0) && (u32 (receivers + maxi) =? tracker)))
  then AddRet receivers 0
  else AddPanic.

(* chancaster.go:171-186, `delta` already flipped to positive *)
Definition validate_neg (state delta : Z) : add_out :=
  let receivers := hi state in
  if (receivers <=? maxi) && (u32 delta <=? u32 (maxi - receivers)) then
    if lo state =? receivers then AddRet receivers 0                       (* not sending *)
    else if lo state =? u32 (maxi + receivers) then AddRet receivers delta (* sending: `for range delta { <-x.C }` *)
    else AddPanic
  else AddPanic.

Definition add (w delta : Z) : Z * add_out :=
  if 0 <=? delta then
    if delta =? 0 then (w, validate_pos w 0)                               (* state.Load() *)
    else if maxi <? delta then (w, AddPanic)                               (* positive delta out of bounds *)
    else
      let w' := (w + (delta * two32 + delta)) mod two64 in                 (* state.Add(uint64(delta)<<32 | uint64(uint32(delta))) *)
      (w', validate_pos w' delta)
  else if delta <? - maxi then (w, AddPanic)                               (* negative delta out of bounds *)
  else
    let d := - delta in
    let w' := (w - (d * two32 + d)) mod two64 in                           (* state.Add(^(uint64(d)<<32 | uint64(uint32(d)) - 1)) *)
    (w', validate_neg w' d).

(* --------------------------------------------------------------------------------------------- Send *)

Inductive send_begin_out :=
| SbZero                     (* `return 0`: fast path (and, sequentially, the identical slow-path test) *)
| SbPanic                    (* send: state invariant violation, before arming *)
| SbArmed (receivers : Z).   (* CAS succeeded; `receivers` copies will now be sent on C *)

(* chancaster.go:54-86 with no concurrent writer of the word (the CAS succeeds first time) *)
Definition send_begin (w : Z) : Z * send_begin_out :=
  if w =? 0 then (w, SbZero)
  else
    let receivers := hi w in
    let tracker := lo w in
    if negb (tracker =? receivers) || (maxi <? receivers) then (w, SbPanic)
    else (mkword receivers (u32 (tracker + maxi)), SbArmed receivers).

Inductive send_end_out :=
| SeRet (n : Z)
| SePanic.

(* chancaster.go:96-105; `receivers` is the local variable set when arming; the CAS to 0 succeeds sequentially *)
Definition send_end (receivers w : Z) : Z * send_end_out :=
  let tracker := hi w in
  if (receivers <? tracker) || negb (lo w =? u32 (tracker + maxi)) then (w, SePanic)
  else (0, SeRet tracker).

(* The same final step with the load and the CAS kept apart: [wl] is the word loaded (and validated), [wc] the word
   the CompareAndSwap(state, 0) finds.  The CAS is the last disjunct of the `if`, so it is attempted only when the
   two validations passed; when it fails the call panics and the word stays [wc]. *)
Definition send_end_cas (receivers wl wc : Z) : Z * send_end_out :=
  match snd (send_end receivers wl) with
  | SePanic => (wc, SePanic)
  | SeRet n => if wc =? wl then (0, SeRet n) else (wc, SePanic)
  end.
