(* Model/CleanerProto.v — the wake-up protocol of the Buffer cleaner goroutine.

   Source: /repo/buffer.go, func (b *Buffer) cleanup()   (lines 470-560)
           /repo/sync.go,   func WaitCond                 (the loop the cleaner sits in)

   Threads
   -------
   * the cleaner goroutine:   b.mutex.Lock(); WaitCond(b.ctx, b.cond, func() bool { cleanup(d); return false })
     i.e. for ever:  fn() ; cond.Wait().  cond.Wait() has the notify-list semantics of sync.Cond
     (DESIGN 3.4):  enqueue a ticket while still holding L  (ClEnq);  L.Unlock()  (ClUnlock);
     park until the ticket has been notified (ClParked);  L.Lock()  (ClRelock).
   * at most one "self removing" timer goroutine, spawned by cleanup(d) when d > 0:
       <-timer.C                                                  (TmWait; "fire" is enabled at any time)
       [repaired protocol only:  b.mutex.Lock()]                   (TmLockB)
       mutex.Lock(); timer = nil;
       if broadcast { b.cond.Broadcast(); broadcast = false }; mutex.Unlock()      (TmSect)
       [repaired protocol only:  b.mutex.Unlock()]                 (TmUnlockB)
   * [chg] external state changes still to come (Put, commit, delete, NewConsumer): each is one critical
     section  b.mutex.Lock(); modify; b.cond.Broadcast(); b.mutex.Unlock()  — one atomic step, enabled when the
     Buffer mutex is free.

   [fixed = true] is the code as it is in /repo since commit 989b0cf (finding F3): the timer goroutine's deferred function does
       b.mutex.Lock(); mutex.Lock(); timer = nil; if broadcast { b.cond.Broadcast(); broadcast = false };
       mutex.Unlock(); b.mutex.Unlock().
   [fixed = false] is the protocol before that commit: the timer goroutine re-broadcast holding only the inner mutex of
   cleanup() (kept for the refutation theorem).
   [cooldown_pos] is  b.cleaner.Cooldown > 0.

   The inner mutex
   ---------------
   cleanup(d)'s body runs under the inner [mutex] (a local of Buffer.cleanup), and so does the deferred function
   of the timer goroutine.  At the granularity chosen here the step ClFn is the WHOLE body of cleanup(d) and the
   step TmSect is the WHOLE deferred function between mutex.Lock() and mutex.Unlock(); each is one atomic step,
   so their mutual exclusion — all the inner mutex provides — is implicit and the inner mutex has no field.
   (Blocking on the inner mutex cannot deadlock: a holder of the inner mutex never waits for anything while it
   holds it; in the repaired protocol the lock order is always b.mutex, then mutex.)

   What is abstracted
   ------------------
   * [dirty] = "some external change has not yet been seen by a cleanupLogic() call".  cleanupLogic() reads the
     whole state under b.mutex, so one call accounts for every change made before it.
   * cleanupLogic() itself calls b.cond.Broadcast() when it shifts.  It does so inside fn(), holding b.mutex,
     when the cleaner's own ticket is not in the notify list (Proofs: cl = ClFn -> inq = false), so it is a no-op
     for this protocol and is not modelled.
   * b.ctx is never cancelled here; the ctx check of WaitCond and its watcher goroutine (which is parked on
     <-ctx.Done() for the whole run) are omitted.  Shutdown is the subject of Model/WaitCond.v.
   * b.mutex is a sync.RWMutex; readers do not change any field of this model and are omitted.
   * At most one timer goroutine exists at a time ([tm : option tmpc]).  A new one is spawned only when
     [timer = false]; Proofs shows that then no timer goroutine is alive (repaired protocol) — in the unrepaired
     protocol TmSect is the goroutine's last step, so the same holds by construction.

   Executable definitions only; no proofs in this file. *)

From Coq Require Import List Bool Arith.
Import ListNotations.

Inductive clpc := ClLock | ClFn | ClEnq | ClUnlock | ClParked | ClRelock.
Inductive tmpc := TmWait | TmLockB | TmSect | TmUnlockB.
Inductive owner := Nobody | OCl | OTm.
Inductive pick := PCl | PTm | PChg.

(* The finite control. *)
Record ctl := mkctl {
  cl    : clpc;            (* cleaner goroutine *)
  tm    : option tmpc;     (* timer goroutine, None = none alive *)
  bmu   : owner;           (* Buffer.mutex (write side) *)
  inq   : bool;            (* the cleaner's ticket is in b.cond's notify list and has not been notified *)
  timer : bool;            (* cleanup()'s local  timer != nil *)
  bflag : bool;            (* cleanup()'s local  broadcast *)
  dirty : bool             (* a change not yet seen by cleanupLogic (ghost) *)
}.

(* Whole state: finite control + the number of external changes still to come. *)
Record st := mkst { ctl_of :> ctl; chg : nat }.

Definition owner_free (o : owner) : bool := match o with Nobody => true | _ => false end.

(* One step of the cleaner goroutine. *)
Definition cl_step (cooldown_pos : bool) (c : ctl) : option ctl :=
  match cl c with
  | ClLock | ClRelock =>                             (* b.mutex.Lock()  /  the L.Lock() at the end of cond.Wait() *)
      if owner_free (bmu c)
      then Some (mkctl ClFn (tm c) OCl (inq c) (timer c) (bflag c) (dirty c))
      else None
  | ClFn =>                                          (* fn(): the whole of cleanup(d), under the inner mutex *)
      if timer c
      then (* timer != nil: broadcast = true; return *)
           Some (mkctl ClEnq (tm c) (bmu c) (inq c) (timer c) true (dirty c))
      else if cooldown_pos
      then (* cleanupLogic(); timer = NewTimer(d); broadcast = false; go func(){...}() *)
           Some (mkctl ClEnq (Some TmWait) (bmu c) (inq c) true false false)
      else (* cleanupLogic(); d <= 0: return *)
           Some (mkctl ClEnq (tm c) (bmu c) (inq c) (timer c) (bflag c) false)
  | ClEnq =>                                         (* cond.Wait(): t := notifyListAdd *)
      Some (mkctl ClUnlock (tm c) (bmu c) true (timer c) (bflag c) (dirty c))
  | ClUnlock =>                                      (* cond.Wait(): L.Unlock() *)
      Some (mkctl ClParked (tm c) Nobody (inq c) (timer c) (bflag c) (dirty c))
  | ClParked =>                                      (* cond.Wait(): notifyListWait returns once notified *)
      if inq c then None
      else Some (mkctl ClRelock (tm c) (bmu c) (inq c) (timer c) (bflag c) (dirty c))
  end.

(* One step of the timer goroutine. *)
Definition tm_step (fixed : bool) (c : ctl) : option ctl :=
  match tm c with
  | None => None
  | Some TmWait =>                                   (* <-timer.C returns: the timer fired *)
      Some (mkctl (cl c) (Some (if fixed then TmLockB else TmSect)) (bmu c) (inq c) (timer c) (bflag c) (dirty c))
  | Some TmLockB =>                                  (* repaired only: b.mutex.Lock() *)
      if owner_free (bmu c)
      then Some (mkctl (cl c) (Some TmSect) OTm (inq c) (timer c) (bflag c) (dirty c))
      else None
  | Some TmSect =>                                   (* mutex.Lock(); timer = nil; if broadcast {Broadcast; broadcast = false}; mutex.Unlock() *)
      Some (mkctl (cl c) (if fixed then Some TmUnlockB else None) (bmu c)
                  (if bflag c then false else inq c) false false (dirty c))
  | Some TmUnlockB =>                                (* repaired only: b.mutex.Unlock(); the goroutine ends *)
      Some (mkctl (cl c) None Nobody (inq c) (timer c) (bflag c) (dirty c))
  end.

(* One external change: lock; modify; Broadcast; unlock.  (That one is still to come is checked in [step].) *)
Definition chg_step (c : ctl) : option ctl :=
  if owner_free (bmu c)
  then Some (mkctl (cl c) (tm c) (bmu c) false (timer c) (bflag c) true)
  else None.

Definition cstep (fixed cooldown_pos : bool) (c : ctl) (p : pick) : option ctl :=
  match p with
  | PCl => cl_step cooldown_pos c
  | PTm => tm_step fixed c
  | PChg => chg_step c
  end.

Definition step (fixed cooldown_pos : bool) (s : st) (p : pick) : option st :=
  match p with
  | PChg =>
      match chg s with
      | 0 => None
      | S k => option_map (fun c => mkst c k) (cstep fixed cooldown_pos s PChg)
      end
  | _ => option_map (fun c => mkst c (chg s)) (cstep fixed cooldown_pos s p)
  end.

(* [broadcast] starts as true and [timer] as nil in buffer.go; the cleaner goroutine starts before b.mutex.Lock(). *)
Definition init (n : nat) (dirty0 : bool) : st :=
  mkst (mkctl ClLock None Nobody false false true dirty0) n.

(* A schedule is a list of picks; a disabled pick is a stutter. *)
Fixpoint run (fixed cooldown_pos : bool) (s : st) (sched : list pick) : st :=
  match sched with
  | [] => s
  | p :: r =>
      match step fixed cooldown_pos s p with
      | Some s' => run fixed cooldown_pos s' r
      | None => run fixed cooldown_pos s r
      end
  end.

Definition all_pick : list pick := [PCl; PTm; PChg].

Definition enabled (fixed cooldown_pos : bool) (s : st) (p : pick) : bool :=
  match step fixed cooldown_pos s p with Some _ => true | None => false end.

(* No thread can move: the cleaner is parked, no timer goroutine is alive (or it is stuck), no change is left. *)
Definition is_terminal (fixed cooldown_pos : bool) (s : st) : bool :=
  forallb (fun p => negb (enabled fixed cooldown_pos s p)) all_pick.

(* The step taken is a timer firing (<-timer.C returning). *)
Definition is_fire (s : st) (p : pick) : bool :=
  match p, tm s with PTm, Some TmWait => true | _, _ => false end.

(* Number of timer firings along a schedule. *)
Fixpoint fires (fixed cooldown_pos : bool) (s : st) (sched : list pick) : nat :=
  match sched with
  | [] => 0
  | p :: r =>
      match step fixed cooldown_pos s p with
      | Some s' => (if is_fire s p then 1 else 0) + fires fixed cooldown_pos s' r
      | None => fires fixed cooldown_pos s r
      end
  end.

(* Number of effective (non-stutter) steps along a schedule. *)
Fixpoint moves (fixed cooldown_pos : bool) (s : st) (sched : list pick) : nat :=
  match sched with
  | [] => 0
  | p :: r =>
      match step fixed cooldown_pos s p with
      | Some s' => S (moves fixed cooldown_pos s' r)
      | None => moves fixed cooldown_pos s r
      end
  end.
