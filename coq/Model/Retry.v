(* Model of bigbuff.ExponentialRetry (retry.go:50-97) and FatalError / unpackFatalError / isFatalError
   (bigbuff.go:219-221, 364-387).

   The closure returned by ExponentialRetry is sequential code; its environment is
     (i)   the operation `value`: a SCRIPT, the k-th call of value() consumes the k-th outcome (result, error);
     (ii)  the context: cancelled at most once, at a point of the linear event order
             0        before the first ctx.Err() check,
             2k-1     while call number k (k >= 1) is running,
             2k       while the wait after call number k is running
           (a cancellation between two of these points is observed exactly like one at the earlier point, because the
           closure looks at the context only in `ctx.Err()` before each attempt and in waitDuration's select);
     (iii) the random source: an oracle `rnd i n` = the value rand.Int63n(n) returns for the i-th delay computation.
   The two package-level seams of retry.go (`calcExponentialRetry`, `waitDuration` are replaceable vars) are mirrored:
   `loop` takes the delay function as a parameter; `run` plugs in the real one (`calc_real`), `run_seam` a recorded one.
   Explicit bool flags select defective variants for the refutation theorems; `faithful` is the code as it is.
   Executable definitions only; proofs are in Proofs/Retry.v. *)
From Coq Require Import List ZArith Bool Arith.
Import ListNotations.
Open Scope Z_scope.

(* ---- errors: a base (non-fatal) error identified by a number, or a fatalError{err: inner} wrapper ---- *)
Inductive err :=
| EBase (id : Z)
| EFatal (inner : err).

(* bigbuff.go:375-382 *)
Fixpoint unpack (e : err) : err :=
  match e with
  | EFatal inner => unpack inner
  | EBase _ => e
  end.

(* bigbuff.go:384-387: a type assertion on the OUTERMOST value *)
Definition is_fatal (e : err) : bool :=
  match e with
  | EFatal _ => true
  | EBase _ => false
  end.

(* FatalError applied `depth` times *)
Fixpoint wrap (depth : nat) (e : err) : err :=
  match depth with
  | O => e
  | S d => EFatal (wrap d e)
  end.

(* ---- what one call of value() returns: (interface{}, error); None = nil ---- *)
Record outcome := mkO { o_res : option Z; o_err : option err }.

Definition OSuccess (r : option Z) : outcome := mkO r None.
(* an error wrapped by FatalError `depth` times (depth = 0: a plain error), possibly with a non-nil result *)
Definition OFatal (depth : nat) (r : option Z) (e : Z) : outcome := mkO r (Some (wrap depth (EBase e))).
Definition OPlain (e : Z) : outcome := OFatal 0 None e.

(* ---- defect switches (all false = the code as it is) ---- *)
Record flags := mkF {
  inc_late     : bool;  (* the counter is incremented at the end of the loop body (after the delay was computed) *)
  unwrap_one   : bool;  (* the fatal wrapper is removed one level only *)
  fatal_inner  : bool;  (* the fatal test looks at the unwrapped error instead of the outermost one *)
  no_ctx_check : bool   (* no ctx.Err() check before an attempt *)
}.
Definition faithful : flags := mkF false false false false.

(* ---- constants of retry.go:26-29 ---- *)
Definition max_shift_go : Z := 31.
Definition default_rate_go : Z := 300000000.   (* time.Millisecond * 300, in ns *)

(* ---- machine arithmetic ---- *)
Definition u32 (x : Z) : Z := x mod 2 ^ 32.
Definition i64 (x : Z) : Z := (x + 2 ^ 63) mod 2 ^ 64 - 2 ^ 63.

(* retry.go:91-95: `if c > maxShiftUint32 { c = maxShiftUint32 }; c = 1 << c` in a uint32 *)
Definition calc_n (max_shift c : Z) : Z :=
  u32 (2 ^ (if max_shift <? c then max_shift else c)).

(* retry.go:96: `time.Duration(rand.Int63n(int64(c))) * d`; Int63n panics for n <= 0 (None); the product is an int64 *)
Definition calc_real (max_shift : Z) (rnd : nat -> Z -> Z) (i : nat) (rate c : Z) : option Z :=
  let n := calc_n max_shift c in
  if n <=? 0 then None else Some (i64 (rnd i n * rate)).

(* ---- what the closure returns / what was observed ---- *)
Inductive rerr :=
| RNil                (* nil error *)
| RErr (e : err)      (* the (unpacked) error of the operation *)
| RCtx                (* ctx.Err() *)
| RExhausted          (* the script ran out: the real closure would call value() again *)
| RPanic.             (* rand.Int63n panicked (only reachable when max_shift > 31) *)

Inductive wait_how :=
| WNone      (* d <= 0: waitDuration returns at once, no timer *)
| WCut       (* the select returned through ctx.Done(): the wait did not need the timer *)
| WTimer.    (* the select returned through timer.C after the full delay *)

Record wait_rec := mkW {
  w_rate : Z;        (* first argument of calcExponentialRetry *)
  w_c    : Z;        (* second argument of calcExponentialRetry *)
  w_d    : Z;        (* its result = second argument of waitDuration *)
  w_done : bool;     (* ctx already cancelled when waitDuration is entered *)
  w_how  : wait_how
}.

Record result := mkR {
  calls : nat;            (* number of value() calls started *)
  res   : option Z;       (* returned result *)
  ret   : rerr;           (* returned error *)
  waits : list wait_rec   (* one record per retry delay, in order *)
}.

(* retry.go:79-89 as a two-case select: the call returns iff ... *)
Definition wait_returns (d : Z) (ctx_done timer_fired : bool) : bool :=
  (d <=? 0) || ctx_done || timer_fired.

Definition wait_how_of (d : Z) (ctx_done : bool) : wait_how :=
  if d <=? 0 then WNone else if ctx_done then WCut else WTimer.

Section Loop.
  Variable fl : flags.
  Variable max_shift : Z.
  Variable calc : nat -> Z -> Z -> option Z.   (* the calcExponentialRetry seam: index of the delay, rate, c *)
  Variable cancel_at : option nat.
  Variable rate : Z.                           (* already defaulted *)

  (* is the context cancelled once event number `now` of the linear order has happened? *)
  Definition cancelled_by (now : nat) : bool :=
    match cancel_at with
    | Some t => Nat.leb t now
    | None => false
    end.

  (* retry.go:66-68 `if c < maxShiftUint32 { c++ }` on a uint32 *)
  Definition bump (c : Z) : Z := if c <? max_shift then u32 (c + 1) else c.

  Definition fatal_test (e : err) : bool :=
    if fatal_inner fl then is_fatal (unpack e) else is_fatal e.

  Definition unpack_impl (e : err) : err :=
    if unwrap_one fl then match e with EFatal inner => inner | EBase _ => e end else unpack e.

  (* retry.go:62-75. `k` = number of calls already made, `c` = the counter at the top of the loop body. *)
  Fixpoint loop (script : list outcome) (k : nat) (c : Z) : result :=
    if negb (no_ctx_check fl) && cancelled_by (2 * k) then mkR 0 None RCtx []          (* :63-65 *)
    else
      match script with
      | [] => mkR 0 None RExhausted []
      | o :: rest =>
          let c1 := if inc_late fl then c else bump c in                               (* :66-68 *)
          match o_err o with                                                           (* :69 value() *)
          | None => mkR 1 (o_res o) RNil []                                            (* :70 *)
          | Some e =>
              if fatal_test e then mkR 1 (o_res o) (RErr (unpack_impl e)) []           (* :71-72 *)
              else
                match calc k rate c1 with                                              (* :74 *)
                | None => mkR 1 None RPanic []
                | Some d =>
                    let w := mkW rate c1 d (cancelled_by (2 * k + 1))
                                 (wait_how_of d (cancelled_by (2 * k + 2))) in
                    let r := loop rest (S k) (if inc_late fl then bump c else c1) in
                    mkR (S (calls r)) (res r) (ret r) (w :: waits r)
                end
          end
      end.
End Loop.

(* retry.go:54-56 *)
Definition eff_rate (default_rate rate : Z) : Z := if rate <=? 0 then default_rate else rate.

(* one invocation of the closure returned by ExponentialRetry(ctx, rate, value) *)
Definition run (fl : flags) (max_shift default_rate : Z) (rnd : nat -> Z -> Z) (cancel_at : option nat)
               (rate : Z) (script : list outcome) : result :=
  loop fl max_shift (calc_real max_shift rnd) cancel_at (eff_rate default_rate rate) script 0 0.

(* ---- entry points of the correspondence checker ---- *)

(* the harness replaces calcExponentialRetry by a function that returns the i-th element of a list it chose *)
Definition calc_list (ds : list Z) (i : nat) (rate c : Z) : option Z := Some (nth i ds 0).

Definition run_seam (cancel_at : option nat) (ds : list Z) (rate : Z) (script : list outcome) : result :=
  loop faithful max_shift_go (calc_list ds) cancel_at (eff_rate default_rate_go rate) script 0 0.

(* the real calcExponentialRetry, with Int63n on a power of two n given by the low bits of the raw draw *)
Definition calc_exact (rate c raw : Z) : option Z :=
  calc_real max_shift_go (fun _ n => raw mod n) 0 rate c.

(* is d a whole number j of slots of length rate (> 0) with 0 <= j < 2^min(c,31)? *)
Definition slot_ok (rate c d : Z) : bool :=
  (0 <? rate) && (d mod rate =? 0) && (0 <=? d / rate) && (d / rate <? 2 ^ Z.min c max_shift_go).
