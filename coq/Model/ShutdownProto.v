(* Model/ShutdownProto.v — Buffer shutdown and a parked Get at lock-operation granularity.

   Sources: /repo/buffer.go   Close 27-53, Put 64-84, NewConsumer's watcher 106-110, Diff 183-210, delete 245-253,
                              commit 256-274, get 278-307, getAsync 315-389
            /repo/consumer.go Close 27-53, Get 63-103, Commit 105-121, Rollback 123-135
            /repo/sync.go     WaitCond 30-70
            /repo/context.go  CombineContext 118-161

   One Buffer (its RWMutex b.mutex, its cond b.cond on the write side, its context b.ctx) and ONE consumer (c.mutex,
   c.cond, c.ctx = WithCancel(b.ctx), its watcher goroutine).  A step is one lock acquisition or release, one
   cond.Wait sub-operation, one Broadcast, one context cancel, one channel operation or one branch on shared data.

   Threads (one field each, the program counter)
     bc   a Buffer.Close caller                                   buffer.go:27-53
     cw   the consumer's watcher goroutine: <-c.ctx.Done(); c.Close()          buffer.go:106-110
     cc   an explicit consumer.Close caller                       consumer.go:27-53
     cl   the body of consumer.Close, run by whichever of cw / cc won c.close (sync.Once); the loser blocks in Do until
          the winner's body has returned, then returns the "only once" error
     g    a consumer.Get caller                                   consumer.go:63-103 + getAsync's synchronous part 321-331
     ga   getAsync's goroutine: b.mutex.Lock(); WaitCond(CombineContext(...), b.cond, get); out <- result   342-384
     gw   WaitCond's watcher goroutine                            sync.go:50-62
     af   CombineContext's AfterFunc registrations on c.ctx and b.ctx (callback: cancel the combined context, in its
          own goroutine).  c.ctx is a child of b.ctx, so the b.ctx registration fires only when the c.ctx one does and
          calls the same idempotent cancel; ONE registration stands for both.
     afs  CombineContext's AfterFunc(combined, stops.Stop): deregisters [af] once the combined context is cancelled
     d    a Buffer.Diff caller                                    buffer.go:183-210
     cr   a Commit / Rollback caller                              consumer.go:105-135, buffer.go:256-274
     p    a Put caller                                            buffer.go:64-84
     and a canceller of the context passed to Get ([ucanc]).

   Primitives (DESIGN 3)
   * b.mutex (sync.RWMutex): Lock() is two steps — *Ann: take the writer slot ([bw], enabled iff it is free; from
     then on new RLock()s block, "writer pending"), *Acq: wait until no reader is left ([br] = 0).  RLock() is enabled
     iff no writer has announced.  Unlock() frees the slot.
   * c.mutex (sync.Mutex): [cm].
   * sync.Cond, notify-list semantics: Wait() = enqueue the ticket while holding L (q* := true); L.Unlock(); park
     until the ticket has been notified (q* = false); L.Lock().  Broadcast() clears every ticket of that cond that is
     enqueued AT THAT MOMENT.
   * contexts: [bcan] b.ctx; [ccan] c.ctx (b.cancel() sets both: WithCancel children are cancelled inside the parent's
     cancel()); Get's derived context is cancelled iff [ucan] || [gdef]; the combined context iff that || [xc];
     WaitCond's derived context iff that || [wdef].
   * sync.Once: [conce].

   Abstractions
   * c.offset is only compared with 0 by the code: [off] = (c.offset != 0).  [avail] = "b.get(c, c.offset) finds a
     value"; a Put makes it true, a Rollback too (the rolled back values are still in the buffer); the "offset is past"
     error of b.get (a custom cleaner overtook the consumer) is not modelled.
   * The proviso of C12 "uncommitted reads are eventually committed or rolled back": the Commit/Rollback caller is a
     forced environment thread — it starts a call whenever [off] holds and it is idle (the schedule picks Commit or
     Rollback); it never calls with c.offset = 0 (such a call only takes and releases c.mutex and returns an error).
   * The program's own calls are VOLUNTARY steps (the first step of bc, cc, g, d, p and the canceller): a state is
     [quiescent] when nothing but those is enabled.  A thread whose call is never made is an absent thread, so one
     transition system covers every subset of callers and every moment at which a call is made.
   * The cleaner goroutine (a second WaitCond waiter on b.cond, Model/WaitCond.v + Model/CleanerProto.v) and a second
     consumer are not part of this model.

   Protocol variants ([variant]; refutations run on the same [step])
     v_watcher_locks      false: WaitCond's watcher broadcasts without taking cond.L
     v_diff_c_first       false: Diff takes b.mutex.RLock() before c.mutex.Lock() (lock order inverted)
     v_delete_bcast       false: b.delete does not Broadcast (Buffer.Close itself never broadcasts: its wake-up IS
                                 delete's Broadcast)
     v_cancel_after_lock  false: consumer.Close calls c.cancel() BEFORE c.mutex.Lock()
     v_recheck_ctx        false: WaitCond checks ctx.Err() only before its loop

   Executable definitions only; no proofs in this file. *)

From Coq Require Import List Bool Arith NArith.
Import ListNotations.

(* owner of b.mutex's write side (announced or holding) *)
Inductive bown := BFree | BBC | BCl | BGA | BGW | BCR | BP.
(* owner of c.mutex *)
Inductive cown := CFree | CCl | CG | CD | CCR.
(* Buffer.Close caller *)
Inductive bcpc := BCIdle | BCAnn | BCAcq | BCCancel | BCEnq | BCWUnlock | BCParked | BCReAnn | BCReAcq | BCCloseDone | BCUnlock | BCRet.
(* the consumer's watcher goroutine (buffer.go:106-110) *)
Inductive cwpc := CWWait | CWDo | CWBody | CWExit.
(* an explicit consumer.Close caller *)
Inductive ccpc := CCIdle | CCDo | CCBody | CCRet.
(* c.close (sync.Once): not started / body run by the watcher / by the caller / done *)
Inductive oncest := ONone | ORunW | ORunC | ODone.
(* body of consumer.Close (consumer.go:30-50) *)
Inductive clpc := ClOff | ClLockC | ClCancel | ClEnq | ClWUnlock | ClParked | ClRelock | ClDelAnn | ClDelAcq | ClDel | ClDelUnlock | ClCloseDone | ClUnlockC | ClEnd.
(* consumer.Get caller *)
Inductive gpc := GIdle | GLockC | GChkC | GRLock | GSync | GRUnE | GRUnV | GRUnA | GRecv | GIncr | GDefer | GUnlockC | GRet.
(* getAsync's goroutine (buffer.go:342-384) running WaitCond *)
Inductive gapc := GANone | GAAnn | GAAcq | GAComb | WStart | WFn | WEnq | WUnlock | WParked | WReAnn | WReAcq | WRet | GASend | GAUnlock | GAExit.
(* WaitCond's watcher goroutine (sync.go:50-62) *)
Inductive gwpc := TNone | TWait | TAnn | TAcq | TBcast | TUnlock | TExit.
(* CombineContext's AfterFunc(c.ctx / b.ctx, cancel) registration *)
Inductive afst := AFNone | AFPending | AFDone | AFStopped.
(* Buffer.Diff caller *)
Inductive dpc := DIdle | DLockC | DRLock | DRUnlock | DUnlockC.
(* Commit / Rollback caller *)
Inductive crpc := CRIdle | CRLockC | CRAnn | CRAcq | CRCommit | CRBUnlock | CRBUnlockE | CRReset | CRUnlockC.
(* Put caller *)
Inductive ppc := PIdle | PAnn | PAcq | PBody | PUnlock.
(* result of a call / of the async get *)
Inductive res := RNone | RVal | RErr.

(* The state.  One field per thread (its program counter), per lock, per notify-list ticket, per context,
   plus the data the code branches on and a few ghosts. *)
Record ctl := mkctl {
  bc       : bcpc   ; (* Buffer.Close caller *)
  cw       : cwpc   ; (* consumer watcher goroutine *)
  cc       : ccpc   ; (* consumer.Close caller *)
  conce    : oncest ; (* c.close *)
  cl       : clpc   ; (* consumer.Close body (run by whoever won c.close) *)
  gt       : gpc    ; (* Get caller *)
  ga       : gapc   ; (* getAsync goroutine *)
  gw       : gwpc   ; (* WaitCond watcher goroutine *)
  af       : afst   ; (* AfterFunc(c.ctx, cancel-combined) *)
  df       : dpc    ; (* Diff caller *)
  cr       : crpc   ; (* Commit/Rollback caller *)
  crk      : bool   ; (* the call in flight is Commit (true) / Rollback (false) *)
  pt       : ppc    ; (* Put caller *)
  bw       : bown   ; (* b.mutex: the writer that has announced itself (blocks new readers) or holds the lock *)
  br       : nat    ; (* b.mutex: number of read locks held *)
  gr       : bool   ; (* ghost: the Get caller holds a read lock on b.mutex *)
  dr       : bool   ; (* ghost: the Diff caller holds a read lock on b.mutex *)
  cm       : cown   ; (* c.mutex *)
  qBC      : bool   ; (* b.cond notify list: Buffer.Close's ticket enqueued and not notified *)
  qGA      : bool   ; (* b.cond notify list: getAsync waiter's ticket *)
  qCl      : bool   ; (* c.cond notify list: consumer.Close's ticket *)
  bcan     : bool   ; (* b.ctx cancelled *)
  ccan     : bool   ; (* c.ctx cancelled (child of b.ctx) *)
  ucan     : bool   ; (* the context passed to Get is cancelled *)
  ucanc    : bool   ; (* a canceller of that context exists and has not run *)
  gdef     : bool   ; (* Get's deferred cancel() has run (consumer.go:76) *)
  xc       : bool   ; (* the combined context's own cancel has been called (AfterFunc callback, or born cancelled) *)
  wdef     : bool   ; (* WaitCond's deferred cancel() has run (sync.go:49) *)
  reg      : bool   ; (* the consumer is in b.consumers *)
  off      : bool   ; (* c.offset != 0 *)
  avail    : bool   ; (* b.get(c, c.offset) would find a value *)
  bdone    : bool   ; (* b.done closed *)
  cdone    : bool   ; (* c.done closed *)
  outfull  : bool   ; (* getAsync's out channel (cap 1) holds the result *)
  gres     : res    ; (* ghost: what Get returned *)
  ares     : res    ; (* result computed by the getAsync goroutine *)
  gafter   : bool   ; (* ghost: the Get call began when c.ctx was already cancelled *)
  ccres    : res    ; (* ghost: what the explicit consumer.Close returned (RVal = nil error) *)
  ng       : nat    ; (* Get calls still to be made (0/1) *)
  nd       : nat    ; (* Diff calls still to be made *)
  np       : nat    ; (* Put calls still to be made *)
  ncc      : nat     (* explicit consumer.Close calls still to be made (0/1) *)
}.

(* Functional field updates (generated). *)
Definition set_bc (x : bcpc) (c : ctl) : ctl := mkctl x (cw c) (cc c) (conce c) (cl c) (gt c) (ga c) (gw c) (af c) (df c) (cr c) (crk c) (pt c) (bw c) (br c) (gr c) (dr c) (cm c) (qBC c) (qGA c) (qCl c) (bcan c) (ccan c) (ucan c) (ucanc c) (gdef c) (xc c) (wdef c) (reg c) (off c) (avail c) (bdone c) (cdone c) (outfull c) (gres c) (ares c) (gafter c) (ccres c) (ng c) (nd c) (np c) (ncc c).
Definition set_cw (x : cwpc) (c : ctl) : ctl := mkctl (bc c) x (cc c) (conce c) (cl c) (gt c) (ga c) (gw c) (af c) (df c) (cr c) (crk c) (pt c) (bw c) (br c) (gr c) (dr c) (cm c) (qBC c) (qGA c) (qCl c) (bcan c) (ccan c) (ucan c) (ucanc c) (gdef c) (xc c) (wdef c) (reg c) (off c) (avail c) (bdone c) (cdone c) (outfull c) (gres c) (ares c) (gafter c) (ccres c) (ng c) (nd c) (np c) (ncc c).
Definition set_cc (x : ccpc) (c : ctl) : ctl := mkctl (bc c) (cw c) x (conce c) (cl c) (gt c) (ga c) (gw c) (af c) (df c) (cr c) (crk c) (pt c) (bw c) (br c) (gr c) (dr c) (cm c) (qBC c) (qGA c) (qCl c) (bcan c) (ccan c) (ucan c) (ucanc c) (gdef c) (xc c) (wdef c) (reg c) (off c) (avail c) (bdone c) (cdone c) (outfull c) (gres c) (ares c) (gafter c) (ccres c) (ng c) (nd c) (np c) (ncc c).
Definition set_conce (x : oncest) (c : ctl) : ctl := mkctl (bc c) (cw c) (cc c) x (cl c) (gt c) (ga c) (gw c) (af c) (df c) (cr c) (crk c) (pt c) (bw c) (br c) (gr c) (dr c) (cm c) (qBC c) (qGA c) (qCl c) (bcan c) (ccan c) (ucan c) (ucanc c) (gdef c) (xc c) (wdef c) (reg c) (off c) (avail c) (bdone c) (cdone c) (outfull c) (gres c) (ares c) (gafter c) (ccres c) (ng c) (nd c) (np c) (ncc c).
Definition set_cl (x : clpc) (c : ctl) : ctl := mkctl (bc c) (cw c) (cc c) (conce c) x (gt c) (ga c) (gw c) (af c) (df c) (cr c) (crk c) (pt c) (bw c) (br c) (gr c) (dr c) (cm c) (qBC c) (qGA c) (qCl c) (bcan c) (ccan c) (ucan c) (ucanc c) (gdef c) (xc c) (wdef c) (reg c) (off c) (avail c) (bdone c) (cdone c) (outfull c) (gres c) (ares c) (gafter c) (ccres c) (ng c) (nd c) (np c) (ncc c).
Definition set_gt (x : gpc) (c : ctl) : ctl := mkctl (bc c) (cw c) (cc c) (conce c) (cl c) x (ga c) (gw c) (af c) (df c) (cr c) (crk c) (pt c) (bw c) (br c) (gr c) (dr c) (cm c) (qBC c) (qGA c) (qCl c) (bcan c) (ccan c) (ucan c) (ucanc c) (gdef c) (xc c) (wdef c) (reg c) (off c) (avail c) (bdone c) (cdone c) (outfull c) (gres c) (ares c) (gafter c) (ccres c) (ng c) (nd c) (np c) (ncc c).
Definition set_ga (x : gapc) (c : ctl) : ctl := mkctl (bc c) (cw c) (cc c) (conce c) (cl c) (gt c) x (gw c) (af c) (df c) (cr c) (crk c) (pt c) (bw c) (br c) (gr c) (dr c) (cm c) (qBC c) (qGA c) (qCl c) (bcan c) (ccan c) (ucan c) (ucanc c) (gdef c) (xc c) (wdef c) (reg c) (off c) (avail c) (bdone c) (cdone c) (outfull c) (gres c) (ares c) (gafter c) (ccres c) (ng c) (nd c) (np c) (ncc c).
Definition set_gw (x : gwpc) (c : ctl) : ctl := mkctl (bc c) (cw c) (cc c) (conce c) (cl c) (gt c) (ga c) x (af c) (df c) (cr c) (crk c) (pt c) (bw c) (br c) (gr c) (dr c) (cm c) (qBC c) (qGA c) (qCl c) (bcan c) (ccan c) (ucan c) (ucanc c) (gdef c) (xc c) (wdef c) (reg c) (off c) (avail c) (bdone c) (cdone c) (outfull c) (gres c) (ares c) (gafter c) (ccres c) (ng c) (nd c) (np c) (ncc c).
Definition set_af (x : afst) (c : ctl) : ctl := mkctl (bc c) (cw c) (cc c) (conce c) (cl c) (gt c) (ga c) (gw c) x (df c) (cr c) (crk c) (pt c) (bw c) (br c) (gr c) (dr c) (cm c) (qBC c) (qGA c) (qCl c) (bcan c) (ccan c) (ucan c) (ucanc c) (gdef c) (xc c) (wdef c) (reg c) (off c) (avail c) (bdone c) (cdone c) (outfull c) (gres c) (ares c) (gafter c) (ccres c) (ng c) (nd c) (np c) (ncc c).
Definition set_df (x : dpc) (c : ctl) : ctl := mkctl (bc c) (cw c) (cc c) (conce c) (cl c) (gt c) (ga c) (gw c) (af c) x (cr c) (crk c) (pt c) (bw c) (br c) (gr c) (dr c) (cm c) (qBC c) (qGA c) (qCl c) (bcan c) (ccan c) (ucan c) (ucanc c) (gdef c) (xc c) (wdef c) (reg c) (off c) (avail c) (bdone c) (cdone c) (outfull c) (gres c) (ares c) (gafter c) (ccres c) (ng c) (nd c) (np c) (ncc c).
Definition set_cr (x : crpc) (c : ctl) : ctl := mkctl (bc c) (cw c) (cc c) (conce c) (cl c) (gt c) (ga c) (gw c) (af c) (df c) x (crk c) (pt c) (bw c) (br c) (gr c) (dr c) (cm c) (qBC c) (qGA c) (qCl c) (bcan c) (ccan c) (ucan c) (ucanc c) (gdef c) (xc c) (wdef c) (reg c) (off c) (avail c) (bdone c) (cdone c) (outfull c) (gres c) (ares c) (gafter c) (ccres c) (ng c) (nd c) (np c) (ncc c).
Definition set_crk (x : bool) (c : ctl) : ctl := mkctl (bc c) (cw c) (cc c) (conce c) (cl c) (gt c) (ga c) (gw c) (af c) (df c) (cr c) x (pt c) (bw c) (br c) (gr c) (dr c) (cm c) (qBC c) (qGA c) (qCl c) (bcan c) (ccan c) (ucan c) (ucanc c) (gdef c) (xc c) (wdef c) (reg c) (off c) (avail c) (bdone c) (cdone c) (outfull c) (gres c) (ares c) (gafter c) (ccres c) (ng c) (nd c) (np c) (ncc c).
Definition set_pt (x : ppc) (c : ctl) : ctl := mkctl (bc c) (cw c) (cc c) (conce c) (cl c) (gt c) (ga c) (gw c) (af c) (df c) (cr c) (crk c) x (bw c) (br c) (gr c) (dr c) (cm c) (qBC c) (qGA c) (qCl c) (bcan c) (ccan c) (ucan c) (ucanc c) (gdef c) (xc c) (wdef c) (reg c) (off c) (avail c) (bdone c) (cdone c) (outfull c) (gres c) (ares c) (gafter c) (ccres c) (ng c) (nd c) (np c) (ncc c).
Definition set_bw (x : bown) (c : ctl) : ctl := mkctl (bc c) (cw c) (cc c) (conce c) (cl c) (gt c) (ga c) (gw c) (af c) (df c) (cr c) (crk c) (pt c) x (br c) (gr c) (dr c) (cm c) (qBC c) (qGA c) (qCl c) (bcan c) (ccan c) (ucan c) (ucanc c) (gdef c) (xc c) (wdef c) (reg c) (off c) (avail c) (bdone c) (cdone c) (outfull c) (gres c) (ares c) (gafter c) (ccres c) (ng c) (nd c) (np c) (ncc c).
Definition set_br (x : nat) (c : ctl) : ctl := mkctl (bc c) (cw c) (cc c) (conce c) (cl c) (gt c) (ga c) (gw c) (af c) (df c) (cr c) (crk c) (pt c) (bw c) x (gr c) (dr c) (cm c) (qBC c) (qGA c) (qCl c) (bcan c) (ccan c) (ucan c) (ucanc c) (gdef c) (xc c) (wdef c) (reg c) (off c) (avail c) (bdone c) (cdone c) (outfull c) (gres c) (ares c) (gafter c) (ccres c) (ng c) (nd c) (np c) (ncc c).
Definition set_gr (x : bool) (c : ctl) : ctl := mkctl (bc c) (cw c) (cc c) (conce c) (cl c) (gt c) (ga c) (gw c) (af c) (df c) (cr c) (crk c) (pt c) (bw c) (br c) x (dr c) (cm c) (qBC c) (qGA c) (qCl c) (bcan c) (ccan c) (ucan c) (ucanc c) (gdef c) (xc c) (wdef c) (reg c) (off c) (avail c) (bdone c) (cdone c) (outfull c) (gres c) (ares c) (gafter c) (ccres c) (ng c) (nd c) (np c) (ncc c).
Definition set_dr (x : bool) (c : ctl) : ctl := mkctl (bc c) (cw c) (cc c) (conce c) (cl c) (gt c) (ga c) (gw c) (af c) (df c) (cr c) (crk c) (pt c) (bw c) (br c) (gr c) x (cm c) (qBC c) (qGA c) (qCl c) (bcan c) (ccan c) (ucan c) (ucanc c) (gdef c) (xc c) (wdef c) (reg c) (off c) (avail c) (bdone c) (cdone c) (outfull c) (gres c) (ares c) (gafter c) (ccres c) (ng c) (nd c) (np c) (ncc c).
Definition set_cm (x : cown) (c : ctl) : ctl := mkctl (bc c) (cw c) (cc c) (conce c) (cl c) (gt c) (ga c) (gw c) (af c) (df c) (cr c) (crk c) (pt c) (bw c) (br c) (gr c) (dr c) x (qBC c) (qGA c) (qCl c) (bcan c) (ccan c) (ucan c) (ucanc c) (gdef c) (xc c) (wdef c) (reg c) (off c) (avail c) (bdone c) (cdone c) (outfull c) (gres c) (ares c) (gafter c) (ccres c) (ng c) (nd c) (np c) (ncc c).
Definition set_qBC (x : bool) (c : ctl) : ctl := mkctl (bc c) (cw c) (cc c) (conce c) (cl c) (gt c) (ga c) (gw c) (af c) (df c) (cr c) (crk c) (pt c) (bw c) (br c) (gr c) (dr c) (cm c) x (qGA c) (qCl c) (bcan c) (ccan c) (ucan c) (ucanc c) (gdef c) (xc c) (wdef c) (reg c) (off c) (avail c) (bdone c) (cdone c) (outfull c) (gres c) (ares c) (gafter c) (ccres c) (ng c) (nd c) (np c) (ncc c).
Definition set_qGA (x : bool) (c : ctl) : ctl := mkctl (bc c) (cw c) (cc c) (conce c) (cl c) (gt c) (ga c) (gw c) (af c) (df c) (cr c) (crk c) (pt c) (bw c) (br c) (gr c) (dr c) (cm c) (qBC c) x (qCl c) (bcan c) (ccan c) (ucan c) (ucanc c) (gdef c) (xc c) (wdef c) (reg c) (off c) (avail c) (bdone c) (cdone c) (outfull c) (gres c) (ares c) (gafter c) (ccres c) (ng c) (nd c) (np c) (ncc c).
Definition set_qCl (x : bool) (c : ctl) : ctl := mkctl (bc c) (cw c) (cc c) (conce c) (cl c) (gt c) (ga c) (gw c) (af c) (df c) (cr c) (crk c) (pt c) (bw c) (br c) (gr c) (dr c) (cm c) (qBC c) (qGA c) x (bcan c) (ccan c) (ucan c) (ucanc c) (gdef c) (xc c) (wdef c) (reg c) (off c) (avail c) (bdone c) (cdone c) (outfull c) (gres c) (ares c) (gafter c) (ccres c) (ng c) (nd c) (np c) (ncc c).
Definition set_bcan (x : bool) (c : ctl) : ctl := mkctl (bc c) (cw c) (cc c) (conce c) (cl c) (gt c) (ga c) (gw c) (af c) (df c) (cr c) (crk c) (pt c) (bw c) (br c) (gr c) (dr c) (cm c) (qBC c) (qGA c) (qCl c) x (ccan c) (ucan c) (ucanc c) (gdef c) (xc c) (wdef c) (reg c) (off c) (avail c) (bdone c) (cdone c) (outfull c) (gres c) (ares c) (gafter c) (ccres c) (ng c) (nd c) (np c) (ncc c).
Definition set_ccan (x : bool) (c : ctl) : ctl := mkctl (bc c) (cw c) (cc c) (conce c) (cl c) (gt c) (ga c) (gw c) (af c) (df c) (cr c) (crk c) (pt c) (bw c) (br c) (gr c) (dr c) (cm c) (qBC c) (qGA c) (qCl c) (bcan c) x (ucan c) (ucanc c) (gdef c) (xc c) (wdef c) (reg c) (off c) (avail c) (bdone c) (cdone c) (outfull c) (gres c) (ares c) (gafter c) (ccres c) (ng c) (nd c) (np c) (ncc c).
Definition set_ucan (x : bool) (c : ctl) : ctl := mkctl (bc c) (cw c) (cc c) (conce c) (cl c) (gt c) (ga c) (gw c) (af c) (df c) (cr c) (crk c) (pt c) (bw c) (br c) (gr c) (dr c) (cm c) (qBC c) (qGA c) (qCl c) (bcan c) (ccan c) x (ucanc c) (gdef c) (xc c) (wdef c) (reg c) (off c) (avail c) (bdone c) (cdone c) (outfull c) (gres c) (ares c) (gafter c) (ccres c) (ng c) (nd c) (np c) (ncc c).
Definition set_ucanc (x : bool) (c : ctl) : ctl := mkctl (bc c) (cw c) (cc c) (conce c) (cl c) (gt c) (ga c) (gw c) (af c) (df c) (cr c) (crk c) (pt c) (bw c) (br c) (gr c) (dr c) (cm c) (qBC c) (qGA c) (qCl c) (bcan c) (ccan c) (ucan c) x (gdef c) (xc c) (wdef c) (reg c) (off c) (avail c) (bdone c) (cdone c) (outfull c) (gres c) (ares c) (gafter c) (ccres c) (ng c) (nd c) (np c) (ncc c).
Definition set_gdef (x : bool) (c : ctl) : ctl := mkctl (bc c) (cw c) (cc c) (conce c) (cl c) (gt c) (ga c) (gw c) (af c) (df c) (cr c) (crk c) (pt c) (bw c) (br c) (gr c) (dr c) (cm c) (qBC c) (qGA c) (qCl c) (bcan c) (ccan c) (ucan c) (ucanc c) x (xc c) (wdef c) (reg c) (off c) (avail c) (bdone c) (cdone c) (outfull c) (gres c) (ares c) (gafter c) (ccres c) (ng c) (nd c) (np c) (ncc c).
Definition set_xc (x : bool) (c : ctl) : ctl := mkctl (bc c) (cw c) (cc c) (conce c) (cl c) (gt c) (ga c) (gw c) (af c) (df c) (cr c) (crk c) (pt c) (bw c) (br c) (gr c) (dr c) (cm c) (qBC c) (qGA c) (qCl c) (bcan c) (ccan c) (ucan c) (ucanc c) (gdef c) x (wdef c) (reg c) (off c) (avail c) (bdone c) (cdone c) (outfull c) (gres c) (ares c) (gafter c) (ccres c) (ng c) (nd c) (np c) (ncc c).
Definition set_wdef (x : bool) (c : ctl) : ctl := mkctl (bc c) (cw c) (cc c) (conce c) (cl c) (gt c) (ga c) (gw c) (af c) (df c) (cr c) (crk c) (pt c) (bw c) (br c) (gr c) (dr c) (cm c) (qBC c) (qGA c) (qCl c) (bcan c) (ccan c) (ucan c) (ucanc c) (gdef c) (xc c) x (reg c) (off c) (avail c) (bdone c) (cdone c) (outfull c) (gres c) (ares c) (gafter c) (ccres c) (ng c) (nd c) (np c) (ncc c).
Definition set_reg (x : bool) (c : ctl) : ctl := mkctl (bc c) (cw c) (cc c) (conce c) (cl c) (gt c) (ga c) (gw c) (af c) (df c) (cr c) (crk c) (pt c) (bw c) (br c) (gr c) (dr c) (cm c) (qBC c) (qGA c) (qCl c) (bcan c) (ccan c) (ucan c) (ucanc c) (gdef c) (xc c) (wdef c) x (off c) (avail c) (bdone c) (cdone c) (outfull c) (gres c) (ares c) (gafter c) (ccres c) (ng c) (nd c) (np c) (ncc c).
Definition set_off (x : bool) (c : ctl) : ctl := mkctl (bc c) (cw c) (cc c) (conce c) (cl c) (gt c) (ga c) (gw c) (af c) (df c) (cr c) (crk c) (pt c) (bw c) (br c) (gr c) (dr c) (cm c) (qBC c) (qGA c) (qCl c) (bcan c) (ccan c) (ucan c) (ucanc c) (gdef c) (xc c) (wdef c) (reg c) x (avail c) (bdone c) (cdone c) (outfull c) (gres c) (ares c) (gafter c) (ccres c) (ng c) (nd c) (np c) (ncc c).
Definition set_avail (x : bool) (c : ctl) : ctl := mkctl (bc c) (cw c) (cc c) (conce c) (cl c) (gt c) (ga c) (gw c) (af c) (df c) (cr c) (crk c) (pt c) (bw c) (br c) (gr c) (dr c) (cm c) (qBC c) (qGA c) (qCl c) (bcan c) (ccan c) (ucan c) (ucanc c) (gdef c) (xc c) (wdef c) (reg c) (off c) x (bdone c) (cdone c) (outfull c) (gres c) (ares c) (gafter c) (ccres c) (ng c) (nd c) (np c) (ncc c).
Definition set_bdone (x : bool) (c : ctl) : ctl := mkctl (bc c) (cw c) (cc c) (conce c) (cl c) (gt c) (ga c) (gw c) (af c) (df c) (cr c) (crk c) (pt c) (bw c) (br c) (gr c) (dr c) (cm c) (qBC c) (qGA c) (qCl c) (bcan c) (ccan c) (ucan c) (ucanc c) (gdef c) (xc c) (wdef c) (reg c) (off c) (avail c) x (cdone c) (outfull c) (gres c) (ares c) (gafter c) (ccres c) (ng c) (nd c) (np c) (ncc c).
Definition set_cdone (x : bool) (c : ctl) : ctl := mkctl (bc c) (cw c) (cc c) (conce c) (cl c) (gt c) (ga c) (gw c) (af c) (df c) (cr c) (crk c) (pt c) (bw c) (br c) (gr c) (dr c) (cm c) (qBC c) (qGA c) (qCl c) (bcan c) (ccan c) (ucan c) (ucanc c) (gdef c) (xc c) (wdef c) (reg c) (off c) (avail c) (bdone c) x (outfull c) (gres c) (ares c) (gafter c) (ccres c) (ng c) (nd c) (np c) (ncc c).
Definition set_outfull (x : bool) (c : ctl) : ctl := mkctl (bc c) (cw c) (cc c) (conce c) (cl c) (gt c) (ga c) (gw c) (af c) (df c) (cr c) (crk c) (pt c) (bw c) (br c) (gr c) (dr c) (cm c) (qBC c) (qGA c) (qCl c) (bcan c) (ccan c) (ucan c) (ucanc c) (gdef c) (xc c) (wdef c) (reg c) (off c) (avail c) (bdone c) (cdone c) x (gres c) (ares c) (gafter c) (ccres c) (ng c) (nd c) (np c) (ncc c).
Definition set_gres (x : res) (c : ctl) : ctl := mkctl (bc c) (cw c) (cc c) (conce c) (cl c) (gt c) (ga c) (gw c) (af c) (df c) (cr c) (crk c) (pt c) (bw c) (br c) (gr c) (dr c) (cm c) (qBC c) (qGA c) (qCl c) (bcan c) (ccan c) (ucan c) (ucanc c) (gdef c) (xc c) (wdef c) (reg c) (off c) (avail c) (bdone c) (cdone c) (outfull c) x (ares c) (gafter c) (ccres c) (ng c) (nd c) (np c) (ncc c).
Definition set_ares (x : res) (c : ctl) : ctl := mkctl (bc c) (cw c) (cc c) (conce c) (cl c) (gt c) (ga c) (gw c) (af c) (df c) (cr c) (crk c) (pt c) (bw c) (br c) (gr c) (dr c) (cm c) (qBC c) (qGA c) (qCl c) (bcan c) (ccan c) (ucan c) (ucanc c) (gdef c) (xc c) (wdef c) (reg c) (off c) (avail c) (bdone c) (cdone c) (outfull c) (gres c) x (gafter c) (ccres c) (ng c) (nd c) (np c) (ncc c).
Definition set_gafter (x : bool) (c : ctl) : ctl := mkctl (bc c) (cw c) (cc c) (conce c) (cl c) (gt c) (ga c) (gw c) (af c) (df c) (cr c) (crk c) (pt c) (bw c) (br c) (gr c) (dr c) (cm c) (qBC c) (qGA c) (qCl c) (bcan c) (ccan c) (ucan c) (ucanc c) (gdef c) (xc c) (wdef c) (reg c) (off c) (avail c) (bdone c) (cdone c) (outfull c) (gres c) (ares c) x (ccres c) (ng c) (nd c) (np c) (ncc c).
Definition set_ccres (x : res) (c : ctl) : ctl := mkctl (bc c) (cw c) (cc c) (conce c) (cl c) (gt c) (ga c) (gw c) (af c) (df c) (cr c) (crk c) (pt c) (bw c) (br c) (gr c) (dr c) (cm c) (qBC c) (qGA c) (qCl c) (bcan c) (ccan c) (ucan c) (ucanc c) (gdef c) (xc c) (wdef c) (reg c) (off c) (avail c) (bdone c) (cdone c) (outfull c) (gres c) (ares c) (gafter c) x (ng c) (nd c) (np c) (ncc c).
Definition set_ng (x : nat) (c : ctl) : ctl := mkctl (bc c) (cw c) (cc c) (conce c) (cl c) (gt c) (ga c) (gw c) (af c) (df c) (cr c) (crk c) (pt c) (bw c) (br c) (gr c) (dr c) (cm c) (qBC c) (qGA c) (qCl c) (bcan c) (ccan c) (ucan c) (ucanc c) (gdef c) (xc c) (wdef c) (reg c) (off c) (avail c) (bdone c) (cdone c) (outfull c) (gres c) (ares c) (gafter c) (ccres c) x (nd c) (np c) (ncc c).
Definition set_nd (x : nat) (c : ctl) : ctl := mkctl (bc c) (cw c) (cc c) (conce c) (cl c) (gt c) (ga c) (gw c) (af c) (df c) (cr c) (crk c) (pt c) (bw c) (br c) (gr c) (dr c) (cm c) (qBC c) (qGA c) (qCl c) (bcan c) (ccan c) (ucan c) (ucanc c) (gdef c) (xc c) (wdef c) (reg c) (off c) (avail c) (bdone c) (cdone c) (outfull c) (gres c) (ares c) (gafter c) (ccres c) (ng c) x (np c) (ncc c).
Definition set_np (x : nat) (c : ctl) : ctl := mkctl (bc c) (cw c) (cc c) (conce c) (cl c) (gt c) (ga c) (gw c) (af c) (df c) (cr c) (crk c) (pt c) (bw c) (br c) (gr c) (dr c) (cm c) (qBC c) (qGA c) (qCl c) (bcan c) (ccan c) (ucan c) (ucanc c) (gdef c) (xc c) (wdef c) (reg c) (off c) (avail c) (bdone c) (cdone c) (outfull c) (gres c) (ares c) (gafter c) (ccres c) (ng c) (nd c) x (ncc c).
Definition set_ncc (x : nat) (c : ctl) : ctl := mkctl (bc c) (cw c) (cc c) (conce c) (cl c) (gt c) (ga c) (gw c) (af c) (df c) (cr c) (crk c) (pt c) (bw c) (br c) (gr c) (dr c) (cm c) (qBC c) (qGA c) (qCl c) (bcan c) (ccan c) (ucan c) (ucanc c) (gdef c) (xc c) (wdef c) (reg c) (off c) (avail c) (bdone c) (cdone c) (outfull c) (gres c) (ares c) (gafter c) (ccres c) (ng c) (nd c) (np c) x.

(* every thread at its first program point, every lock free, every flag false, every counter 0 *)
Definition blank : ctl := mkctl BCIdle CWWait CCIdle ONone ClOff GIdle GANone TNone AFNone DIdle CRIdle false PIdle BFree 0 false false CFree false false false false false false false false false false false false false false false false RNone RNone false RNone 0 0 0 0.

Record variant := mkvar {
  v_watcher_locks : bool;
  v_diff_c_first : bool;
  v_delete_bcast : bool;
  v_cancel_after_lock : bool;
  v_recheck_ctx : bool
}.

(* The code as it is in /repo. *)
Definition faithful : variant := mkvar true true true true true.

Inductive pick := PBC | PCW | PCC | PG | PGA | PGW | PAF | PAFS | PD | PCR (commit : bool) | PP | PUC.

Definition all_pick : list pick := [PBC; PCW; PCC; PG; PGA; PGW; PAF; PAFS; PD; PCR true; PCR false; PP; PUC].

Definition bfree (c : ctl) : bool := match bw c with BFree => true | _ => false end.
Definition cfree (c : ctl) : bool := match cm c with CFree => true | _ => false end.
Definition noreaders (c : ctl) : bool := match br c with 0 => true | _ => false end.

(* b.cond.Broadcast() *)
Definition bcast_b (c : ctl) : ctl := set_qBC false (set_qGA false c).

(* Err() != nil of: the context Get derives (consumer.go:75), the combined context (buffer.go:355-364), the context
   WaitCond derives (sync.go:47). *)
Definition g_cancelled (c : ctl) : bool := ucan c || gdef c.
Definition x_cancelled (c : ctl) : bool := g_cancelled c || xc c.
Definition w_cancelled (c : ctl) : bool := x_cancelled c || wdef c.

(* ---- Buffer.Close (buffer.go:27-53) ---- *)
Definition bc_step (c : ctl) : option ctl :=
  match bc c with
  | BCIdle => Some (set_bc BCAnn c)                                     (* 27-32: the call; b.close.Do (first caller) *)
  | BCAnn => if bfree c then Some (set_bc BCAcq (set_bw BBC c)) else None            (* 36 b.mutex.Lock(): announce *)
  | BCAcq => if noreaders c then Some (set_bc BCCancel c) else None                  (* 36: readers drained *)
  | BCCancel =>                                                        (* 44 b.cancel(); 47 len(b.consumers) != 0 *)
      Some (set_bc (if reg c then BCEnq else BCCloseDone) (set_bcan true (set_ccan true c)))
  | BCEnq => Some (set_bc BCWUnlock (set_qBC true c))                                (* 48 cond.Wait(): enqueue *)
  | BCWUnlock => Some (set_bc BCParked (set_bw BFree c))                             (* 48 cond.Wait(): L.Unlock() *)
  | BCParked => if qBC c then None else Some (set_bc BCReAnn c)                      (* 48 cond.Wait(): notified *)
  | BCReAnn => if bfree c then Some (set_bc BCReAcq (set_bw BBC c)) else None        (* 48 cond.Wait(): L.Lock() *)
  | BCReAcq =>                                                                       (* 47 len(b.consumers) != 0 *)
      if noreaders c then Some (set_bc (if reg c then BCEnq else BCCloseDone) c) else None
  | BCCloseDone => Some (set_bc BCUnlock (set_bdone true c))                         (* 40 deferred close(b.done) *)
  | BCUnlock => Some (set_bc BCRet (set_bw BFree c))                                 (* 37 deferred b.mutex.Unlock() *)
  | BCRet => None
  end.

(* ---- consumer.Close body (consumer.go:30-50), then b.delete (buffer.go:245-253) ---- *)
Definition first_cl (v : variant) : clpc := if v_cancel_after_lock v then ClLockC else ClCancel.

(* consumer.go:47  for c.offset != 0 { c.cond.Wait() }  — evaluated holding c.mutex *)
Definition cl_chk (c : ctl) : clpc := if off c then ClEnq else ClDelAnn.

Definition cl_step (v : variant) (c : ctl) : option ctl :=
  match cl c with
  | ClOff | ClEnd => None
  | ClLockC =>                                                                       (* 34 c.mutex.Lock() *)
      if cfree c then Some (set_cl (if v_cancel_after_lock v then ClCancel else cl_chk c) (set_cm CCl c)) else None
  | ClCancel =>                                                                      (* 44 c.cancel() *)
      Some (set_cl (if v_cancel_after_lock v then cl_chk c else ClLockC) (set_ccan true c))
  | ClEnq => Some (set_cl ClWUnlock (set_qCl true c))                                (* 48 c.cond.Wait(): enqueue *)
  | ClWUnlock => Some (set_cl ClParked (set_cm CFree c))                             (* 48: L.Unlock() *)
  | ClParked => if qCl c then None else Some (set_cl ClRelock c)                     (* 48: notified *)
  | ClRelock => if cfree c then Some (set_cl (cl_chk c) (set_cm CCl c)) else None    (* 48: L.Lock(); 47 *)
  | ClDelAnn => if bfree c then Some (set_cl ClDelAcq (set_bw BCl c)) else None      (* 41 -> 246 b.mutex.Lock() *)
  | ClDelAcq => if noreaders c then Some (set_cl ClDel c) else None
  | ClDel =>                                                                         (* 250 delete; 252 Broadcast *)
      Some (set_cl ClDelUnlock (set_reg false (if v_delete_bcast v then bcast_b c else c)))
  | ClDelUnlock => Some (set_cl ClCloseDone (set_bw BFree c))                        (* 247 b.mutex.Unlock() *)
  | ClCloseDone => Some (set_cl ClUnlockC (set_cdone true c))                        (* 38 deferred close(c.done) *)
  | ClUnlockC => Some (set_cl ClEnd (set_cm CFree c))                                (* 35 deferred c.mutex.Unlock() *)
  end.

(* the consumer's watcher goroutine (buffer.go:106-110) *)
Definition cw_step (v : variant) (c : ctl) : option ctl :=
  match cw c with
  | CWWait => if ccan c then Some (set_cw CWDo c) else None                          (* 109 <-c.ctx.Done() *)
  | CWDo =>                                                                          (* 108 c.Close(): c.close.Do *)
      match conce c with
      | ONone => Some (set_cw CWBody (set_conce ORunW (set_cl (first_cl v) c)))
      | ODone => Some (set_cw CWExit c)                                              (* "only once" error *)
      | _ => None                                                                    (* blocked in Do *)
      end
  | CWBody =>
      match cl c with
      | ClEnd => Some (set_cw CWExit (set_conce ODone (set_cl ClOff c)))             (* Do returns; goroutine ends *)
      | _ => cl_step v c
      end
  | CWExit => None
  end.

(* an explicit consumer.Close() *)
Definition cc_step (v : variant) (c : ctl) : option ctl :=
  match cc c with
  | CCIdle => match ncc c with 0 => None | S k => Some (set_cc CCDo (set_ncc k c)) end   (* the call *)
  | CCDo =>
      match conce c with
      | ONone => Some (set_cc CCBody (set_conce ORunC (set_cl (first_cl v) c)))
      | ODone => Some (set_cc CCRet (set_ccres RErr c))
      | _ => None
      end
  | CCBody =>
      match cl c with
      | ClEnd => Some (set_cc CCRet (set_conce ODone (set_cl ClOff (set_ccres RVal c))))
      | _ => cl_step v c
      end
  | CCRet => None
  end.

(* ---- consumer.Get (consumer.go:63-103) and the synchronous part of getAsync (buffer.go:321-339) ---- *)
Definition g_step (c : ctl) : option ctl :=
  match gt c with
  | GIdle =>                                                                         (* the call; 68 ctx.Err() *)
      match ng c with
      | 0 => None
      | S k =>
          let c := set_ng k (set_gafter (ccan c) c) in
          Some (if ucan c then set_gt GRet (set_gres RErr c) else set_gt GLockC c)
      end
  | GLockC => if cfree c then Some (set_gt GChkC (set_cm CG c)) else None             (* 72 c.mutex.Lock(); 75 WithCancel *)
  | GChkC =>                                                                         (* 78 c.ctx.Err() *)
      Some (if ccan c then set_gt GDefer (set_gres RErr c) else set_gt GRLock c)
  | GRLock => if bfree c then Some (set_gt GSync (set_gr true (set_br (S (br c)) c))) else None     (* 82 -> 321 b.mutex.RLock() *)
  | GSync =>                                                                         (* 325 b.get: 280, 285, 301 *)
      Some (if bcan c || negb (reg c) then set_gt GRUnE (set_gres RErr c)
            else if avail c then set_gt GRUnV (set_gres RVal c)
            else set_gt GRUnA (set_ga GAAnn c))                                       (* 336-342 make(out); go func() *)
  | GRUnE => Some (set_gt GDefer (set_gr false (set_br (pred (br c)) c)))                            (* 322 deferred RUnlock; 83-85 *)
  | GRUnV => Some (set_gt GIncr (set_gr false (set_br (pred (br c)) c)))                             (* 322; 86 *)
  | GRUnA => Some (set_gt GRecv (set_gr false (set_br (pred (br c)) c)))                             (* 322; 388 *)
  | GRecv =>                                                                         (* 94 result := <-out *)
      if outfull c
      then Some (match ares c with
                 | RVal => set_gt GIncr (set_gres RVal (set_outfull false c))
                 | _ => set_gt GDefer (set_gres RErr (set_outfull false c))           (* 95-97 *)
                 end)
      else None
  | GIncr => Some (set_gt GDefer (set_off true (set_qCl false c)))                    (* 88-89 / 99-100 offset++; Broadcast *)
  | GDefer => Some (set_gt GUnlockC (set_gdef true c))                                (* 76 deferred cancel() *)
  | GUnlockC => Some (set_gt GRet (set_cm CFree c))                                   (* 73 deferred c.mutex.Unlock() *)
  | GRet => None
  end.

(* ---- getAsync's goroutine (buffer.go:342-384): CombineContext (context.go:118-161), WaitCond (sync.go:30-70) ---- *)
Definition ga_step (v : variant) (c : ctl) : option ctl :=
  match ga c with
  | GANone | GAExit => None
  | GAAnn => if bfree c then Some (set_ga GAAcq (set_bw BGA c)) else None            (* 344 b.mutex.Lock() *)
  | GAAcq => if noreaders c then Some (set_ga GAComb c) else None
  | GAComb =>                                                                        (* 355-364 CombineContext *)
      Some (if g_cancelled c then set_ga WStart c                                    (* context.go:121 return ctx *)
            else if bcan c || ccan c then set_ga WStart (set_xc true c)              (* context.go:129-133 born cancelled *)
            else set_ga WStart (set_af AFPending c))              (* context.go:147-156 AfterFuncs *)
  | WStart =>                                                                        (* sync.go:43 ctx.Err() *)
      Some (if x_cancelled c then set_ga WRet (set_ares RErr c)
            else set_ga WFn (match gw c with TNone => set_gw TWait c | _ => c end))  (* sync.go:46-63 spawn once *)
  | WFn =>                                                                           (* sync.go:65 fn() = b.get, 368-377 *)
      Some (if bcan c || negb (reg c) then set_ga WRet (set_ares RErr c)
            else if avail c then set_ga WRet (set_ares RVal c)
            else set_ga WEnq c)
  | WEnq => Some (set_ga WUnlock (set_qGA true c))                                   (* sync.go:68 cond.Wait(): enqueue *)
  | WUnlock => Some (set_ga WParked (set_bw BFree c))                                (* L.Unlock() *)
  | WParked => if qGA c then None else Some (set_ga WReAnn c)                        (* notified *)
  | WReAnn => if bfree c then Some (set_ga WReAcq (set_bw BGA c)) else None          (* L.Lock() *)
  | WReAcq => if noreaders c then Some (set_ga (if v_recheck_ctx v then WStart else WFn) c) else None
  | WRet =>                                                                          (* sync.go:49 deferred cancel() *)
      Some (set_ga GASend (match gw c with TNone => c | _ => set_wdef true c end))
  | GASend => Some (set_ga GAUnlock (set_outfull true c))                            (* 383 out <- result (cap 1) *)
  | GAUnlock => Some (set_ga GAExit (set_bw BFree c))                                (* 345 deferred b.mutex.Unlock() *)
  end.

(* WaitCond's watcher goroutine (sync.go:50-62) *)
Definition gw_step (v : variant) (c : ctl) : option ctl :=
  match gw c with
  | TNone | TExit => None
  | TWait =>                                                                         (* 51 <-ctx.Done() *)
      if w_cancelled c then Some (set_gw (if v_watcher_locks v then TAnn else TBcast) c) else None
  | TAnn => if bfree c then Some (set_gw TAcq (set_bw BGW c)) else None              (* 55 l.Lock() = b.mutex.Lock() *)
  | TAcq => if noreaders c then Some (set_gw TBcast c) else None
  | TBcast => Some (set_gw (if v_watcher_locks v then TUnlock else TExit) (bcast_b c)) (* 58 cond.Broadcast() *)
  | TUnlock => Some (set_gw TExit (set_bw BFree c))                                  (* 56 deferred l.Unlock() *)
  end.

(* the goroutine context.AfterFunc starts for cancel-the-combined-context when c.ctx (or b.ctx) is cancelled *)
Definition af_step (c : ctl) : option ctl :=
  match af c with
  | AFPending => if ccan c then Some (set_af AFDone (set_xc true c)) else None       (* context.go:151 cancel *)
  | _ => None
  end.

(* the goroutine started for stops.Stop when the combined context is cancelled (context.go:156, 163-167): stop()
   deregisters the callback if it has not been started.  (When it has, this goroutine changes nothing and is not
   represented: it takes no lock and ends by itself.) *)
Definition afs_step (c : ctl) : option ctl :=
  match af c with
  | AFPending => if x_cancelled c && negb (ccan c) then Some (set_af AFStopped c) else None
  | _ => None
  end.

(* ---- Buffer.Diff (buffer.go:183-210) ---- *)
Definition d_step (v : variant) (c : ctl) : option ctl :=
  let cf := v_diff_c_first v in
  match df c with
  | DIdle => match nd c with
             | 0 => None
             | S k => Some (set_df (if cf then DLockC else DRLock) (set_nd k c))      (* the call *)
             end
  | DLockC => if cfree c then Some (set_df (if cf then DRLock else DUnlockC) (set_cm CD c)) else None   (* 194 *)
  | DRLock => if bfree c then Some (set_df (if cf then DRUnlock else DLockC) (set_dr true (set_br (S (br c)) c))) else None  (* 198; 202-209 read *)
  | DRUnlock => Some (set_df (if cf then DUnlockC else DIdle) (set_dr false (set_br (pred (br c)) c)))  (* 199 deferred *)
  | DUnlockC => Some (set_df (if cf then DIdle else DRUnlock) (set_cm CFree c))       (* 195 deferred *)
  end.

(* ---- Commit (consumer.go:105-121, buffer.go:256-274) / Rollback (consumer.go:123-135) ---- *)
Definition cr_step (k : bool) (c : ctl) : option ctl :=
  match cr c with
  | CRIdle => if off c then Some (set_cr CRLockC (set_crk k c)) else None            (* the proviso: forced while off *)
  | CRLockC =>                                             (* 106 / 124 c.mutex.Lock(); 109 / 127 c.offset == 0 *)
      if cfree c
      then Some (set_cm CCR (if negb (off c) then set_cr CRUnlockC c else if crk c then set_cr CRAnn c else set_cr CRReset c))
      else None
  | CRAnn => if bfree c then Some (set_cr CRAcq (set_bw BCR c)) else None            (* 113 -> 257 b.mutex.Lock() *)
  | CRAcq => if noreaders c then Some (set_cr CRCommit c) else None
  | CRCommit =>                                                                      (* 261-271: unknown consumer / Broadcast *)
      Some (if reg c then set_cr CRBUnlock (bcast_b c) else set_cr CRBUnlockE c)
  | CRBUnlock => Some (set_cr CRReset (set_bw BFree c))                              (* 258 deferred b.mutex.Unlock() *)
  | CRBUnlockE => Some (set_cr CRUnlockC (set_bw BFree c))                           (* 258; 113-115 return err *)
  | CRReset =>                                                                       (* 117-118 / 131-132 offset = 0; Broadcast *)
      Some (set_cr CRUnlockC (set_off false (set_qCl false (if crk c then c else set_avail true c))))
  | CRUnlockC => Some (set_cr CRIdle (set_cm CFree c))                               (* 107 / 125 deferred c.mutex.Unlock() *)
  end.

(* ---- Put (buffer.go:64-84) ---- *)
Definition p_step (c : ctl) : option ctl :=
  match pt c with
  | PIdle => match np c with 0 => None | S k => Some (set_pt PAnn (set_np k c)) end   (* the call *)
  | PAnn => if bfree c then Some (set_pt PAcq (set_bw BP c)) else None                (* 73 b.mutex.Lock() *)
  | PAcq => if noreaders c then Some (set_pt PBody c) else None
  | PBody =>                                                                         (* 76 b.ctx.Err(); 80-81 append; Broadcast *)
      Some (if bcan c then set_pt PUnlock c else set_pt PUnlock (set_avail true (bcast_b c)))
  | PUnlock => Some (set_pt PIdle (set_bw BFree c))                                   (* 74 deferred b.mutex.Unlock() *)
  end.

(* cancel of the context passed to Get *)
Definition uc_step (c : ctl) : option ctl :=
  if ucanc c then Some (set_ucanc false (set_ucan true c)) else None.

Definition step (v : variant) (c : ctl) (pk : pick) : option ctl :=
  match pk with
  | PBC => bc_step c
  | PCW => cw_step v c
  | PCC => cc_step v c
  | PG => g_step c
  | PGA => ga_step v c
  | PGW => gw_step v c
  | PAF => af_step c
  | PAFS => afs_step c
  | PD => d_step v c
  | PCR k => cr_step k c
  | PP => p_step c
  | PUC => uc_step c
  end.

(* A schedule is a list of picks; a disabled pick is a stutter. *)
Fixpoint run (v : variant) (c : ctl) (sched : list pick) : ctl :=
  match sched with
  | [] => c
  | pk :: r => match step v c pk with Some c' => run v c' r | None => run v c r end
  end.

Fixpoint moves (v : variant) (c : ctl) (sched : list pick) : nat :=
  match sched with
  | [] => 0
  | pk :: r => match step v c pk with Some c' => S (moves v c' r) | None => moves v c r end
  end.

(* Initial configurations: an open buffer with one registered, open consumer, nothing locked, nobody waiting.
   [off0]: the consumer has uncommitted reads; [avail0]: a value is waiting for it; [uc]: somebody will cancel the
   context passed to Get; ng <= 1, nd, np: how many Get / Diff / Put calls the program may make. *)
Definition init (off0 avail0 uc : bool) (ng0 nd0 np0 ncc0 : nat) : ctl :=
  set_reg true (set_off off0 (set_avail avail0 (set_ucanc uc (set_ng ng0 (set_nd nd0 (set_np np0 (set_ncc ncc0 blank))))))).

Definition enabled (v : variant) (c : ctl) (pk : pick) : bool :=
  match step v c pk with Some _ => true | None => false end.

Definition is_terminal (v : variant) (c : ctl) : bool :=
  forallb (fun pk => negb (enabled v c pk)) all_pick.

(* The program's own decisions: making a call, cancelling the context it passed to Get. *)
Definition voluntary (c : ctl) (pk : pick) : bool :=
  match pk with
  | PBC => match bc c with BCIdle => true | _ => false end
  | PCC => match cc c with CCIdle => true | _ => false end
  | PG => match gt c with GIdle => true | _ => false end
  | PD => match df c with DIdle => true | _ => false end
  | PP => match pt c with PIdle => true | _ => false end
  | PUC => true
  | _ => false
  end.

(* Nothing can move except by a new decision of the program. *)
Definition quiescent (v : variant) (c : ctl) : bool :=
  forallb (fun pk => negb (enabled v c pk) || voluntary c pk) all_pick.

(* ---- observations ---- *)

(* Get is parked: the caller sits in <-out holding c.mutex, the getAsync goroutine is parked in cond.Wait() with its
   ticket un-notified. *)
Definition get_parked (c : ctl) : bool :=
  match gt c, ga c with GRecv, WParked => qGA c | _, _ => false end.

Definition get_returned (c : ctl) : bool := match gt c with GRet => true | _ => false end.
Definition get_called (c : ctl) : bool := match gt c with GIdle => false | _ => true end.

(* every goroutine the library started for the Get has ended, and CombineContext's registrations are gone *)
Definition get_goroutines_gone (c : ctl) : bool :=
  match ga c with GANone | GAExit => true | _ => false end
  && match gw c with TNone | TExit => true | _ => false end
  && match af c with AFPending => false | _ => true end.

Definition locks_free (c : ctl) : bool := bfree c && noreaders c && cfree c.

(* the consumer is completely closed: deregistered, done closed, Once finished, watcher goroutine ended *)
Definition consumer_closed (c : ctl) : bool :=
  negb (reg c) && cdone c && match conce c with ODone => true | _ => false end
  && match cw c with CWExit => true | _ => false end && match cl c with ClOff => true | _ => false end.

(* nothing of the consumer's shutdown has begun: open, registered, its watcher parked on <-c.ctx.Done() *)
Definition consumer_open (c : ctl) : bool :=
  reg c && negb (cdone c) && negb (ccan c) && match cw c with CWWait => true | _ => false end.

Definition bclose_called (c : ctl) : bool := match bc c with BCIdle => false | _ => true end.
Definition bclose_returned (c : ctl) : bool := match bc c with BCRet => true | _ => false end.
Definition cclose_called (c : ctl) : bool := match cc c with CCIdle => false | _ => true end.
Definition cclose_returned (c : ctl) : bool := match cc c with CCRet => true | _ => false end.

(* no Diff, Commit or Rollback is in progress and nothing is left uncommitted *)
Definition others_idle (c : ctl) : bool :=
  match df c with DIdle => true | _ => false end
  && match cr c with CRIdle => true | _ => false end
  && negb (off c).

(* What a quiescent state must look like.
   Either Get is legitimately parked — no value, nothing cancelled, Buffer.Close not called, the consumer open.  It
   holds c.mutex, so a Diff, a Commit/Rollback and an explicit consumer.Close() may be queued on c.mutex behind it
   (the proviso of C12: "no Get on that consumer is left blocked"); nothing else is in progress —
   or every call has returned, every lock is free, every goroutine started for Get has ended, nothing is left
   uncommitted, and the consumer is either untouched or completely closed; a Buffer.Close that was called has returned
   with b.done closed and the consumer closed. *)
Definition quiet_goal (c : ctl) : bool :=
  match pt c with PIdle => true | _ => false end &&
  (if get_parked c
   then negb (avail c) && negb (ccan c) && negb (bcan c) && negb (ucan c) && consumer_open c
        && negb (bclose_called c)
        && match cm c with CG => true | _ => false end && bfree c && noreaders c
        && match df c with DIdle | DLockC => true | _ => false end
        && match cr c with CRIdle => negb (off c) | CRLockC => true | _ => false end
        && (negb (cclose_called c) ||
            match cc c, cl c, conce c with CCBody, ClLockC, ORunC => true | _, _, _ => false end)
   else others_idle c
        && (negb (get_called c) || get_returned c)
        && get_goroutines_gone c && locks_free c
        && (negb (cclose_called c) || cclose_returned c)
        && (negb (bclose_called c) || (bclose_returned c && bdone c && bcan c))
        && (if ccan c then consumer_closed c else consumer_open c)
        && (negb (cclose_called c) || ccan c)).

(* ---- lock order: c.mutex before b.mutex ---- *)

(* some thread stands at a c.mutex.Lock() while it holds b.mutex (in either mode): the order is violated, whether or
   not a cycle closes *)
Definition takes_c_under_b (c : ctl) : bool :=
  match cl c with ClLockC | ClRelock => match bw c with BCl => true | _ => false end | _ => false end
  || match gt c with GLockC => gr c | _ => false end
  || match df c with DLockC => dr c | _ => false end
  || match cr c with CRLockC => match bw c with BCR => true | _ => false end | _ => false end.

(* the holder of c.mutex stands at a b.mutex.Lock() / RLock() and cannot get it *)
Definition c_holder_waits_b (c : ctl) : bool :=
  match cm c with
  | CCl => match cl c with ClDelAnn => negb (bfree c) | ClDelAcq => negb (noreaders c) | _ => false end
  | CG => match gt c with GRLock => negb (bfree c) | _ => false end
  | CD => match df c with DRLock => negb (bfree c) | _ => false end
  | CCR => match cr c with CRAnn => negb (bfree c) | CRAcq => negb (noreaders c) | _ => false end
  | CFree => false
  end.

(* a lock-order cycle: a thread holding its share of b.mutex waits for c.mutex, whose holder waits for b.mutex
   (directly, or behind a pending writer that waits for the readers to drain) *)
Definition lock_cycle (c : ctl) : bool := takes_c_under_b c && negb (cfree c) && c_holder_waits_b c.

(* ---- consistency of the lock fields with the program counters, and of the results with the data ---- *)

Definition bown_same (a b : bown) : bool :=
  match a, b with
  | BFree, BFree | BBC, BBC | BCl, BCl | BGA, BGA | BGW, BGW | BCR, BCR | BP, BP => true
  | _, _ => false
  end.

Definition cown_same (a b : cown) : bool :=
  match a, b with
  | CFree, CFree | CCl, CCl | CG, CG | CD, CD | CCR, CCR => true
  | _, _ => false
  end.

Definition b2n (b : bool) : nat := if b then 1 else 0.

(* who, according to the program counters, has announced / holds the write side of b.mutex *)
Definition bw_expected (c : ctl) : bown :=
  match bc c with BCAcq | BCCancel | BCEnq | BCWUnlock | BCReAcq | BCCloseDone | BCUnlock => BBC | _ =>
  match cl c with ClDelAcq | ClDel | ClDelUnlock => BCl | _ =>
  match ga c with GAAcq | GAComb | WStart | WFn | WEnq | WUnlock | WReAcq | WRet | GASend | GAUnlock => BGA | _ =>
  match gw c with TAcq | TBcast | TUnlock => BGW | _ =>
  match cr c with CRAcq | CRCommit | CRBUnlock | CRBUnlockE => BCR | _ =>
  match pt c with PAcq | PBody | PUnlock => BP | _ => BFree end end end end end end.

Definition cm_expected (c : ctl) : cown :=
  match cl c with ClCancel | ClEnq | ClWUnlock | ClDelAnn | ClDelAcq | ClDel | ClDelUnlock | ClCloseDone | ClUnlockC => CCl | _ =>
  match gt c with GChkC | GRLock | GSync | GRUnE | GRUnV | GRUnA | GRecv | GIncr | GDefer | GUnlockC => CG | _ =>
  match df c with DRLock | DRUnlock | DUnlockC => CD | _ =>
  match cr c with CRAnn | CRAcq | CRCommit | CRBUnlock | CRBUnlockE | CRReset | CRUnlockC => CCR | _ => CFree end end end end.

(* mutual exclusion: a writer past *Acq excludes readers; the recorded owners are the threads whose program counter
   says so (at most one each); the reader count is the number of threads holding a read lock *)
Definition locks_consistent (c : ctl) : bool :=
  bown_same (bw c) (bw_expected c) && cown_same (cm c) (cm_expected c)
  && Nat.eqb (br c) (b2n (gr c) + b2n (dr c))
  && eqb (gr c) (match gt c with GSync | GRUnE | GRUnV | GRUnA => true | _ => false end)
  && eqb (dr c) (match df c with DRUnlock => true | _ => false end)
  && Nat.leb (b2n (match bc c with BCAcq | BCCancel | BCEnq | BCWUnlock | BCReAcq | BCCloseDone | BCUnlock => true | _ => false end)
              + b2n (match cl c with ClDelAcq | ClDel | ClDelUnlock => true | _ => false end)
              + b2n (match ga c with GAAcq | GAComb | WStart | WFn | WEnq | WUnlock | WReAcq | WRet | GASend | GAUnlock => true
                                | _ => false end)
              + b2n (match gw c with TAcq | TBcast | TUnlock => true | _ => false end)
              + b2n (match cr c with CRAcq | CRCommit | CRBUnlock | CRBUnlockE => true | _ => false end)
              + b2n (match pt c with PAcq | PBody | PUnlock => true | _ => false end)) 1
  && Nat.leb (b2n (match cl c with ClCancel | ClEnq | ClWUnlock | ClDelAnn | ClDelAcq | ClDel | ClDelUnlock | ClCloseDone
                                | ClUnlockC => true | _ => false end)
              + b2n (match gt c with GChkC | GRLock | GSync | GRUnE | GRUnV | GRUnA | GRecv | GIncr | GDefer | GUnlockC => true
                                | _ => false end)
              + b2n (match df c with DRLock | DRUnlock | DUnlockC => true | _ => false end)
              + b2n (match cr c with CRAnn | CRAcq | CRCommit | CRBUnlock | CRBUnlockE | CRReset | CRUnlockC => true
                                | _ => false end)) 1
  && (* a writer that is past its *Acq step has no reader beside it *)
     (match bc c, cl c, ga c, gw c, cr c, pt c with
      | (BCCancel | BCEnq | BCWUnlock | BCCloseDone | BCUnlock), _, _, _, _, _
      | _, (ClDel | ClDelUnlock), _, _, _, _
      | _, _, (GAComb | WStart | WFn | WEnq | WUnlock | WRet | GASend | GAUnlock), _, _, _
      | _, _, _, (TBcast | TUnlock), _, _
      | _, _, _, _, (CRCommit | CRBUnlock | CRBUnlockE), _
      | _, _, _, _, _, (PBody | PUnlock) => noreaders c
      | _, _, _, _, _, _ => true
      end).

Definition implb' (a b : bool) : bool := negb a || b.

(* what the results and the done channels imply *)
Definition results_consistent (c : ctl) : bool :=
  (* Get returns a value only if one was there; an error only if the consumer's or the caller's context is cancelled *)
  implb' (match gres c with RVal => true | _ => false end) (avail c)
  && implb' (match gres c with RErr => true | _ => false end) (ccan c || ucan c)
  && implb' (get_returned c) (match gres c with RNone => false | _ => true end)
  (* a Get that began after the consumer's context was cancelled fails without touching b.mutex or parking *)
  && implb' (gafter c) (match gt c with GIdle | GLockC | GChkC | GDefer | GUnlockC | GRet => true | _ => false end
                        && match gres c with RVal => false | _ => true end
                        && match ga c with GANone => true | _ => false end)
  (* a deregistered consumer has nothing uncommitted, so Commit never meets "unknown consumer" with offset != 0 *)
  && implb' (negb (reg c)) (negb (off c) && ccan c)
  && match cr c with CRBUnlockE => false | _ => true end
  (* done channels *)
  && implb' (bdone c) (bcan c && negb (reg c))
  && implb' (cdone c) (negb (reg c) && ccan c)
  && implb' (bcan c) (ccan c)
  (* sync.Once: the body runs in exactly the thread recorded; a caller that got the "only once" error lost to the
     watcher *)
  && eqb (match conce c with ORunW => true | _ => false end) (match cw c with CWBody => true | _ => false end)
  && eqb (match conce c with ORunC => true | _ => false end) (match cc c with CCBody => true | _ => false end)
  && eqb (match cl c with ClOff => false | _ => true end) (match conce c with ORunW | ORunC => true | _ => false end)
  && implb' (match ccres c with RErr => true | _ => false end) (match cw c with CWExit => true | _ => false end).

(* ---- termination measure (for the code as written) ---- *)

Local Open Scope N_scope.
Definition b2N (b : bool) : N := if b then 1 else 0.

(* Get may still obtain a value (and so make c.offset non-zero and Broadcast on c.cond) *)
Definition g_may_incr (c : ctl) : bool :=
  match gt c with
  | GIdle => match ng c with O => false | _ => true end
  | GLockC | GChkC | GRLock | GSync | GRUnV | GRUnA | GRecv | GIncr => true
  | _ => false
  end.

Definition g_may_spawn (c : ctl) : bool :=
  match gt c with
  | GIdle => match ng c with O => false | _ => true end
  | GLockC | GChkC | GRLock | GSync => true
  | _ => false
  end.

(* Broadcasts on b.cond still to come: delete's, commit's, Put's, the WaitCond watcher's *)
Definition b_bcasts_left (c : ctl) : N :=
  (match conce c, cl c with
   | ODone, _ => 0
   | _, (ClDelUnlock | ClCloseDone | ClUnlockC | ClEnd) => 0
   | _, _ => 1 end)
  + (b2N (g_may_incr c)
     + match cr c with CRIdle => b2N (off c) | CRLockC | CRAnn | CRAcq | CRCommit => 1 | _ => 0 end)
  + (N.of_nat (np c) + match pt c with PAnn | PAcq | PBody => 1 | _ => 0 end)
  + match gw c with TUnlock | TExit => 0 | _ => 1 end.

(* Broadcasts on c.cond still to come: Get's, Commit's / Rollback's *)
Definition c_bcasts_left (c : ctl) : N :=
  b2N (g_may_incr c)
  + (b2N (g_may_incr c)
     + match cr c with
       | CRIdle => b2N (off c)
       | CRLockC | CRAnn | CRAcq | CRCommit | CRBUnlock | CRReset => 1
       | _ => 0 end).

(* Commit / Rollback calls still to be started *)
Definition cr_runs_left (c : ctl) : N :=
  b2N (g_may_incr c) + match cr c with CRIdle => b2N (off c) | _ => 0 end.

Definition pos_bc (c : ctl) : N :=
  match bc c with
  | BCRet => 0 | BCUnlock => 1 | BCCloseDone => 2
  | BCParked => if qBC c then 3 else 8
  | BCWUnlock => 4 | BCEnq => 5 | BCReAcq => 6 | BCReAnn => 7
  | BCCancel => 9 | BCAcq => 10 | BCAnn => 11 | BCIdle => 12
  end.

Definition pos_cl (c : ctl) : N :=
  match cl c with
  | ClOff => match conce c with ODone => 0 | _ => 15 end
  | ClEnd => 1 | ClUnlockC => 2 | ClCloseDone => 3 | ClDelUnlock => 4 | ClDel => 5 | ClDelAcq => 6 | ClDelAnn => 7
  | ClParked => if qCl c then 8 else 12
  | ClWUnlock => 9 | ClEnq => 10 | ClRelock => 11 | ClCancel => 13 | ClLockC => 14
  end.

Definition pos_cw (c : ctl) : N := match cw c with CWWait => 3 | CWDo => 2 | CWBody => 1 | CWExit => 0 end.
Definition pos_cc (c : ctl) : N :=
  3 * N.of_nat (ncc c) + match cc c with CCIdle => 0 | CCDo => 2 | CCBody => 1 | CCRet => 0 end.

Definition pos_g (c : ctl) : N :=
  match gt c with
  | GRet => 0 | GUnlockC => 1 | GDefer => 2 | GIncr => 3 | GRecv => 4 | GRUnA => 5 | GRUnV => 4 | GRUnE => 3
  | GSync => 6 | GRLock => 7 | GChkC => 8 | GLockC => 9 | GIdle => 10 * N.of_nat (ng c)
  end.

Definition pos_ga (c : ctl) : N :=
  match ga c with
  | GAExit => 0 | GAUnlock => 1 | GASend => 2 | WRet => 3
  | WParked => if qGA c then 4 else 11
  | WUnlock => 5 | WEnq => 6 | WFn => 7 | WStart => 8 | WReAcq => 9 | WReAnn => 10
  | GAComb => 12 | GAAcq => 13 | GAAnn => 14
  | GANone => if g_may_spawn c then 15 else 0
  end.

Definition pos_gw (c : ctl) : N :=
  match gw c with
  | TNone => if g_may_spawn c then 6 else match ga c with GANone | GAExit => 0 | _ => 6 end
  | TWait => 5 | TAnn => 4 | TAcq => 3 | TBcast => 2 | TUnlock => 1 | TExit => 0
  end.

Definition pos_af (c : ctl) : N :=
  match af c with
  | AFNone => if g_may_spawn c then 1 else match ga c with GAAnn | GAAcq | GAComb => 1 | _ => 0 end
  | AFPending => 1 | _ => 0
  end.

Definition pos_d (c : ctl) : N :=
  5 * N.of_nat (nd c) + match df c with DIdle => 0 | DLockC => 4 | DRLock => 3 | DRUnlock => 2 | DUnlockC => 1 end.

Definition pos_cr (c : ctl) : N :=
  match cr c with
  | CRIdle => 0 | CRUnlockC => 1 | CRReset => 2 | CRBUnlock => 3 | CRBUnlockE => 3 | CRCommit => 4 | CRAcq => 5
  | CRAnn => 6 | CRLockC => 7
  end.

Definition pos_p (c : ctl) : N :=
  5 * N.of_nat (np c) + match pt c with PIdle => 0 | PAnn => 4 | PAcq => 3 | PBody => 2 | PUnlock => 1 end.

(* Every step of the code as written decreases [mu]: a Broadcast may send its waiters round their loops once more
   (at most 5 + 7 positions on b.cond, 4 on c.cond) but uses up one of the Broadcasts still to come. *)
Definition mu (c : ctl) : N :=
  13 * b_bcasts_left c + 5 * c_bcasts_left c + 8 * cr_runs_left c
  + pos_bc c + pos_cl c + pos_cw c + pos_cc c + pos_g c + pos_ga c + pos_gw c + pos_af c + pos_d c + pos_cr c + pos_p c
  + b2N (ucanc c).
