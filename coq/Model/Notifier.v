(* Model of bigbuff.Notifier (notifier.go): the subscription registry and ONE call of PublishContext with its three
   parallel slices (successCases, failureCases, failureRefs) exactly as coded, plus the abstract "set of pending
   subscriptions" semantics the slices are meant to implement.
   Executable definitions only; proofs are in Proofs/Notifier.v.

   Line numbers refer to /repo/notifier.go at HEAD (after b6b3651, which added the untyped-nil branch l.158-169 to the
   construction loop; the select loop is l.177-224).

   What one Publish sees.  PublishContext holds n.mutex.RLock for its whole duration, so the set of subscriptions
   under the key is fixed during the call; it is handed to the model as [subs], in the (arbitrary) order in which
   `range keySubscribers` (l.154) happens to enumerate the map.  A target channel is identified by its [sid]. *)
From Coq Require Import List Arith Bool.
Import ListNotations.

(* ------------------------------------------------------------------------------------------------------------ *)
(* Subscriptions and the concrete state of the publish loop                                                      *)
(* ------------------------------------------------------------------------------------------------------------ *)

Record sub := {
  sid        : nat;    (* identity of the target channel (valuePtr) *)
  has_ctx    : bool;   (* keySubscriber.ctx != nil *)
  cancelled0 : bool;   (* keySubscriber.ctx.Err() != nil when the scan at l.155 looks at it *)
  compat     : bool    (* l.158-169: valueRef.Type().AssignableTo(target.Type().Elem()) (l.167); for an untyped nil
                          value (l.159-166): the element type's kind can hold nil, and its zero value is sent *)
}.

Record cstate := {
  succ : list nat;   (* successCases: sid of each pending send case, in slice order *)
  fail : list nat;   (* failureCases: sid of the subscription whose ctx.Done() each case watches, in slice order *)
  refs : list nat    (* failureRefs: for each failure case, the INDEX into successCases of the send it guards *)
}.

Definition mk (s f r : list nat) : cstate := {| succ := s; fail := f; refs := r |}.

(* l.154-175: one pass of the construction loop. *)
Definition build_step (c : cstate) (s : sub) : cstate :=
  if has_ctx s && cancelled0 s then c                       (* l.155-157 continue *)
  else if negb (compat s) then c                            (* l.158-169 continue (l.165 / l.168) *)
  else if has_ctx s then
    mk (succ c ++ [sid s])                                  (* l.174 *)
       (fail c ++ [sid s])                                  (* l.171 *)
       (refs c ++ [length (succ c)])                        (* l.172: len(successCases) BEFORE the append of l.174 *)
  else mk (succ c ++ [sid s]) (fail c) (refs c).            (* l.174 only *)

Definition build (subs : list sub) : cstate := fold_left build_step subs (mk [] [] []).

(* ------------------------------------------------------------------------------------------------------------ *)
(* Slice primitives                                                                                              *)
(* ------------------------------------------------------------------------------------------------------------ *)

(* copy(s[n:], s[n+1:]); s = s[:len(s)-1]  (l.209-211, l.217-220, l.222-223); callers check n < len s. *)
Fixpoint remove_nth {A : Type} (n : nat) (l : list A) {struct l} : list A :=
  match l with
  | [] => []
  | x :: l' => match n with 0 => l' | S n' => x :: remove_nth n' l' end
  end.

(* l.193-199: index of the first element equal to x (the search for the failure case guarding successIndex);
   also used by the driver to find the position of a sid. *)
Fixpoint index_of (x : nat) (l : list nat) : option nat :=
  match l with
  | [] => None
  | y :: l' => if y =? x then Some 0 else option_map S (index_of x l')
  end.

(* ------------------------------------------------------------------------------------------------------------ *)
(* Mutation flags (all false = the code as written)                                                              *)
(* ------------------------------------------------------------------------------------------------------------ *)

Record flags := {
  rebase_lt          : bool;  (* l.203 tests  failureRefs[i] <  successIndex  instead of <= *)
  no_ref_removal     : bool;  (* l.222-223 omitted: the failure case is removed but not its ref *)
  rebase_before_test : bool   (* l.203-206 reordered: failureRefs[i]-- first, then the <= test and break *)
}.

Definition good : flags := {| rebase_lt := false; no_ref_removal := false; rebase_before_test := false |}.

(* l.202-207, the re-basing loop
       for i := len(failureRefs) - 1; i >= 0; i-- { if failureRefs[i] <= successIndex { break }; failureRefs[i]-- }
   It walks the slice from its LAST element down, so it is transcribed as a recursion over the reversed slice;
   the early `break` returns the remaining (lower-index) elements untouched. *)
Fixpoint rebase_rev (fl : flags) (j : nat) (r : list nat) : list nat :=
  match r with
  | [] => []
  | x :: r' =>
      if rebase_before_test fl then
        let x' := x - 1 in                                            (* mutant: decrement ... *)
        if x' <=? j then x' :: r' else x' :: rebase_rev fl j r'       (* ... then test / break *)
      else if (if rebase_lt fl then x <? j else x <=? j) then r      (* l.203-205: break *)
      else (x - 1) :: rebase_rev fl j r'                              (* l.206 *)
  end.

Definition rebase (fl : flags) (j : nat) (r : list nat) : list nat := rev (rebase_rev fl j (rev r)).

(* ------------------------------------------------------------------------------------------------------------ *)
(* One iteration of `for len(successCases) != 0` (l.177-224), given what reflect.Select chose                     *)
(* ------------------------------------------------------------------------------------------------------------ *)

Inductive fired :=
| FExit               (* exitIndex < len(exitCases): the publish ctx's Done fired *)
| FFail (i : nat)     (* index into failureCases *)
| FSucc (i : nat).    (* index into successCases: that send went through *)

Inductive ires :=
| IReturn                                      (* l.186: PublishContext returns *)
| IBad                                         (* index out of range: reflect.Select cannot produce it; Go would panic *)
| ICont (c : cstate) (delivered : option nat). (* next iteration; the sid that received the value, if any *)

(* l.202-223 with successIndex = j and failureIndex = fi (None is the code's -1). *)
Definition finish (fl : flags) (c : cstate) (j : nat) (fi : option nat) (d : option nat) : ires :=
  if j <? length (succ c) then
    let refs1 := rebase fl j (refs c) in                              (* l.202-207 *)
    let succ1 := remove_nth j (succ c) in                             (* l.209-211 *)
    match fi with
    | None => ICont (mk succ1 (fail c) refs1) d                       (* l.213-215 continue *)
    | Some i =>
        if (i <? length (fail c)) && (i <? length refs1) then
          ICont (mk succ1
                    (remove_nth i (fail c))                           (* l.217-220 *)
                    (if no_ref_removal fl then refs1 else remove_nth i refs1))   (* l.222-223 *)
                d
        else IBad
    end
  else IBad.

Definition iter_gen (fl : flags) (c : cstate) (f : fired) : ires :=
  match f with
  | FExit => IReturn                                                  (* l.185-186 *)
  | FFail i =>                                                        (* l.188-190 *)
      if i <? length (fail c) then
        match nth_error (refs c) i with
        | Some j => finish fl c j (Some i) None                       (* successIndex = failureRefs[failureIndex] *)
        | None => IBad
        end
      else IBad
  | FSucc j =>                                                        (* l.192-200 *)
      match nth_error (succ c) j with
      | Some s => finish fl c j (index_of j (refs c)) (Some s)        (* failureIndex = first i with refs[i] = j, or -1 *)
      | None => IBad
      end
  end.

Definition iter : cstate -> fired -> ires := iter_gen good.

(* l.179-181: the single index returned by reflect.Select over exitCases ++ failureCases ++ successCases, and the
   code's decoding of it (failureIndex = exitIndex - len(exitCases); successIndex = failureIndex - len(failureCases);
   the `switch` of l.184-200 tests them in this order, so the subtractions are only used when they are non-negative). *)
Definition decode (nexit : nat) (c : cstate) (exitIndex : nat) : option fired :=
  if exitIndex <? nexit then Some FExit
  else let failureIndex := exitIndex - nexit in
       if failureIndex <? length (fail c) then Some (FFail failureIndex)
       else let successIndex := failureIndex - length (fail c) in
            if successIndex <? length (succ c) then Some (FSucc successIndex) else None.

Definition encode (nexit : nat) (c : cstate) (f : fired) : nat :=
  match f with
  | FExit => 0
  | FFail i => nexit + i
  | FSucc i => nexit + length (fail c) + i
  end.

Definition iter_raw (fl : flags) (nexit : nat) (c : cstate) (exitIndex : nat) : ires :=
  match decode nexit c exitIndex with
  | Some f => iter_gen fl c f
  | None => IBad
  end.

(* ------------------------------------------------------------------------------------------------------------ *)
(* Harness-facing driver: events name identities, not indexes                                                    *)
(* ------------------------------------------------------------------------------------------------------------ *)

Inductive ev :=
| EvReady (s : nat)    (* the target with this sid became receivable: its send case is the one ready case *)
| EvCancel (s : nat)   (* the context of the subscription with this sid was cancelled *)
| EvExit.              (* the publish context was cancelled *)

(* Which select case (if any) the event makes ready in state c.  An event for a sid that is not pending, a cancel
   for a subscription without a watched context, or EvExit without a publish context make nothing ready. *)
Definition fire_of (pub_ctx : bool) (c : cstate) (e : ev) : option fired :=
  match e with
  | EvReady s => option_map FSucc (index_of s (succ c))
  | EvCancel s => option_map FFail (index_of s (fail c))
  | EvExit => if pub_ctx then Some FExit else None
  end.

Definition ocons (d : option nat) (l : list nat) : list nat :=
  match d with Some s => s :: l | None => l end.

(* Result: (sids delivered to, in order; has PublishContext returned).  IBad (possible for mutants only) stops the
   run with returned = false. *)
Fixpoint run_loop (fl : flags) (pub_ctx : bool) (c : cstate) (evs : list ev) : list nat * bool :=
  match succ c with
  | [] => ([], true)                                                  (* l.177: len(successCases) == 0 *)
  | _ :: _ =>
      match evs with
      | [] => ([], false)                                             (* still blocked in reflect.Select *)
      | e :: evs' =>
          match fire_of pub_ctx c e with
          | None => run_loop fl pub_ctx c evs'
          | Some f =>
              match iter_gen fl c f with
              | IReturn => ([], true)
              | IBad => ([], false)
              | ICont c' d => let r := run_loop fl pub_ctx c' evs' in (ocons d (fst r), snd r)
              end
          end
      end
  end.

Definition run_publish_gen (fl : flags) (pub_ctx : bool) (subs : list sub) (evs : list ev) : list nat * bool :=
  run_loop fl pub_ctx (build subs) evs.

Definition run_publish : bool -> list sub -> list ev -> list nat * bool := run_publish_gen good.

(* ------------------------------------------------------------------------------------------------------------ *)
(* Abstract specification: a SET of pending sids                                                                 *)
(* ------------------------------------------------------------------------------------------------------------ *)

Definition mem (x : nat) (l : list nat) : bool := existsb (Nat.eqb x) l.
Definition rm (x : nat) (l : list nat) : list nat := filter (fun y => negb (y =? x)) l.

Definition eligible (s : sub) : bool := compat s && negb (has_ctx s && cancelled0 s).
Definition pending0 (subs : list sub) : list nat := map sid (filter eligible subs).

(* "the subscription with this sid was made with a context" *)
Definition guarded (subs : list sub) (s : nat) : bool := existsb (fun x => (sid x =? s) && has_ctx x) subs.

(* [g] tells which sids have a context; [pending] is used as a set (only mem / rm / emptiness). *)
Fixpoint spec_loop (pub_ctx : bool) (g : nat -> bool) (pending : list nat) (evs : list ev) : list nat * bool :=
  match pending with
  | [] => ([], true)
  | _ :: _ =>
      match evs with
      | [] => ([], false)
      | EvReady s :: evs' =>
          if mem s pending
          then let r := spec_loop pub_ctx g (rm s pending) evs' in (s :: fst r, snd r)
          else spec_loop pub_ctx g pending evs'
      | EvCancel s :: evs' =>
          if mem s pending && g s
          then spec_loop pub_ctx g (rm s pending) evs'
          else spec_loop pub_ctx g pending evs'
      | EvExit :: evs' =>
          if pub_ctx then ([], true) else spec_loop pub_ctx g pending evs'
      end
  end.

Definition spec_publish (pub_ctx : bool) (subs : list sub) (evs : list ev) : list nat * bool :=
  spec_loop pub_ctx (guarded subs) (pending0 subs) evs.

(* ------------------------------------------------------------------------------------------------------------ *)
(* Registry: n.subscribers as an association from key to the target ids subscribed under it                       *)
(* ------------------------------------------------------------------------------------------------------------ *)

Definition registry := list (nat * list nat).

Fixpoint lookup (k : nat) (r : registry) : list nat :=                (* n.subscribers[key]; absent = empty *)
  match r with
  | [] => []
  | (k', l) :: r' => if k' =? k then l else lookup k r'
  end.

Definition remove_key (k : nat) (r : registry) : registry :=          (* delete(subscribers, key) *)
  filter (fun p => negb (fst p =? k)) r.

Definition set_key (k : nat) (l : list nat) (r : registry) : registry := (k, l) :: remove_key k r.

(* SubscribeContext, l.35-63.  None = panic at l.55, registry unchanged. *)
Definition subscribe (k t : nat) (r : registry) : option registry :=
  let l := lookup k r in
  if mem t l then None else Some (set_key k (l ++ [t]) r).

(* Unsubscribe, l.96-121.  None = panic at l.120, registry unchanged.  The key is deleted with its last target
   (l.109-110). *)
Definition unsubscribe (k t : nat) (r : registry) : option registry :=
  let l := lookup k r in
  if mem t l then
    match rm t l with
    | [] => Some (remove_key k r)
    | l' => Some (set_key k l' r)
    end
  else None.

(* ------------------------------------------------------------------------------------------------------------ *)
(* Registry with the context each subscription was registered with (notifierSubscriber.ctx)                        *)
(* ------------------------------------------------------------------------------------------------------------ *)

(* what Publish can see of a subscription's context: none | live | already cancelled *)
Inductive sctx := CtxNone | CtxLive | CtxCancelled.

Definition ctxtab := list (nat * nat * sctx).                          (* (key, target) -> registered context *)
Definition cregistry := (registry * ctxtab)%type.

Fixpoint ctx_of (k t : nat) (tab : ctxtab) : sctx :=
  match tab with
  | [] => CtxNone
  | (k', t', c) :: tab' => if (k' =? k) && (t' =? t) then c else ctx_of k t tab'
  end.

Definition drop_ctx (k t : nat) (tab : ctxtab) : ctxtab :=
  filter (fun e => negb ((fst (fst e) =? k) && (snd (fst e) =? t))) tab.

(* SubscribeContext(ctx, key, target): None = the duplicate panic, NOTHING of the existing subscription changes *)
Definition subscribe_ctx (c : sctx) (k t : nat) (cr : cregistry) : option cregistry :=
  match subscribe k t (fst cr) with
  | Some r' => Some (r', (k, t, c) :: drop_ctx k t (snd cr))
  | None => None
  end.

Definition unsubscribe_ctx (k t : nat) (cr : cregistry) : option cregistry :=
  match unsubscribe k t (fst cr) with
  | Some r' => Some (r', drop_ctx k t (snd cr))
  | None => None
  end.

(* the subscriptions a Publish of a value every target accepts finds under key k *)
Definition subs_of (k : nat) (cr : cregistry) : list sub :=
  map (fun t => match ctx_of k t (snd cr) with
                | CtxNone => {| sid := t; has_ctx := false; cancelled0 := false; compat := true |}
                | CtxLive => {| sid := t; has_ctx := true; cancelled0 := false; compat := true |}
                | CtxCancelled => {| sid := t; has_ctx := true; cancelled0 := true; compat := true |}
                end) (lookup k (fst cr)).

(* Publish to targets that are all ready (buffered, drained): who receives *)
Definition publish_ready (k : nat) (cr : cregistry) : list nat * bool :=
  run_publish false (subs_of k cr) (map (fun t => EvReady t) (lookup k (fst cr))).
