(* Finer-grained variant of the ChanPubSub counter abstraction (Model/PubSubAbs.v): the sender steps that PubSubAbs fuses
   are split into the individual atomic operations of the Go code, with the values the sender holds in LOCAL variables in
   between made explicit.  Subscriber steps are literally those of PubSubAbs.step_gen.

     PubSubAbs   here        Go
     S4          X4a         chanpubsub.go:195   subscribers := x.subscribers.Load()   (0: return)      -> local [l4]
                 X4b         chanpubsub.go:210   x.ping.Add(subscribers) = chancaster.go:147 state.Add(...) + the checks of
                                                 chancaster.go:153-155 (not armed) and chanpubsub.go:210 (result = subscribers)
     S5          X5a         chancaster.go:54/69 state = x.state.Load()               (0: return 0)     -> local [l5]
                 X5b         chancaster.go:83    CompareAndSwap(state, armed)          (fails: back to X5a; succeeds: the local
                                                 `receivers` = [rc0] copies will be sent)
     S7          X7a         chancaster.go:96-99 state = x.state.Load(); checks hi <= receivers, lo = hi + MaxInt32
                                                                                                        -> locals [l7] [l7a]
                 X7b         chancaster.go:100   CompareAndSwap(state, 0)              (fails: panic = bad)
   All other sender pcs are as in PubSubAbs (X2 X3 X6 X8 X9 X10 = S2 S3 S6 S8 S9 S10).

   [bad] is set wherever one of the code's state-invariant panics would fire; compared with PubSubAbs there are more such
   places because the checks are now made on possibly stale local values:
     X4b  the caster was armed or non-zero when the count was added (chancaster.go:153-155 / chanpubsub.go:210)
     X5a  the loaded word is armed (tracker != receivers, chancaster.go:76)
     X7a  the loaded hi exceeds the number of copies sent, or the word is not armed (chancaster.go:98-99)
     X7b  the word changed between the load and the CAS (chancaster.go:100)

   The ghost relabelling "not owed -> owed" happens at X4a: the Load is the point at which the Send takes its count.

   Executable definitions only; proofs are in Proofs/PubSubSplit.v. *)
From Coq Require Import List Arith Bool.
From BB.Model Require Import PubSubAbs.
Import ListNotations.

Inductive xpc := XNone | X2 | X3 | X4a | X4b | X5a | X5b | X6 | X7a | X7b | X8 | X9 | X10.

(* the PubSubAbs pc a split pc belongs to *)
Definition proj (c : xpc) : spc :=
  match c with
  | XNone => SNone | X2 => S2 | X3 => S3 | X4a | X4b => S4 | X5a | X5b => S5 | X6 => S6 | X7a | X7b => S7
  | X8 => S8 | X9 => S9 | X10 => S10
  end.

Record xst := {
  xp : xpc;
  xv : var -> nat;    (* shared variables and thread counters, as in PubSubAbs *)
  l4 : nat;           (* Send's local `subscribers` *)
  l5 : nat;           (* ChanCaster.Send's local `state` (its hi word) of the arming loop *)
  rc0 : nat;          (* ChanCaster.Send's local `receivers`: copies to send *)
  l7 : nat;           (* ChanCaster.Send's local `state` of the final check: hi word *)
  l7a : nat           (* ... and whether its lo word was hi + MaxInt32 *)
}.

Definition xmk (c : xpc) (f : var -> nat) (a b d e g : nat) : xst :=
  {| xp := c; xv := f; l4 := a; l5 := b; rc0 := d; l7 := e; l7a := g |}.

Definition xstep_gen (fl : flags) (s : xst) (p : pick) : option xst :=
  let f := xv s in
  let keep c f' := Some (xmk c f' (l4 s) (l5 s) (rc0 s) (l7 s) (l7a s)) in
  match p with
  | PSendLock => match xp s with XNone => if pos (f sq) then keep X2 (f [sq := f sq - 1]) else None | _ => None end
  | PS =>
      match xp s with
      | XNone => None
      | X2 => keep X3 (f [wp := 1])
      | X3 => if f r =? 0 then keep X4a (f [w := 1] [wp := 0]) else None
      | X4a => if f subs =? 0 then keep XNone (f [w := 0])
               else Some (xmk X4b (f [b0o := f b0o + f b0n] [b0n := 0] [n1o := f n1o + f n1n] [n1n := 0]
                                     [n2ko := f n2ko + f n2kn] [n2kn := 0] [n2fo := f n2fo + f n2fn] [n2fn := 0])
                              (f subs) (l5 s) (rc0 s) (l7 s) (l7a s))
      | X4b => keep X5a (f [bad := if (f cnt =? 0) && (f armed =? 0) then f bad else 1] [cnt := f cnt + l4 s])
      | X5a => if (f cnt =? 0) && (f armed =? 0) then keep X8 (f [sent := 0] [rcv := 0])
               else Some (xmk X5b (f [bad := if f armed =? 0 then f bad else 1]) (l4 s) (f cnt) (rc0 s) (l7 s) (l7a s))
      | X5b => if (f cnt =? l5 s) && (f armed =? 0)
               then Some (xmk X6 (f [armed := 1] [k := l5 s] [rcv := 0]) (l4 s) (l5 s) (l5 s) (l7 s) (l7a s))
               else keep X5a f
      | X6 => if f k =? 0 then keep X7a f else None
      | X7a => Some (xmk X7b (f [bad := if (f cnt <=? rc0 s) && negb (f armed =? 0) then f bad else 1])
                         (l4 s) (l5 s) (rc0 s) (f cnt) (f armed))
      | X7b => if (f cnt =? l7 s) && (f armed =? l7a s)
               then keep X8 (f [sent := l7 s] [cnt := 0] [armed := 0])
               else keep X8 (f [sent := l7 s] [bad := 1])
      | X8 => keep X9 (f [w := 0])
      | X9 => if f sent =? 0 then keep XNone f else keep X10 (f [pongN := f sent])
      | X10 => if f pongN =? 0 then keep XNone f else None
      end
  | _ =>
      (* PSendStart and every subscriber pick: the PubSubAbs step at the projected pc (none of them moves the sender) *)
      match step_gen fl (mk (proj (xp s)) f) p with
      | Some s' => keep (xp s) (v s')
      | None => None
      end
  end.

Definition xstep : xst -> pick -> option xst := xstep_gen good_flags.

Definition xinit (senders subscribers : nat) : xst :=
  xmk XNone (v (init senders subscribers)) 0 0 0 0 0.

Fixpoint xrun_gen (fl : flags) (s : xst) (sched : list pick) : xst :=
  match sched with
  | [] => s
  | p :: rest => xrun_gen fl (match xstep_gen fl s p with Some s' => s' | None => s end) rest
  end.

Definition xrun : xst -> list pick -> xst := xrun_gen good_flags.

Definition xterminalb (s : xst) : bool :=
  forallb (fun p => match xstep s p with Some _ => false | None => true end) all_picks.

Definition xquiescentb (s : xst) : bool :=
  forallb (fun p => voluntary p || match xstep s p with Some _ => false | None => true end) all_picks.
