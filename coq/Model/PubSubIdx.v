(* Indexed-subscriber model of ChanPubSub: EVERY subscriber goroutine is tracked individually.

   Model/PubSubAbs.v keeps subscribers anonymous (a counter per program point); Model/PubSubTag.v tracks ONE of them.  The step
   from "an arbitrary tracked subscription" to "all n distinct subscriptions" was a symmetry meta-argument.  This model makes it a
   theorem: the state holds, for each subscriber index i, its program point and the same ghost observations as PubSubTag
   (counted by the running round, round number when it subscribed, rounds received newest first), next to the PubSubAbs state
   (shared variables and the per-program-point counters, which Proofs/PubSubIdx.v shows to be exactly the number of indices at
   that program point).  The transition of the shared state is PubSubAbs.step_gen, unchanged.  Proofs/PubSubIdx.v shows that for
   EVERY index i the projection [view i] of an indexed run is a run of PubSubTag with subscriber i as the tagged one, so every
   theorem about the tagged subscription holds of each index, and counts the distinct indices that received a round.

   Executable definitions only. *)
From Coq Require Import List Arith Bool.
From BB.Model Require Import PubSubAbs PubSubTag.
Import ListNotations.

Record sub := {
  pc : var;            (* program point (one of the thread counters of PubSubAbs) *)
  cnted : bool;        (* = PubSubTag.towed for this subscriber *)
  subat : nat;         (* = PubSubTag.tsub *)
  slog : list nat      (* = PubSubTag.tlog *)
}.

Record nst := { nbase : st; nround : nat; nsubs : list sub }.

Inductive npick := Sender (p : pick) | Sub (i : nat) (p : pick).

Fixpoint upd {A : Type} (l : list A) (i : nat) (y : A) : list A :=
  match l, i with
  | [], _ => []
  | _ :: rest, 0 => y :: rest
  | x :: rest, S j => x :: upd rest j y
  end.

(* the count relabels every subscriber (PubSubTag does this to the tagged one) *)
Definition relabel_sub (x : sub) : sub :=
  {| pc := relabel (pc x); cnted := relabels (pc x); subat := subat x; slog := slog x |}.

Definition nstep_gen (fl : flags) (s : nst) (q : npick) : option nst :=
  match q with
  | Sender p =>
      match src p with
      | Some _ => None
      | None =>
          match step_gen fl (nbase s) p with
          | None => None
          | Some b' =>
              if is_count (nbase s) p
              then Some {| nbase := b'; nround := S (nround s); nsubs := map relabel_sub (nsubs s) |}
              else Some {| nbase := b'; nround := nround s; nsubs := nsubs s |}
          end
      end
  | Sub i p =>
      match nth_error (nsubs s) i, src p with
      | Some x, Some a =>
          if var_beq (pc x) a then
            match step_gen fl (nbase s) p with
            | None => None
            | Some b' =>
                Some {| nbase := b'; nround := nround s;
                        nsubs := upd (nsubs s) i
                                   {| pc := dst fl (v (nbase s)) p; cnted := cnted x;
                                      subat := match p with PU1 => nround s | _ => subat x end;
                                      slog := if is_recv p then nround s :: slog x else slog x |} |}
            end
          else None
      | _, _ => None
      end
  end.

Definition nstep : nst -> npick -> option nst := nstep_gen good_flags.

Definition sub0 : sub := {| pc := u0; cnted := false; subat := 0; slog := [] |}.

Definition ninit (senders n : nat) : nst :=
  {| nbase := init senders n; nround := 0; nsubs := repeat sub0 n |}.

Fixpoint nrun (s : nst) (sched : list npick) : nst :=
  match sched with
  | [] => s
  | q :: rest => nrun (match nstep s q with Some s' => s' | None => s end) rest
  end.

(* what PubSubTag sees when subscriber i is the tagged one *)
Definition view (i : nat) (s : nst) : option tst :=
  match nth_error (nsubs s) i with
  | Some x => Some {| base := nbase s; tp := pc x; round := nround s; towed := cnted x; tsub := subat x; tlog := slog x |}
  | None => None
  end.

(* subscriber x holds a receipt of round r *)
Definition has_round (r : nat) (x : sub) : bool := existsb (Nat.eqb r) (slog x).

(* the DISTINCT subscribers (indices) that hold a receipt of the current round *)
Definition receivers_of_round (s : nst) : list sub := filter (has_round (nround s)) (nsubs s).
