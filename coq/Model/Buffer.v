(* Model of bigbuff.Buffer and its consumers (buffer.go, consumer.go, bigbuff.go Range).
   Granularity: every operation below is one critical section of the code (Buffer.mutex, and the consumer's mutex
   around it), so one atomic step; the background cleaner is the internal step [clean]; consumer/buffer shutdown, which
   the code performs in watcher goroutines, is the internal step [settle].  A Get that would park is the result REmpty
   (the real call stays blocked and is retried by the condition variable; the wake-up protocol itself is Model/WaitCond.v).
   Ghost fields: log (everything ever put), cstart/chigh/chist per consumer.  Executable definitions only. *)
From Coq Require Import List ZArith Bool Arith.
From BB.Model Require Import Cleaner.
Import ListNotations.

Record cons := {
  creg    : bool;      (* present in Buffer.consumers *)
  ccommit : nat;       (* Buffer.consumers[c]: absolute committed offset *)
  cdelta  : nat;       (* consumer.offset: reads since the last commit/rollback *)
  ccancel : bool;      (* consumer.ctx is cancelled (own Close or inherited from the buffer) *)
  conce   : bool;      (* consumer.close (sync.Once) has fired: a Close is in progress or done *)
  cdone   : bool;      (* consumer.done is closed *)
  cstart  : nat;       (* ghost: Buffer.offset when the consumer was created *)
  chigh   : nat;       (* ghost: one past the highest position ever returned (cstart if none) *)
  chist   : list nat   (* ghost: positions returned by successful Gets, newest first *)
}.

Inductive cleanerk :=
| CDefault                      (* DefaultCleaner *)
| CFixed (max target : Z)       (* FixedBufferCleaner max target *)
| CAll                          (* a custom cleaner asking for more than the size (clamped to everything) *)
| CNone.                        (* a custom cleaner returning a negative number (clamped to nothing) *)

Record st := {
  log     : list Z;    (* ghost: every value ever put, in lock-acquisition order *)
  base    : nat;       (* Buffer.offset; Buffer.buffer = skipn base log *)
  cs      : list cons; (* consumers by id *)
  bclosed : bool;      (* Buffer.ctx cancelled *)
  bonce   : bool;      (* Buffer.close (sync.Once) fired *)
  bdone   : bool;      (* Buffer.done closed *)
  cfg     : cleanerk;
  dirty   : bool       (* ghost: a broadcasting change happened since the cleaner last ran *)
}.

Definition init (k : cleanerk) : st :=
  {| log := []; base := 0; cs := []; bclosed := false; bonce := false; bdone := false; cfg := k; dirty := false |}.

Definition cleaner_of (k : cleanerk) : Z -> list Z -> Z :=
  match k with
  | CDefault => default_cleaner
  | CFixed mx tg => fixed_cleaner mx tg
  | CAll => fun size _ => (size + 5)%Z
  | CNone => fun _ _ => (-3)%Z
  end.

Definition size (s : st) : nat := length (log s) - base s.

(* consumerOffsets: relative committed offsets of the registered consumers *)
Definition rel_offsets (s : st) : list Z :=
  map (fun c => (Z.of_nat (ccommit c) - Z.of_nat (base s))%Z) (filter creg (cs s)).

Definition set_base (s : st) (b : nat) (d : bool) : st :=
  {| log := log s; base := b; cs := cs s; bclosed := bclosed s; bonce := bonce s; bdone := bdone s; cfg := cfg s; dirty := d |}.

(* cleanupLogic with an arbitrary cleaner function *)
Definition clean_with (f : Z -> list Z -> Z) (s : st) : st :=
  let shift := clamp_shift (Z.of_nat (size s)) (f (Z.of_nat (size s)) (rel_offsets s)) in
  set_base s (base s + Z.to_nat shift) false.

(* the cleaner goroutine only lives while the buffer's context does *)
Definition clean (s : st) : st := if bclosed s then s else clean_with (cleaner_of (cfg s)) s.

Fixpoint upd {A} (l : list A) (i : nat) (x : A) : list A :=
  match l, i with
  | [], _ => []
  | _ :: t, 0 => x :: t
  | h :: t, S j => h :: upd t j x
  end.

Definition set_cs (s : st) (l : list cons) (d : bool) : st :=
  {| log := log s; base := base s; cs := l; bclosed := bclosed s; bonce := bonce s; bdone := bdone s; cfg := cfg s;
     dirty := d |}.

Definition c_get (c : cons) (p : nat) : cons :=
  {| creg := creg c; ccommit := ccommit c; cdelta := S (cdelta c); ccancel := ccancel c; conce := conce c;
     cdone := cdone c; cstart := cstart c; chigh := Nat.max (chigh c) (S p); chist := p :: chist c |}.
Definition c_commit (c : cons) : cons :=
  {| creg := creg c; ccommit := ccommit c + cdelta c; cdelta := 0; ccancel := ccancel c; conce := conce c;
     cdone := cdone c; cstart := cstart c; chigh := chigh c; chist := chist c |}.
Definition c_rollback (c : cons) : cons :=
  {| creg := creg c; ccommit := ccommit c; cdelta := 0; ccancel := ccancel c; conce := conce c;
     cdone := cdone c; cstart := cstart c; chigh := chigh c; chist := chist c |}.
Definition c_close_begin (c : cons) : cons :=
  {| creg := creg c; ccommit := ccommit c; cdelta := cdelta c; ccancel := true; conce := true;
     cdone := cdone c; cstart := cstart c; chigh := chigh c; chist := chist c |}.
Definition c_cancel (c : cons) : cons :=
  {| creg := creg c; ccommit := ccommit c; cdelta := cdelta c; ccancel := true; conce := conce c;
     cdone := cdone c; cstart := cstart c; chigh := chigh c; chist := chist c |}.
Definition c_finish (c : cons) : cons :=
  {| creg := false; ccommit := ccommit c; cdelta := cdelta c; ccancel := ccancel c; conce := conce c;
     cdone := true; cstart := cstart c; chigh := chigh c; chist := chist c |}.
Definition c_new (b : nat) : cons :=
  {| creg := true; ccommit := b; cdelta := 0; ccancel := false; conce := false; cdone := false;
     cstart := b; chigh := b; chist := [] |}.

(* internal shutdown steps, run to their fixpoint: a cancelled consumer's watcher calls Close (once); a Close in
   progress completes as soon as nothing is uncommitted (deregistering the consumer, which broadcasts); the Buffer's
   Close completes when no consumer is registered any more. *)
Definition settle_c (c : cons) : cons :=
  let c1 := if ccancel c && negb (conce c) then c_close_begin c else c in
  if conce c1 && negb (cdone c1) && (cdelta c1 =? 0) then c_finish c1 else c1.

Definition any_finishing (l : list cons) : bool :=
  existsb (fun c => let c1 := if ccancel c && negb (conce c) then c_close_begin c else c in
                    conce c1 && negb (cdone c1) && (cdelta c1 =? 0)) l.

Definition settle (s : st) : st :=
  let l := map settle_c (cs s) in
  let d := dirty s || any_finishing (cs s) in
  let done := bdone s || (bonce s && negb (existsb creg l)) in
  {| log := log s; base := base s; cs := l; bclosed := bclosed s; bonce := bonce s; bdone := done; cfg := cfg s; dirty := d |}.

(* some shutdown step is still to run *)
Definition unsettled (s : st) : bool :=
  existsb (fun c => (ccancel c && negb (conce c)) || (conce c && negb (cdone c) && (cdelta c =? 0))) (cs s)
  || (bonce s && negb (bdone s) && negb (existsb creg (cs s))).

Inductive op :=
| OPut (vals : list Z)
| OPutCancelled (vals : list Z)   (* Put with an already cancelled caller context *)
| ONew
| OGet (c : nat)                  (* one evaluation of get() for consumer c, caller context live *)
| OGetCancelled (c : nat)
| OCommit (c : nat)
| ORollback (c : nat)
| ODiff (c : nat)
| OSize
| OSlice
| OCloseC (c : nat)               (* consumer.Close *)
| OCloseB                         (* Buffer.Close *)
| ODoneC (c : nat)                (* is consumer.Done() closed? *)
| ODoneB
| OSettled                        (* observation made after the workload went quiet: Size, valid only if the cleaner ran *)
| OProbeGet (c : nat)             (* would a Get on c still be parked now? *)
| OProbeCloseC (c : nat)          (* is a Close of c still waiting for uncommitted reads? *)
| OProbeCloseB.                   (* is Buffer.Close still waiting for consumers? *)

Inductive out :=
| RVal (v : Z)
| REmpty            (* get(): not yet available — the real Get parks *)
| RErr
| ROk
| RId (c : nat)
| RBlocked          (* the call cannot complete yet (Close waiting) *)
| RDiff (n : Z) (ok : bool)
| RInt (n : nat)
| RBuf (l : list Z)
| RBool (b : bool)
| RDirty.           (* never observed: OSettled evaluated before the cleaner ran *)

Definition getc (s : st) (c : nat) : option cons := nth_error (cs s) c.

(* Buffer.get as called from consumer.Get: context checks, then the index arithmetic *)
Definition get_attempt (s : st) (c : nat) : out * option nat :=
  match getc s c with
  | None => (RErr, None)
  | Some k =>
      if ccancel k then (RErr, None)             (* consumer.ctx.Err() *)
      else if bclosed s then (RErr, None)        (* Buffer.ctx.Err() *)
      else if negb (creg k) then (RErr, None)    (* unknown consumer *)
      else
        let p := ccommit k + cdelta k in
        if p <? base s then (RErr, None)         (* past offset: evicted *)
        else match nth_error (log s) p with
             | Some v => (RVal v, Some p)
             | None => (REmpty, None)
             end
  end.

Definition step (s0 : st) (o : op) : st * out :=
  let s := s0 in
  match o with
  | OPut vals =>
      if bclosed s then (s, RErr)
      else ({| log := log s ++ vals; base := base s; cs := cs s; bclosed := bclosed s; bonce := bonce s;
               bdone := bdone s; cfg := cfg s; dirty := true |}, ROk)
  | OPutCancelled _ => (s, RErr)
  | ONew =>
      if bclosed s then (s, RErr)
      else (set_cs s (cs s ++ [c_new (base s)]) true, RId (length (cs s)))
  | OGet c =>
      match get_attempt s c, getc s c with
      | (RVal v, Some p), Some k => (set_cs s (upd (cs s) c (c_get k p)) (dirty s), RVal v)
      | (r, _), _ => (s, r)
      end
  | OGetCancelled c => (s, RErr)
  | OCommit c =>
      match getc s c with
      | None => (s, RErr)
      | Some k =>
          if cdelta k =? 0 then (s, RErr)
          else if negb (creg k) then (s, RErr)
          else (set_cs s (upd (cs s) c (c_commit k)) true, ROk)
      end
  | ORollback c =>
      match getc s c with
      | None => (s, RErr)
      | Some k =>
          if cdelta k =? 0 then (s, RErr)
          else (set_cs s (upd (cs s) c (c_rollback k)) (dirty s), ROk)
      end
  | ODiff c =>
      match getc s c with
      | None => (s, RDiff 0 false)
      | Some k =>
          if creg k then (s, RDiff (Z.of_nat (length (log s)) - Z.of_nat (ccommit k + cdelta k)) true)
          else (s, RDiff 0 false)
      end
  | OSize => (s, RInt (size s))
  | OSlice => (s, RBuf (skipn (base s) (log s)))
  | OCloseC c =>
      match getc s c with
      | None => (s, RErr)
      | Some k =>
          if conce k then (s, if cdone k then RErr else RBlocked)   (* sync.Once.Do waits for the Close in progress *)
          else if cdelta k =? 0 then (set_cs s (upd (cs s) c (c_finish (c_close_begin k))) true, ROk)
          else (set_cs s (upd (cs s) c (c_close_begin k)) (dirty s), RBlocked)
      end
  | OCloseB =>
      if bonce s then (s, if bdone s then RErr else RBlocked)
      else
        let s1 := settle {| log := log s; base := base s; cs := map c_cancel (cs s); bclosed := true; bonce := true;
                            bdone := bdone s; cfg := cfg s; dirty := dirty s |} in
        (s1, if bdone s1 then ROk else RBlocked)
  | ODoneC c => match getc s c with Some k => (s, RBool (cdone k)) | None => (s, RBool false) end
  | ODoneB => (s, RBool (bdone s))
  | OSettled => if (dirty s && negb (bclosed s)) || unsettled s then (s, RDirty) else (s, RInt (size s))
  | OProbeGet c => (s, RBool (match fst (get_attempt s c) with REmpty => true | _ => false end))
  | OProbeCloseC c =>
      match getc s c with
      | Some k => (s, RBool (conce k && negb (cdone k)))
      | None => (s, RBool false)
      end
  | OProbeCloseB => (s, RBool (bonce s && negb (bdone s)))
  end.

(* every operation is followed by the shutdown steps it enables (they run in watcher goroutines and are complete at
   the next quiescent point; the results of later operations do not depend on when exactly they ran) *)
Definition step_settled (s : st) (o : op) : st * out :=
  let '(s1, r) := step s o in (settle s1, r).

Fixpoint run (s : st) (ops : list op) : st * list out :=
  match ops with
  | [] => (s, [])
  | o :: rest => let '(s1, r) := step_settled s o in let '(s2, rs) := run s1 rest in (s2, r :: rs)
  end.

(* a schedule may run the cleaner and the shutdown watchers between any two operations *)
Inductive ev := EOp (o : op) | EClean | ESettle.

Definition estep (s : st) (e : ev) : st * option out :=
  match e with
  | EOp o => let '(s1, r) := step s o in (s1, Some r)
  | EClean => (clean s, None)
  | ESettle => (settle s, None)
  end.

Fixpoint erun (s : st) (evs : list ev) : st * list out :=
  match evs with
  | [] => (s, [])
  | e :: rest =>
      let '(s1, r) := estep s e in
      let '(s2, rs) := erun s1 rest in
      (s2, match r with Some x => x :: rs | None => rs end)
  end.

(* ---- Range (bigbuff.Range and Buffer.Range) as the composite of the operations above ----
   The callback's behaviour is a script: for the i-th value, continue / stop / panic. *)
Inductive cb := CbTrue | CbFalse | CbPanic | CbPutTrue (v : Z).   (* CbPutTrue: the callback puts v into the buffer, then continues *)
Inductive range_end := ReNil | ReErr | RePanic | ReFuel.

(* package Range on consumer c; [bounded] selects Buffer.Range's wrapper (stop when Diff <= 0).  A Get that would park
   ends the model run with ReErr only if [bounded] is false and the caller context expires: the harness always bounds
   the unbounded form by a cancellation, which Get reports as an error. *)
Fixpoint range_loop (fuel : nat) (bounded : bool) (s : st) (c : nat) (script : list cb) (visited : list Z)
  : st * list Z * range_end :=
  match fuel with
  | 0 => (s, visited, ReFuel)
  | S fuel' =>
      let '(s1, r) := step s (OGet c) in
      match r with
      | RVal v =>
          let visited' := visited ++ [v] in
          match script with
          | CbPanic :: _ =>
              let '(s2, _) := step s1 (ORollback c) in (s2, visited', RePanic)
          | CbFalse :: _ =>
              let '(s2, r2) := step s1 (OCommit c) in
              match r2 with
              | ROk => (s2, visited', ReNil)
              | _ => let '(s3, _) := step s2 (ORollback c) in (s3, visited', ReErr)
              end
          | CbTrue :: script' =>
              (* Buffer.Range evaluates Diff inside the callback, before the commit *)
              let more := if bounded
                          then match snd (step s1 (ODiff c)) with RDiff n true => (0 <? n)%Z | _ => false end
                          else true in
              let '(s2, r2) := step s1 (OCommit c) in
              match r2 with
              | ROk => if more then range_loop fuel' bounded s2 c script' visited' else (s2, visited', ReNil)
              | _ => let '(s3, _) := step s2 (ORollback c) in (s3, visited', ReErr)
              end
          | CbPutTrue pv :: script' =>
              (* the callback itself puts a value (it lands while the callback for the current value is running) *)
              let s1p := fst (step s1 (OPut [pv])) in
              let more := if bounded
                          then match snd (step s1p (ODiff c)) with RDiff n true => (0 <? n)%Z | _ => false end
                          else true in
              let '(s2, r2) := step s1p (OCommit c) in
              match r2 with
              | ROk => if more then range_loop fuel' bounded s2 c script' visited' else (s2, visited', ReNil)
              | _ => let '(s3, _) := step s2 (ORollback c) in (s3, visited', ReErr)
              end
          | [] => (* script exhausted: treat as stop *)
              let '(s2, r2) := step s1 (OCommit c) in
              match r2 with
              | ROk => (s2, visited', ReNil)
              | _ => let '(s3, _) := step s2 (ORollback c) in (s3, visited', ReErr)
              end
          end
      | _ => (* Get failed (error, or parked until the caller's context expired): deferred Rollback *)
          let '(s2, _) := step s1 (ORollback c) in (s2, visited, ReErr)
      end
  end.

Definition buffer_range (s : st) (c : nat) (script : list cb) : st * list Z * range_end :=
  match getc s c with
  | None => (s, [], ReErr)
  | Some _ =>
      match snd (step s (ODiff c)) with
      | RDiff n true => if (0 <? n)%Z then range_loop (S (length (log s) + length script)) true s c script [] else (s, [], ReNil)
      | _ => (s, [], ReNil)
      end
  end.

Definition pkg_range (s : st) (c : nat) (script : list cb) : st * list Z * range_end :=
  range_loop (S (S (length (log s) + length script))) false s c script [].
