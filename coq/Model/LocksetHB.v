(* C11 — the lock-state machine of Model/Lockset.v extended with HAPPENS-BEFORE edges that carry ownership.

   Besides mutexes the Go memory model orders: a `go` statement before the start of the goroutine, a channel send
   (or close) before the corresponding receive. The library uses these to HAND OVER memory without a mutex:

     GChanSync      a result struct is filled by one goroutine and sent BY VALUE on a channel (Buffer.getAsync ->
                    consumer.Get, Workers.worker -> Workers.Call, Exclusive's outcome channel);
     lock hand-off  Exclusive.call locks item.mutex and the goroutine it starts unlocks it (gostmt_ok);
     ExGoOrdered    a value written before `go` is read by the new goroutine and rewritten only after that goroutine
                    signalled completion on a channel (Worker.stop/done, the cleaner's timer).

   All three are ONE mechanism here: a lock ("token") that is not acquired but TRANSFERRED. Every channel c carries a
   fixed token [pay c]:

     HSend c   the thread gives up [pay c] (which it must hold in write mode to be disciplined) and puts a message
               in flight; never blocks (the channels concerned are buffered or closed, or the send is the `go`);
     HRecv c   blocks until a message of c is in flight, removes it, and the thread now holds [pay c] in write mode.

   `go f()` with hand-over of token t is HSend on a channel private to the child whose program starts with HRecv on it;
   `close(ch)` followed by `<-ch` is the same. A token in flight is held by nobody: HAcq of it blocks.

   The machine is a conservative extension: with no HSend/HRecv it is the machine of Model/Lockset.v. *)
From Coq Require Import List Bool Arith.
From BB Require Import Model.Lockset.
Import ListNotations.

Section HBSemantics.
  Variable lock : Type.
  Variable loc : Type.
  Variable chan : Type.
  Variable lock_eqb : lock -> lock -> bool.
  Variable chan_eqb : chan -> chan -> bool.
  Variable pay : chan -> lock.            (* the token every message of the channel carries *)

  Inductive haction :=
  | HAcq (l : lock) (m : mode)
  | HRel (l : lock)
  | HAccess (x : loc) (k : rw)
  | HAtomic (x : loc)
  | HTau
  | HSend (c : chan)
  | HRecv (c : chan).

  Record hthread := mkHThread { ht_prog : list haction; ht_held : list (lock * mode) }.
  Record hstate := mkHState { hs_threads : list hthread; hs_flight : list chan }.

  (* give up every entry of l (a disciplined sender holds exactly one, in write mode) *)
  Definition release_all (h : list (lock * mode)) (l : lock) : list (lock * mode) :=
    filter (fun p => negb (lock_eqb (fst p) l)) h.

  Definition in_flight (fl : list chan) (l : lock) : bool := existsb (fun c => lock_eqb (pay c) l) fl.
  Definition has_msg (fl : list chan) (c : chan) : bool := existsb (chan_eqb c) fl.

  Fixpoint remove_msg (fl : list chan) (c : chan) : list chan :=
    match fl with
    | [] => []
    | c' :: fl' => if chan_eqb c c' then fl' else c' :: remove_msg fl' c
    end.

  Definition h_held_after (h : list (lock * mode)) (a : haction) : list (lock * mode) :=
    match a with
    | HAcq l m => (l, m) :: h
    | HRel l => release lock lock_eqb h l
    | HSend c => release_all h (pay c)
    | HRecv c => (pay c, MW) :: h
    | _ => h
    end.

  Definition h_flight_after (fl : list chan) (a : haction) : list chan :=
    match a with
    | HSend c => fl ++ [c]
    | HRecv c => remove_msg fl c
    | _ => fl
    end.

  Definition h_threads_held (ts : list hthread) : list (thread lock loc) :=
    map (fun t => mkThread [] (ht_held t)) ts.

  Definition h_enabled (s : hstate) (t : hthread) (a : haction) : bool :=
    match a with
    | HAcq l m => can_acq lock loc lock_eqb (h_threads_held (hs_threads s)) l m && negb (in_flight (hs_flight s) l)
    | HRel l => holds_any lock lock_eqb (ht_held t) l
    | HRecv c => has_msg (hs_flight s) c
    | _ => true
    end.

  Fixpoint h_set_nth (ts : list hthread) (i : nat) (t : hthread) : list hthread :=
    match ts, i with
    | [], _ => []
    | _ :: ts', O => t :: ts'
    | u :: ts', S i' => u :: h_set_nth ts' i' t
    end.

  Definition h_step (s : hstate) (i : nat) : hstate :=
    match nth_error (hs_threads s) i with
    | Some t =>
        match ht_prog t with
        | a :: p => if h_enabled s t a
                    then mkHState (h_set_nth (hs_threads s) i (mkHThread p (h_held_after (ht_held t) a)))
                                  (h_flight_after (hs_flight s) a)
                    else s
        | [] => s
        end
    | None => s
    end.

  Fixpoint h_run (s : hstate) (sched : list nat) : hstate :=
    match sched with
    | [] => s
    | i :: sched' => h_run (h_step s i) sched'
    end.

  (* ---- the discipline: thread-local symbolic execution, as in Model/Lockset.v ---- *)
  Variable g : loc -> lguard lock.

  Definition h_action_ok (h : list (lock * mode)) (a : haction) : bool :=
    match a with
    | HAccess x k =>
        match g x with
        | LMutex l => holds_for lock lock_eqb h l k
        | LAtomic => false
        | LImmutable => negb (rw_is_w k)
        end
    | HAtomic x => match g x with LAtomic => true | _ => false end
    | HSend c => holds_w lock lock_eqb h (pay c)          (* one can only hand over what one owns *)
    | _ => true
    end.

  Fixpoint h_check_prog (h : list (lock * mode)) (p : list haction) : bool :=
    match p with
    | [] => true
    | a :: p' => h_action_ok h a && h_check_prog (h_held_after h a) p'
    end.

  Definition h_disciplined (s : hstate) : bool :=
    forallb (fun t => h_check_prog (ht_held t) (ht_prog t)) (hs_threads s).

  (* the usual initial condition: nobody holds anything except listed initial owners, nothing in flight; checked by
     computation on concrete states *)
  Fixpoint no_dup_pay (fl : list chan) : bool :=
    match fl with
    | [] => true
    | c :: fl' => negb (in_flight fl' (pay c)) && no_dup_pay fl'
    end.
End HBSemantics.

Arguments HAcq {lock loc chan}. Arguments HRel {lock loc chan}. Arguments HAccess {lock loc chan}.
Arguments HAtomic {lock loc chan}. Arguments HTau {lock loc chan}. Arguments HSend {lock loc chan}.
Arguments HRecv {lock loc chan}.
Arguments mkHThread {lock loc chan}. Arguments ht_prog {lock loc chan}. Arguments ht_held {lock loc chan}.
Arguments mkHState {lock loc chan}. Arguments hs_threads {lock loc chan}. Arguments hs_flight {lock loc chan}.

(* `go` with hand-over: the parent's side and the child's first action, on the child's private start channel. *)
Definition HGo {lock loc chan : Type} (start : chan) : haction lock loc chan := HSend start.
Definition HStart {lock loc chan : Type} (start : chan) : haction lock loc chan := HRecv start.
