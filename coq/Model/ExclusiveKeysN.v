(* ANY number of keys of one bigbuff.Exclusive: the state is the list of the one-key counter abstractions
   (Model/ExclusiveAbs.v), a key is its index.  Same reading of exclusive.go as Model/ExclusiveKeys.v (two keys): all
   per-key state lives in the key's items; the only thing shared between keys is Exclusive.mutex guarding the map, every
   critical section on it is a handful of non-blocking statements on ONE key's entry and is part of the atomic step of
   the key that takes it (see Model/ExclusiveLocks.v for what the generated lockset facts say about that).  A step of
   the product is a step of exactly one component.  Executable definitions only; proofs: Proofs/ExclusiveKeysN.v. *)
From Coq Require Import List Arith Bool.
From BB.Model Require Import ExclusiveAbs.
Import ListNotations.

Definition stN := list st.
Definition pickN := (nat * pick)%type.

Fixpoint putN (k : nat) (x : st) (s : stN) : stN :=
  match s, k with
  | [], _ => []
  | _ :: rest, O => x :: rest
  | y :: rest, S j => y :: putN j x rest
  end.

Definition stepN (s : stN) (p : pickN) : option stN :=
  match nth_error s (fst p) with
  | Some c => match step c (snd p) with
              | Some x => Some (putN (fst p) x s)
              | None => None
              end
  | None => None
  end.

(* one (blocking/async calls, start-style calls) pair per key *)
Definition initN (cfg : list (nat * nat)) : stN := map (fun ab => init (fst ab) (snd ab)) cfg.

Fixpoint runN (s : stN) (sched : list pickN) : stN :=
  match sched with
  | [] => s
  | p :: rest => runN (match stepN s p with Some s' => s' | None => s end) rest
  end.

(* the picks of one key, in schedule order *)
Definition projN (k : nat) (sched : list pickN) : list pick :=
  map snd (filter (fun p => fst p =? k) sched).
