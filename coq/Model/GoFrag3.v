(* A third small embedding: METHODS OVER A RECORD STATE - straight-line code and simple loops that read and write the
   fields of their receiver.  It reuses the base values, binary operators and their evaluation of Model/GoFrag.v and adds
   what the arithmetic kernel of bigbuff.Buffer (buffer.go: get, commit, cleanupLogic, consumerOffsets) needs:

     the receiver's fields as NAMED components of a [store]:
        flags    a context field, of which only `b.f.Err()` is read: the boolean "b.f.Err() != nil" is an ORACLE INPUT
        ints     int fields                                   (unbounded Z, as in Model/GoFrag.v: no property here is about overflow)
        slices   []interface{} fields, as lists of [elem]      (an element is nil or a value; the nil slice is the empty list)
        maps     map[K]int fields, as association lists from an abstract key (a natural number) to an integer; [None] is the
                 nil map.  The first binding of a key is the binding; a store replaces it in place or appends a new one.
                 Iteration order is unspecified in Go: `for _, v := range b.f` runs over [perm m], where [perm] is a
                 parameter of the interpreter - the theorems quantify over every [perm] that permutes its argument.
     locals (flat environment, canonical names given by the translator), field reads and writes, len, indexing `s[i]` (out of
     range: stuck, the run-time panic), `s[k:]` (0 <= k <= len, else stuck), `b.f[i] = v`, map lookup with comma-ok,
     map store (into a nil map: stuck), multi-value returns as a list of values, errors as a TAG ([ErrNil], [ErrCtx]: the
     non-nil value of `b.ctx.Err()`, [ErrFmt k]: the k-th fmt.Errorf/errors.New call of the function in source order - the
     text is not modelled, only WHICH error-constructing expression produced the value), `b.f.m()` without arguments on a field
     that holds no modelled data as an effect recorded in a log (cond.Broadcast, mutex.Lock), `defer b.f.m()` as an effect
     recorded when the function returns (LIFO), a call of a function-valued member of such a field (`b.cleaner.Cleaner(..)`)
     as an ORACLE looked up in a table of Gallina functions, a call `b.m(..)` of a previously translated READ-ONLY method in
     an expression ([pure_call]: the callee is checked syntactically to contain no write and no effect),
     `for init; cond; post { body }` / `for cond { body }` loops.

   Loops are not structurally bounded, so the interpreter takes a number [fuel] of iterations allowed to EACH loop and
   answers [Fuel3] when a loop needs more; the theorems hold for every fuel above an explicit bound (the buffer's length),
   and Proofs/GoFrag3.v shows that a result other than [OutOfFuel] does not change when the fuel grows.

   harness/cmd/gotr -set buffer prints the four methods of /repo's CURRENT buffer.go as terms of [fundef3]
   (coq/Gen/ImplBuffer.v, regenerated on every run of C01 and C03); Proofs/BufferGen.v proves that they compute the
   hand-written model of Model/Buffer.v.  Anything outside the fragment makes the translator fail, never this interpreter
   guess.  Executable definitions only. *)
From Coq Require Import List ZArith Bool String.
From BB.Model Require Import GoFrag.
Import ListNotations.
Local Open Scope string_scope.
Local Open Scope Z_scope.

Definition elem := option Z.                 (* an interface{} value stored in the buffer: nil or a value *)

Inductive err := ErrNil | ErrCtx | ErrFmt (site : nat).

Inductive val3 :=
| W (v : val)                 (* GoFrag's VInt, VBool, VList (an []int) *)
| WElem (x : elem)
| WSlice (l : list elem)
| WKey (k : nat)              (* a map key (a *consumer): only ever passed on to a lookup or a store *)
| WErr (e : err).

Inductive expr3 :=
| ZVar (x : string)
| ZInt (z : Z)
| ZBool (b : bool)
| ZNilElem                                   (* nil at type interface{} *)
| ZNilErr                                    (* nil at type error *)
| ZNilInts                                   (* nil at type []int *)
| ZBin (op : binop) (a b : expr3)            (* on ints and bools, as in GoFrag; && || short circuit *)
| ZNot (a : expr3)
| ZNeg (a : expr3)
| ZFieldInt (f : string)                     (* b.f, an int field *)
| ZFieldSlice (f : string)                   (* b.f, a []interface{} field *)
| ZLen (a : expr3)                           (* len of a []interface{} or []int value *)
| ZLenMap (f : string)                       (* len(b.f), a map field *)
| ZIndex (a i : expr3)                       (* a[i] *)
| ZSliceFrom (a k : expr3)                   (* a[k:] *)
| ZCtxErr (f : string)                       (* b.f.Err() *)
| ZErrNotNil (a : expr3)                     (* a != nil for an error a *)
| ZErrorf (site : nat)                       (* fmt.Errorf(...) / errors.New(...): the site-th such call of the function *)
| ZRecvIsNil                                 (* b == nil: methods are only ever run on a non-nil receiver *)
| ZMapIsNil (f : string)                     (* b.f == nil, a map field *)
| ZMakeInts (cap : expr3)                    (* make([]int, 0, cap) *)
| ZAppend (a b : expr3)                      (* append(a, b), a an []int *)
| ZCallRecv (m : string) (args : list expr3) (* b.m(args): a previously translated read-only method with one result *)
| ZOracle (f : string) (args : list expr3).  (* b.g.F(args): an external function value *)

Inductive stmt3 :=
| TSkip
| TAssign (x : string) (e : expr3)
| TMapGet (x ok : string) (f : string) (k : expr3)     (* x, ok := b.f[k] *)
| TMapSet (f : string) (k v : expr3)                   (* b.f[k] = v *)
| TFieldSetInt (f : string) (e : expr3)                (* b.f = e *)
| TFieldSetSlice (f : string) (e : expr3)              (* b.f = e *)
| TIndexSet (f : string) (i v : expr3)                 (* b.f[i] = v *)
| TSeq (a b : stmt3)
| TIf (c : expr3) (t e : stmt3)
| TFor (c : expr3) (post body : stmt3)                 (* for ; c; post { body }   (the init statement precedes it) *)
| TRangeMap (x : string) (f : string) (body : stmt3)   (* for _, x := range b.f { body } *)
| TReturn (es : list expr3)
| TEffect (m : string)                                 (* b.f.m() *)
| TDefer (m : string).                                 (* defer b.f.m() *)

Record fundef3 := { fname3 : string; params3 : list string; body3 : stmt3 }.

(* ---- the receiver's state ---- *)

Record store := {
  s_flags  : list (string * bool);
  s_ints   : list (string * Z);
  s_slices : list (string * list elem);
  s_maps   : list (string * option (list (nat * Z)))
}.

Fixpoint aget {A} (k : string) (l : list (string * A)) : option A :=
  match l with
  | [] => None
  | (k', v) :: l' => if String.eqb k' k then Some v else aget k l'
  end.

(* replaces the binding of a declared field in place (an undeclared field is never written: the statement is stuck) *)
Fixpoint aset {A} (k : string) (v : A) (l : list (string * A)) : list (string * A) :=
  match l with
  | [] => []
  | (k', v') :: l' => if String.eqb k' k then (k', v) :: l' else (k', v') :: aset k v l'
  end.

Fixpoint mget (k : nat) (m : list (nat * Z)) : option Z :=
  match m with
  | [] => None
  | (k', v) :: m' => if Nat.eqb k' k then Some v else mget k m'
  end.

Fixpoint mset (k : nat) (v : Z) (m : list (nat * Z)) : list (nat * Z) :=
  match m with
  | [] => [(k, v)]
  | (k', v') :: m' => if Nat.eqb k' k then (k', v) :: m' else (k', v') :: mset k v m'
  end.

(* l[i] = v; None when i is out of range *)
Fixpoint lset {A} (i : nat) (v : A) (l : list A) : option (list A) :=
  match l, i with
  | [], _ => None
  | _ :: t, O => Some (v :: t)
  | h :: t, S j => match lset j v t with Some t' => Some (h :: t') | None => None end
  end.

Definition set_ints (st : store) (l : list (string * Z)) : store :=
  {| s_flags := s_flags st; s_ints := l; s_slices := s_slices st; s_maps := s_maps st |}.
Definition set_slices (st : store) (l : list (string * list elem)) : store :=
  {| s_flags := s_flags st; s_ints := s_ints st; s_slices := l; s_maps := s_maps st |}.
Definition set_maps (st : store) (l : list (string * option (list (nat * Z)))) : store :=
  {| s_flags := s_flags st; s_ints := s_ints st; s_slices := s_slices st; s_maps := l |}.

Definition env3 := list (string * val3).

Fixpoint lookup3 (x : string) (e : env3) : option val3 :=
  match e with
  | [] => None
  | (y, v) :: e' => if String.eqb y x then Some v else lookup3 x e'
  end.

Definition set3 (x : string) (v : val3) (e : env3) : env3 := (x, v) :: e.

(* oracles: external function values; read-only methods of the receiver, as functions of the current state *)
Definition oenv := list (string * (list val3 -> option val3)).
Definition menv := list (string * (store -> list val3 -> option val3)).

(* does the statement leave the receiver's state and the effect log alone? *)
Fixpoint readonly (s : stmt3) : bool :=
  match s with
  | TSkip | TAssign _ _ | TMapGet _ _ _ _ | TReturn _ => true
  | TSeq a b => readonly a && readonly b
  | TIf _ t e => readonly t && readonly e
  | TFor _ post body => readonly post && readonly body
  | TRangeMap _ _ body => readonly body
  | TMapSet _ _ _ | TFieldSetInt _ _ | TFieldSetSlice _ _ | TIndexSet _ _ _ | TEffect _ | TDefer _ => false
  end.

Inductive outcome3 :=
| N3 (st : store) (e : env3) (log dfs : list string)        (* fell through; dfs: the deferred effects, last first *)
| R3 (st : store) (vs : list val3) (log dfs : list string)  (* a return statement was executed *)
| Stuck3
| Fuel3.

(* what a caller observes: the receiver's state after the call, the returned values, the effects in order (deferred ones
   last, in LIFO order) *)
Inductive observed3 :=
| Returned3 (st : store) (vs : list val3) (log : list string)
| Stuck
| OutOfFuel.

Section Eval3.
Variable oe : oenv.
Variable me : menv.
Variable perm : list (nat * Z) -> list (nat * Z).
Variable fuel : nat.

Fixpoint eval3 (st : store) (e : env3) (x : expr3) : option val3 :=
  match x with
  | ZVar v => lookup3 v e
  | ZInt z => Some (W (VInt z))
  | ZBool b => Some (W (VBool b))
  | ZNilElem => Some (WElem None)
  | ZNilErr => Some (WErr ErrNil)
  | ZNilInts => Some (W (VList []))
  | ZBin BAnd a b =>
      match eval3 st e a with
      | Some (W (VBool false)) => Some (W (VBool false))
      | Some (W (VBool true)) => match eval3 st e b with Some (W (VBool r)) => Some (W (VBool r)) | _ => None end
      | _ => None
      end
  | ZBin BOr a b =>
      match eval3 st e a with
      | Some (W (VBool true)) => Some (W (VBool true))
      | Some (W (VBool false)) => match eval3 st e b with Some (W (VBool r)) => Some (W (VBool r)) | _ => None end
      | _ => None
      end
  | ZBin op a b =>
      match eval3 st e a, eval3 st e b with
      | Some (W va), Some (W vb) => match eval_bin op va vb with Some r => Some (W r) | None => None end
      | _, _ => None
      end
  | ZNot a => match eval3 st e a with Some (W (VBool b)) => Some (W (VBool (negb b))) | _ => None end
  | ZNeg a => match eval3 st e a with Some (W (VInt z)) => Some (W (VInt (- z))) | _ => None end
  | ZFieldInt f => match aget f (s_ints st) with Some z => Some (W (VInt z)) | None => None end
  | ZFieldSlice f => match aget f (s_slices st) with Some l => Some (WSlice l) | None => None end
  | ZLen a =>
      match eval3 st e a with
      | Some (WSlice l) => Some (W (VInt (Z.of_nat (List.length l))))
      | Some (W (VList l)) => Some (W (VInt (Z.of_nat (List.length l))))
      | _ => None
      end
  | ZLenMap f =>
      match aget f (s_maps st) with
      | Some (Some m) => Some (W (VInt (Z.of_nat (List.length m))))
      | Some None => Some (W (VInt 0))
      | None => None
      end
  | ZIndex a i =>
      match eval3 st e a, eval3 st e i with
      | Some (WSlice l), Some (W (VInt i)) =>
          if i <? 0 then None else match nth_error l (Z.to_nat i) with Some x => Some (WElem x) | None => None end
      | _, _ => None
      end
  | ZSliceFrom a k =>
      match eval3 st e a, eval3 st e k with
      | Some (WSlice l), Some (W (VInt k)) =>
          if (0 <=? k) && (k <=? Z.of_nat (List.length l)) then Some (WSlice (skipn (Z.to_nat k) l)) else None
      | _, _ => None
      end
  | ZCtxErr f =>
      match aget f (s_flags st) with
      | Some true => Some (WErr ErrCtx)
      | Some false => Some (WErr ErrNil)
      | None => None
      end
  | ZErrNotNil a =>
      match eval3 st e a with
      | Some (WErr ErrNil) => Some (W (VBool false))
      | Some (WErr _) => Some (W (VBool true))
      | _ => None
      end
  | ZErrorf site => Some (WErr (ErrFmt site))
  | ZRecvIsNil => Some (W (VBool false))
  | ZMapIsNil f =>
      match aget f (s_maps st) with
      | Some None => Some (W (VBool true))
      | Some (Some _) => Some (W (VBool false))
      | None => None
      end
  | ZMakeInts c => match eval3 st e c with Some (W (VInt z)) => if z <? 0 then None else Some (W (VList [])) | _ => None end
  | ZAppend a b =>
      match eval3 st e a, eval3 st e b with
      | Some (W (VList l)), Some (W (VInt z)) => Some (W (VList (l ++ [z])))
      | _, _ => None
      end
  | ZCallRecv m args =>
      match aget m me with
      | Some h =>
          (fix evs (l : list expr3) (acc : list val3) : option val3 :=
             match l with
             | [] => h st (rev acc)
             | a :: l' => match eval3 st e a with Some v => evs l' (v :: acc) | None => None end
             end) args []
      | None => None
      end
  | ZOracle f args =>
      match aget f oe with
      | Some h =>
          (fix evs (l : list expr3) (acc : list val3) : option val3 :=
             match l with
             | [] => h (rev acc)
             | a :: l' => match eval3 st e a with Some v => evs l' (v :: acc) | None => None end
             end) args []
      | None => None
      end
  end.

Fixpoint evals3 (st : store) (e : env3) (l : list expr3) : option (list val3) :=
  match l with
  | [] => Some []
  | a :: l' =>
      match eval3 st e a, evals3 st e l' with
      | Some v, Some vs => Some (v :: vs)
      | _, _ => None
      end
  end.

Fixpoint exec3 (s : stmt3) (st : store) (e : env3) (log dfs : list string) : outcome3 :=
  match s with
  | TSkip => N3 st e log dfs
  | TAssign x a => match eval3 st e a with Some v => N3 st (set3 x v e) log dfs | None => Stuck3 end
  | TMapGet x ok f k =>
      match aget f (s_maps st), eval3 st e k with
      | Some om, Some (WKey k) =>
          match mget k (match om with Some m => m | None => [] end) with
          | Some z => N3 st (set3 ok (W (VBool true)) (set3 x (W (VInt z)) e)) log dfs
          | None => N3 st (set3 ok (W (VBool false)) (set3 x (W (VInt 0)) e)) log dfs
          end
      | _, _ => Stuck3
      end
  | TMapSet f k v =>
      match aget f (s_maps st), eval3 st e k, eval3 st e v with
      | Some (Some m), Some (WKey k), Some (W (VInt z)) => N3 (set_maps st (aset f (Some (mset k z m)) (s_maps st))) e log dfs
      | _, _, _ => Stuck3
      end
  | TFieldSetInt f a =>
      match aget f (s_ints st), eval3 st e a with
      | Some _, Some (W (VInt z)) => N3 (set_ints st (aset f z (s_ints st))) e log dfs
      | _, _ => Stuck3
      end
  | TFieldSetSlice f a =>
      match aget f (s_slices st), eval3 st e a with
      | Some _, Some (WSlice l) => N3 (set_slices st (aset f l (s_slices st))) e log dfs
      | _, _ => Stuck3
      end
  | TIndexSet f i v =>
      match aget f (s_slices st), eval3 st e i, eval3 st e v with
      | Some l, Some (W (VInt i)), Some (WElem x) =>
          if i <? 0 then Stuck3
          else match lset (Z.to_nat i) x l with
               | Some l' => N3 (set_slices st (aset f l' (s_slices st))) e log dfs
               | None => Stuck3
               end
      | _, _, _ => Stuck3
      end
  | TSeq a b => match exec3 a st e log dfs with N3 st' e' log' dfs' => exec3 b st' e' log' dfs' | r => r end
  | TIf c t f =>
      match eval3 st e c with
      | Some (W (VBool true)) => exec3 t st e log dfs
      | Some (W (VBool false)) => exec3 f st e log dfs
      | _ => Stuck3
      end
  | TFor c post body =>
      (fix loop (n : nat) (st : store) (e : env3) (log dfs : list string) : outcome3 :=
         match n with
         | O => Fuel3
         | S n' =>
             match eval3 st e c with
             | Some (W (VBool true)) =>
                 match exec3 body st e log dfs with
                 | N3 st1 e1 log1 dfs1 =>
                     match exec3 post st1 e1 log1 dfs1 with
                     | N3 st2 e2 log2 dfs2 => loop n' st2 e2 log2 dfs2
                     | r => r
                     end
                 | r => r
                 end
             | Some (W (VBool false)) => N3 st e log dfs
             | _ => Stuck3
             end
         end) fuel st e log dfs
  | TRangeMap x f body =>
      match aget f (s_maps st) with
      | Some om =>
          (fix loop (l : list (nat * Z)) (st : store) (e : env3) (log dfs : list string) : outcome3 :=
             match l with
             | [] => N3 st e log dfs
             | (_, v) :: l' =>
                 match exec3 body st (set3 x (W (VInt v)) e) log dfs with
                 | N3 st' e' log' dfs' => loop l' st' e' log' dfs'
                 | r => r
                 end
             end) (match om with Some m => perm m | None => [] end) st e log dfs
      | None => Stuck3
      end
  | TReturn es => match evals3 st e es with Some vs => R3 st vs log dfs | None => Stuck3 end
  | TEffect m => N3 st e (log ++ [m]) dfs
  | TDefer m => N3 st e log (m :: dfs)
  end.

(* the two loops, named so that proofs can state invariants about them *)
Fixpoint for_loop (c : expr3) (post body : stmt3) (n : nat) (st : store) (e : env3) (log dfs : list string) : outcome3 :=
  match n with
  | O => Fuel3
  | S n' =>
      match eval3 st e c with
      | Some (W (VBool true)) =>
          match exec3 body st e log dfs with
          | N3 st1 e1 log1 dfs1 =>
              match exec3 post st1 e1 log1 dfs1 with
              | N3 st2 e2 log2 dfs2 => for_loop c post body n' st2 e2 log2 dfs2
              | r => r
              end
          | r => r
          end
      | Some (W (VBool false)) => N3 st e log dfs
      | _ => Stuck3
      end
  end.

Fixpoint rangemap_loop (x : string) (body : stmt3) (l : list (nat * Z)) (st : store) (e : env3) (log dfs : list string)
  : outcome3 :=
  match l with
  | [] => N3 st e log dfs
  | (_, v) :: l' =>
      match exec3 body st (set3 x (W (VInt v)) e) log dfs with
      | N3 st' e' log' dfs' => rangemap_loop x body l' st' e' log' dfs'
      | r => r
      end
  end.

Fixpoint bind_params3 (ps : list string) (vs : list val3) : option env3 :=
  match ps, vs with
  | [], [] => Some []
  | p :: ps', v :: vs' => match bind_params3 ps' vs' with Some e => Some ((p, v) :: e) | None => None end
  | _, _ => None
  end.

Definition run3 (f : fundef3) (st : store) (args : list val3) : observed3 :=
  match bind_params3 (params3 f) args with
  | Some e =>
      match exec3 (body3 f) st e [] [] with
      | N3 st' _ log dfs => Returned3 st' [] (log ++ dfs)
      | R3 st' vs log dfs => Returned3 st' vs (log ++ dfs)
      | Stuck3 => Stuck
      | Fuel3 => OutOfFuel
      end
  | None => Stuck
  end.

(* a translated method as a read-only method of the receiver, callable from an expression: it must contain no write and
   no effect (checked on its text), and return exactly one value *)
Definition pure_call (f : fundef3) : store -> list val3 -> option val3 :=
  fun st args =>
    if readonly (body3 f)
    then match run3 f st args with Returned3 _ [v] [] => Some v | _ => None end
    else None.

End Eval3.
