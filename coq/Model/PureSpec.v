(* What the hand-written models of two pure functions say a caller of the translated source observes (Model/GoFrag2.v's
   [observed]); the vocabulary of C07_sanity_source_is_model and C18_delay_source_is_model.  Executable definitions only. *)
From Coq Require Import List ZArith Bool String.
From BB.Model Require Import GoFrag GoFrag2 PubSubSanity Retry.
Import ListNotations.
Local Open Scope string_scope.
Local Open Scope Z_scope.

(* ---- ChanPubSub.sanityCheckSubscribersDelta ---- *)

(* the three state-invariant panics of the function, identified by their messages *)
Definition msg_overflow : string := "bigbuff: chanpubsub: addition overflowed or underflowed".
Definition msg_negative : string := "bigbuff: chanpubsub: negative subscribers".
Definition msg_negative_old : string := "bigbuff: chanpubsub: negative old subscribers".

(* the effects of a run that panics: exactly one x.markBroken() *)
Definition log_broken : list string := ["markBroken"].

(* [k] = Model/PubSubSanity.v's [sanity_check]: 0 no check fires: the function returns and had no effect; 1, 2, 3: that
   check fires: the function panics with that check's message after exactly one effect, x.markBroken() *)
Definition sanity_expected (k : Z) : observed :=
  if k =? 0 then Done []
  else if k =? 1 then Panicked msg_overflow log_broken
  else if k =? 2 then Panicked msg_negative log_broken
  else if k =? 3 then Panicked msg_negative_old log_broken
  else Stuck.

(* a coarser observation: does the function panic (after marking the instance broken), whichever check it was? *)
Definition fires_of (r : observed) : option bool :=
  match r with
  | Done [] => Some false
  | Panicked _ ["markBroken"] => Some true
  | _ => None
  end.

(* ---- calcExponentialRetry ---- *)

(* math/rand.Int63n as an oracle: ANY function [rnd] from the argument to the returned value; Int63n panics for n <= 0.
   (That the value lies in [0, n) is a hypothesis of the theorems that need it, Proofs.Retry.oracle_ok.) *)
Definition rand_fenv (rnd : Z -> Z) : fenv :=
  [("rand.Int63n", fun vs => match vs with
                             | [VInt n] => if 0 <? n then Some (VInt (rnd n)) else None
                             | _ => None
                             end)].

(* [o] = Model/Retry.v's [calc_real]: Some r: the function returns the duration r (no effect); None: rand.Int63n panics *)
Definition delay_expected (o : option Z) : observed :=
  match o with
  | Some r => Returned (VInt r) []
  | None => Stuck
  end.
