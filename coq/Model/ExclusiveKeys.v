(* Two keys of one bigbuff.Exclusive: the product of two one-key counter abstractions (Model/ExclusiveAbs.v).
   Reading of exclusive.go that this encodes: all per-key state lives in the key's items (mutex, cond, flags, count,
   result); the only thing shared between keys is Exclusive.mutex guarding the map, and every critical section on it
   is a handful of non-blocking statements (lookup / insert / replace / delete of ONE key's entry), so it is part of
   the atomic step of the key that takes it.  A step of the product is therefore a step of exactly one component.
   Executable definitions only; proofs are in Proofs/ExclusiveKeys.v. *)
From Coq Require Import List Bool.
From BB.Model Require Import ExclusiveAbs.
Import ListNotations.

Inductive key := K1 | K2.
Definition key_eqb (a b : key) : bool := match a, b with K1, K1 | K2, K2 => true | _, _ => false end.

Definition st2 := (st * st)%type.
Definition pick2 := (key * pick)%type.

Definition comp (k : key) (s : st2) : st := match k with K1 => fst s | K2 => snd s end.
Definition put (k : key) (x : st) (s : st2) : st2 := match k with K1 => (x, snd s) | K2 => (fst s, x) end.

Definition step2 (s : st2) (p : pick2) : option st2 :=
  match step (comp (fst p) s) (snd p) with
  | Some x => Some (put (fst p) x s)
  | None => None
  end.

Definition init2 (a1 b1 a2 b2 : nat) : st2 := (init a1 b1, init a2 b2).

Fixpoint run2 (s : st2) (sched : list pick2) : st2 :=
  match sched with
  | [] => s
  | p :: rest => run2 (match step2 s p with Some s' => s' | None => s end) rest
  end.

(* the picks of one key, in schedule order *)
Definition proj (k : key) (sched : list pick2) : list pick :=
  map snd (filter (fun p => key_eqb (fst p) k) sched).
