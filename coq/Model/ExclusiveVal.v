(* bigbuff.Exclusive (exclusive.go), ONE key: the counter protocol of Model/ExclusiveAbs.v (its `cstep`, unchanged) with
   (1) ANY NUMBER of individually tracked blocking/async calls instead of one tagged call, (2) result VALUES and
   (3) the identity of the stored work function.  Executable definitions only; proofs are in Proofs/ExclusiveVal*.v.

   What is added to the reading of Exclusive.call given in Model/ExclusiveAbs.v.
   * `item.work = c.work` (exclusive.go:196) is executed by EVERY caller that attaches (before the start-style escape
     hatch at :203), so while an item is in the map its `work` field holds the function of the LAST attacher.  Attach
     events are numbered 1, 2, ... (ghost `att`); `msrc` is the map item's `work` field, as the number of the attach
     that stored it (0 = nil: a freshly created item or a successor `nextItem`, :266-270).
   * An item is executed at most once.  The record `elog n` IS the item executed by execution number n (n-th
     ExecStart): its real fields `work` (e_fn, read at :300) and `result`/`err`/`complete` (e_res, written once by
     `resolve` under once.Do, :290-296) plus ghosts: the attach numbers (e_lo, e_hi] that attached to it, and whether its
     resolution was the forced `resolve(nil, errResolveNotCalled)` of :301.
   * `resolve(result, err)` sends {result, err} to the runner's own outcome channel and stores the same pair in the item;
     a waiter that finds its item complete copies the item's pair (:234-242).  A value is `Val x` (whatever pair the work
     function passed; x is chosen by the schedule) or `ErrResolveNotCalled`; an outcome also carries a ghost stamp: the
     ordinal of the execution that produced it.
   * Every tracked call records the attach number it got (`tatt`), a copy of (e_lo, e_hi, e_fn) of the item it was bound
     to by ExecStart, and the outcome it received (`tgot`). *)
From Coq Require Import List Arith Bool.
From BB.Model Require Import ExclusiveAbs.
Import ListNotations.

(* ---------------------------------------------------------------------------------------------------------- *)
(* Values, items                                                                                              *)

Inductive oval :=
| Val (x : nat)              (* the (result, err) pair the work function passed to resolve *)
| ErrResolveNotCalled.       (* (nil, errResolveNotCalled) *)

Record outcome := { o_exec : nat;   (* ghost: ordinal of the execution whose resolve produced it *)
                    o_val : oval }.

Record erec := {
  e_lo : nat;                  (* ghost: attaches numbered e_lo < k <= e_hi attached to this item *)
  e_hi : nat;
  e_fn : nat;                  (* item.work when the execution started: the number of the attach that stored it *)
  e_res : option outcome;      (* item.result / item.err; None = item.complete is false *)
  e_forced : bool              (* ghost: the resolution was the forced one after the work function returned *)
}.
Definition erec0 : erec := {| e_lo := 0; e_hi := 0; e_fn := 0; e_res := None; e_forced := false |}.
Definition with_res (r : erec) (o : outcome) (forced : bool) : erec :=
  {| e_lo := e_lo r; e_hi := e_hi r; e_fn := e_fn r; e_res := Some o; e_forced := forced |}.

Definition upd (L : nat -> erec) (n : nat) (r : erec) : nat -> erec := fun m => if m =? n then r else L m.

(* ---------------------------------------------------------------------------------------------------------- *)
(* Tracked calls: the tag bookkeeping of ExclusiveAbs (`bt`, moved by the SAME functions tag_pre / tag_eff) plus *)
(* the attach number, the copy of the bound item's batch and function, and the outcome received                  *)

Record vtag := { bt : tagst; tatt : nat; tlo : nat; thi : nat; tfn : nat; tgot : option outcome }.
Definition vtag0 : vtag := {| bt := tag0; tatt := 0; tlo := 0; thi := 0; tfn := 0; tgot := None |}.

Record vst := {
  vrp : rpc;                   (* runner pc, as ExclusiveAbs.rp *)
  vf : var -> nat;             (* counters, as ExclusiveAbs.v: tracked calls are ALSO counted here *)
  tags : list vtag;            (* the tracked blocking/async calls *)
  att : nat;                   (* ghost: attach events so far *)
  msrc : nat;                  (* the map item's work field: number of the attach that stored it, 0 = nil *)
  elog : nat -> erec           (* the executed items, by execution ordinal *)
}.

Scheme Equality for tagpc.

Fixpoint cnt (p : tagpc) (l : list vtag) : nat :=
  match l with
  | [] => 0
  | t :: rest => (if tagpc_beq (tpc (bt t)) p then 1 else 0) + cnt p rest
  end.

Fixpoint lset (l : list vtag) (i : nat) (x : vtag) : list vtag :=
  match l, i with
  | [], _ => []
  | _ :: rest, O => x :: rest
  | y :: rest, S j => y :: lset rest j x
  end.

(* ---------------------------------------------------------------------------------------------------------- *)
(* Picks                                                                                                      *)

Inductive vpick :=
| VB (b : bpick) (x : nat)     (* a step of an anonymous goroutine or of the runner; x = the value passed to resolve
                                  (read by PResolve only) *)
| VT (i : nat) (t : tpick).    (* the same caller steps taken by tracked call number i *)

Definition vuntag (p : vpick) : bpick := match p with VB b _ => b | VT _ t => base_of t end.

(* an anonymous caller step needs a goroutine at its location that is not one of the tracked calls *)
Definition vguard (l : list vtag) (f : var -> nat) (b : bpick) : bool :=
  match b with
  | PStale KC => cnt TC2S l <? f c2sc
  | PAttach KC _ => cnt TC2M l <? f c2mc
  | PWake KC _ => cnt TGWM l <? f gwmc
  | PDrain KC => cnt TGD l <? f gdc
  | _ => true
  end.

Definition is_attach (b : bpick) : bool := match b with PAttach _ _ => true | _ => false end.
Definition is_forced (b : bpick) : bool := match b with PReturn => true | _ => false end.

(* ---------------------------------------------------------------------------------------------------------- *)
(* Effects on a tracked call                                                                                  *)

Definition vtag_set (b : tagst) (t : vtag) : vtag :=
  {| bt := b; tatt := tatt t; tlo := tlo t; thi := thi t; tfn := tfn t; tgot := tgot t |}.

(* how a counter-level effect moves a tracked call: ExecStart binds the calls attached to the map item (and the
   runner) to the item `rec` that starts executing; resolve hands the runner its outcome `o` directly *)
Definition vtag_eff (e : eff) (f' : var -> nat) (rec : erec) (o : outcome) (t : vtag) : vtag :=
  let b' := tag_eff e f' (bt t) in
  match e, tpc (bt t) with
  | EReplace, TGWM | EReplace, TRun =>
      {| bt := b'; tatt := tatt t; tlo := e_lo rec; thi := e_hi rec; tfn := e_fn rec; tgot := tgot t |}
  | EComplete, TRun =>
      {| bt := b'; tatt := tatt t; tlo := tlo t; thi := thi t; tfn := tfn t; tgot := Some o |}
  | _, _ => vtag_set b' t
  end.

(* a tracked call's own step, before the counter-level effect is applied.  `cur` is a DEFECT switch: a waiter copies
   the result of the LATEST execution instead of its own item's *)
Definition vtag_pre (cur : bool) (f : var -> nat) (att' : nat) (L : nat -> erec) (p : tpick) (t : vtag) : option vtag :=
  match tag_pre f p (bt t) with
  | Some b1 =>
      Some match p with
           | TAttach _ => {| bt := b1; tatt := att'; tlo := tlo t; thi := thi t; tfn := tfn t; tgot := tgot t |}
           | TDrain => {| bt := b1; tatt := tatt t; tlo := tlo t; thi := thi t; tfn := tfn t;
                          tgot := e_res (L (if cur then f started else texec (bt t))) |}
           | _ => vtag_set b1 t
           end
  | None => None
  end.

(* ---------------------------------------------------------------------------------------------------------- *)
(* The transition function                                                                                    *)

Definition vapply (fl : flags) (s : vst) (b : bpick) (x : nat) (l1 : list vtag) : option vst :=
  match cstep fl (vrp s) (vf s) b with
  | None => None
  | Some (e, r', f') =>
      let att' := if is_attach b then S (att s) else att s in
      let src1 := if is_attach b then S (att s) else msrc s in     (* item.work = c.work *)
      let n' := f' started in
      let L := elog s in
      let rec := {| e_lo := e_hi (L (vf s started)); e_hi := att'; e_fn := src1; e_res := None; e_forced := false |} in
      let o := {| o_exec := n'; o_val := match b with PResolve => Val x | _ => ErrResolveNotCalled end |} in
      let L' := match e with
                | EReplace => upd L n' rec
                | EComplete => upd L n' (with_res (L n') o (is_forced b))
                | _ => L
                end in
      Some {| vrp := r'; vf := f'; tags := map (vtag_eff e f' rec o) l1; att := att';
              msrc := match e with EReplace => 0 | _ => src1 end;   (* the successor's work field is nil *)
              elog := L' |}
  end.

Definition vstep_gen (fl : flags) (cur : bool) (s : vst) (p : vpick) : option vst :=
  match p with
  | VB b x => if vguard (tags s) (vf s) b then vapply fl s b x (tags s) else None
  | VT i t =>
      match nth_error (tags s) i with
      | Some ti =>
          match vtag_pre cur (vf s) (S (att s)) (elog s) t ti with
          | Some t1 => vapply fl s (base_of t) 0 (lset (tags s) i t1)
          | None => None
          end
      | None => None
      end
  end.

Definition vstep : vst -> vpick -> option vst := vstep_gen good false.

(* a blocking/async and b start-style calls, k tracked calls (a tracked call that is never scheduled stays TNone) *)
Definition vinit (a b k : nat) : vst :=
  {| vrp := RNone; vf := v (init a b); tags := repeat vtag0 k; att := 0; msrc := 0; elog := fun _ => erec0 |}.

Fixpoint vrun_gen (fl : flags) (cur : bool) (s : vst) (sched : list vpick) : vst :=
  match sched with
  | [] => s
  | p :: rest => vrun_gen fl cur (match vstep_gen fl cur s p with Some s' => s' | None => s end) rest
  end.
Definition vrun : vst -> list vpick -> vst := vrun_gen good false.

(* the one-tag model's state seen by tracked call i (None if there is no such call) *)
Definition vproj (i : nat) (s : vst) : option st :=
  match nth_error (tags s) i with
  | Some t => Some {| rp := vrp s; v := vf s; tg := bt t |}
  | None => None
  end.
(* the pick of the one-tag model that tracked call i sees when the pick p is taken *)
Definition vproj_pick (i : nat) (p : vpick) : pick :=
  match p with
  | VB b _ => PB b
  | VT j t => if j =? i then PT t else PB (base_of t)
  end.

(* all enabled picks are among these (x ranges over the values offered to resolve) *)
Definition all_vpicks (k : nat) (xs : list nat) : list vpick :=
  flat_map (fun b => map (VB b) xs) all_bpicks ++ flat_map (fun i => map (VT i) all_tpicks) (seq 0 k).
Definition vterminalb (s : vst) : bool :=
  forallb (fun p => match vstep s p with None => true | Some _ => false end) (all_vpicks (length (tags s)) [0]).
