(* Model of bigbuff.Channel (channel.go): the consumer over a source channel.
   Every method body of Channel runs under Channel.mutex, so each operation (and each polling attempt of
   Get) is ONE atomic step.  Executable definitions only; proofs are in Proofs/Channel.v. *)
From Coq Require Import List ZArith Bool Arith.
Import ListNotations.

Record st := {
  src        : list Z;   (* values currently queued in the source channel, oldest first *)
  src_closed : bool;     (* the source channel has been closed by its owner *)
  buf        : list Z;   (* Channel.buffer: taken from the source, not yet committed *)
  rb         : nat;      (* Channel.rollback: trailing entries of buf still to be re-delivered *)
  closed     : bool;     (* Channel.ctx.Err() != nil *)
  once       : bool;     (* Channel.close (sync.Once) has fired *)
  committed  : list Z;   (* ghost: everything dropped by Commit, in order *)
  taken      : list Z;   (* ghost: everything ever received from the source, in order *)
  sent       : list Z    (* ghost: everything ever sent to the source, in order *)
}.

Definition init : st :=
  {| src := []; src_closed := false; buf := []; rb := 0; closed := false; once := false;
     committed := []; taken := []; sent := [] |}.

Inductive op :=
| OGet            (* one attempt of Get's loop body, caller context live *)
| OGetCancelled   (* Get called with an already cancelled caller context *)
| OCommit
| ORollback
| OBuffer
| OClose          (* explicit Close *)
| OCancel         (* the parent context is cancelled and the watcher has run Close (quiescent view) *)
| OSrcSend (v : Z)
| OSrcClose
| OSrcPeek.        (* observation: what is still queued in the source (the harness drains it at the very end) *)

Inductive out :=
| RVal (v : Z)
| REmpty          (* the attempt found nothing: the real Get keeps polling *)
| RErr
| ROk
| RBuf (l : list Z).

Definition pending (s : st) : nat := length (buf s) - rb s.

Definition upd_get_replay (s : st) : st :=
  {| src := src s; src_closed := src_closed s; buf := buf s; rb := rb s - 1; closed := closed s; once := once s;
     committed := committed s; taken := taken s; sent := sent s |}.

Definition upd_get_take (s : st) (v : Z) (rest : list Z) : st :=
  {| src := rest; src_closed := src_closed s; buf := buf s ++ [v]; rb := rb s; closed := closed s; once := once s;
     committed := committed s; taken := taken s ++ [v]; sent := sent s |}.

Definition step (s : st) (o : op) : st * out :=
  match o with
  | OGetCancelled => (s, RErr)
  | OGet =>
      if closed s then (s, RErr)
      else if negb (rb s =? 0) then
        (upd_get_replay s, RVal (nth (pending s) (buf s) 0%Z))
      else match src s with
           | v :: rest => (upd_get_take s v rest, RVal v)
           | [] => (s, REmpty)
           end
  | OCommit =>
      if closed s then (s, RErr)
      else if pending s =? 0 then (s, RErr)
      else ({| src := src s; src_closed := src_closed s; buf := skipn (pending s) (buf s); rb := rb s;
               closed := closed s; once := once s;
               committed := committed s ++ firstn (pending s) (buf s); taken := taken s; sent := sent s |}, ROk)
  | ORollback =>
      if pending s =? 0 then (s, RErr)
      else ({| src := src s; src_closed := src_closed s; buf := buf s; rb := rb s + pending s;
               closed := closed s; once := once s;
               committed := committed s; taken := taken s; sent := sent s |}, ROk)
  | OBuffer => (s, RBuf (buf s))
  | OClose =>
      if once s then (s, RErr)
      else ({| src := src s; src_closed := src_closed s; buf := buf s; rb := rb s; closed := true; once := true;
               committed := committed s; taken := taken s; sent := sent s |}, ROk)
  | OCancel =>
      ({| src := src s; src_closed := src_closed s; buf := buf s; rb := rb s; closed := true; once := true;
          committed := committed s; taken := taken s; sent := sent s |}, ROk)
  | OSrcSend v =>
      if src_closed s then (s, RErr)
      else ({| src := src s ++ [v]; src_closed := src_closed s; buf := buf s; rb := rb s; closed := closed s;
               once := once s; committed := committed s; taken := taken s; sent := sent s ++ [v] |}, ROk)
  | OSrcClose =>
      ({| src := src s; src_closed := true; buf := buf s; rb := rb s; closed := closed s; once := once s;
          committed := committed s; taken := taken s; sent := sent s |}, ROk)
  | OSrcPeek => (s, RBuf (src s))
  end.

Fixpoint run (s : st) (ops : list op) : st * list out :=
  match ops with
  | [] => (s, [])
  | o :: rest => let '(s1, r) := step s o in let '(s2, rs) := run s1 rest in (s2, r :: rs)
  end.

(* ---- the abstract specification: a cursor over the stream of values ever sent ---- *)
Record spec := {
  stream : list Z;  (* everything ever sent to the source *)
  c : nat;          (* committed count *)
  d : nat;          (* delivered since the last commit/rollback *)
  h : nat;          (* high-water mark: number of values taken from the source *)
  sclosed : bool; sonce : bool; ssrc_closed : bool
}.

Definition spec_init : spec := {| stream := []; c := 0; d := 0; h := 0; sclosed := false; sonce := false; ssrc_closed := false |}.

Definition spec_step (a : spec) (o : op) : spec * out :=
  match o with
  | OGetCancelled => (a, RErr)
  | OGet =>
      if sclosed a then (a, RErr)
      else if c a + d a <? h a then
        ({| stream := stream a; c := c a; d := S (d a); h := h a; sclosed := sclosed a; sonce := sonce a; ssrc_closed := ssrc_closed a |},
         RVal (nth (c a + d a) (stream a) 0%Z))
      else if h a <? length (stream a) then
        ({| stream := stream a; c := c a; d := S (d a); h := S (h a); sclosed := sclosed a; sonce := sonce a; ssrc_closed := ssrc_closed a |},
         RVal (nth (h a) (stream a) 0%Z))
      else (a, REmpty)
  | OCommit =>
      if sclosed a then (a, RErr)
      else if d a =? 0 then (a, RErr)
      else ({| stream := stream a; c := c a + d a; d := 0; h := h a; sclosed := sclosed a; sonce := sonce a; ssrc_closed := ssrc_closed a |}, ROk)
  | ORollback =>
      if d a =? 0 then (a, RErr)
      else ({| stream := stream a; c := c a; d := 0; h := h a; sclosed := sclosed a; sonce := sonce a; ssrc_closed := ssrc_closed a |}, ROk)
  | OBuffer => (a, RBuf (firstn (h a - c a) (skipn (c a) (stream a))))
  | OClose =>
      if sonce a then (a, RErr)
      else ({| stream := stream a; c := c a; d := d a; h := h a; sclosed := true; sonce := true; ssrc_closed := ssrc_closed a |}, ROk)
  | OCancel =>
      ({| stream := stream a; c := c a; d := d a; h := h a; sclosed := true; sonce := true; ssrc_closed := ssrc_closed a |}, ROk)
  | OSrcSend v =>
      if ssrc_closed a then (a, RErr)
      else ({| stream := stream a ++ [v]; c := c a; d := d a; h := h a; sclosed := sclosed a; sonce := sonce a; ssrc_closed := ssrc_closed a |}, ROk)
  | OSrcClose =>
      ({| stream := stream a; c := c a; d := d a; h := h a; sclosed := sclosed a; sonce := sonce a; ssrc_closed := true |}, ROk)
  | OSrcPeek => (a, RBuf (skipn (h a) (stream a)))
  end.

Fixpoint spec_run (a : spec) (ops : list op) : spec * list out :=
  match ops with
  | [] => (a, [])
  | o :: rest => let '(a1, r) := spec_step a o in let '(a2, rs) := spec_run a1 rest in (a2, r :: rs)
  end.

Definition abs (s : st) : spec :=
  {| stream := sent s; c := length (committed s); d := pending s; h := length (taken s);
     sclosed := closed s; sonce := once s; ssrc_closed := src_closed s |}.
