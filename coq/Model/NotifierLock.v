(* Notifier: how Subscribe / Unsubscribe / PublishContext interleave under n.mutex (a sync.RWMutex).
   Executable definitions only; proofs are in Proofs/NotifierLock.v.  Line numbers refer to /repo/notifier.go.

   Model/Notifier.v describes ONE PublishContext call on a fixed list of subscriptions, and the registry operations one
   at a time.  This machine puts them together: its state is the context-carrying registry ([cregistry]) and the list of
   all PublishContext calls started so far ("flights"), each with the snapshot it took when it began, the select
   outcomes it has consumed so far and whether it has ended.  Several publishes may be in flight at once.

   Where the enabling conditions come from (the lock operations in notifier.go):
     * PublishContext:  n.mutex.RLock() at l.136 with `defer n.mutex.RUnlock()` at l.137 - the read lock is held from
       before `keySubscribers := n.subscribers[key]` (l.139, the snapshot: [LPubBegin]) through the construction loop
       (l.154-175), every iteration of the select loop (l.177-224, one [LPubStep] each) up to the return ([LPubEnd]:
       the deferred RUnlock).  Read locks are shared: [LPubBegin] is always enabled.
       (The early return of l.132-134, publish context already cancelled, happens before the lock is taken and touches
       nothing: such a call is simply no flight.  sync.RWMutex also makes a new RLock wait while a writer is WAITING;
       that only removes schedules, so a theorem for every schedule of this machine covers it.)
     * SubscribeContext: n.mutex.Lock() at l.41 with `defer n.mutex.Unlock()` at l.42; Unsubscribe: l.102-103.  The write
       lock excludes every reader and every other writer for the whole body, including the panic paths (l.55, l.120: the
       deferred Unlock runs, the registry is unchanged).  Hence [LSubscribe] / [LUnsubscribe] are atomic steps, enabled
       only when NO publish is in flight, and they are the only steps that change the registry's targets.
     * A subscription's context is cancelled by its owner at any time, without any lock: [LCtxCancel], always enabled.
       A publish notices it either in its scan (l.155: the snapshot then has cancelled0 = true) or, if it is already in
       flight, as a select outcome [LPubStep i (EvCancel t)].
   The flag [locked] selects the variant WITHOUT the write-lock exclusion (false), used by the refutation theorem. *)
From Coq Require Import List Arith Bool.
From BB Require Import Model.Notifier.
Import ListNotations.

Record flight := {
  f_key   : nat;          (* the key published to *)
  f_pc    : bool;         (* a publish context was given (ctx != nil) *)
  f_snap  : list sub;     (* what `range keySubscribers` enumerates: taken at LPubBegin, under the read lock *)
  f_hist  : list ev;      (* the events (select outcomes) consumed so far, oldest first *)
  f_ended : bool          (* the call has returned and released the read lock *)
}.

(* what the flight has done so far: (targets delivered to, in order; the loop has reached its return) *)
Definition f_result (f : flight) : list nat * bool := run_publish (f_pc f) (f_snap f) (f_hist f).
Definition f_delivered (f : flight) : list nat := fst (f_result f).
Definition f_returned (f : flight) : bool := snd (f_result f).

Record lstate := { reg : cregistry; flights : list flight }.

Definition linit : lstate := {| reg := ([], []); flights := [] |}.

(* no reader holds the lock *)
Definition no_reader (st : lstate) : bool := forallb f_ended (flights st).

Inductive label :=
| LSubscribe (c : sctx) (k t : nat)    (* SubscribeContext(ctx, key, target), whole body; a duplicate panics *)
| LUnsubscribe (k t : nat)             (* Unsubscribe(key, target), whole body; an unmatched one panics *)
| LCtxCancel (k t : nat)               (* the context subscription (k,t) was registered with is cancelled *)
| LPubBegin (pc : bool) (k : nat)      (* PublishContext(ctx, key, value): RLock + snapshot + construction loop *)
| LPubStep (i : nat) (e : ev)          (* flight i: one outcome of its reflect.Select *)
| LPubEnd (i : nat).                   (* flight i returns: RUnlock *)

Definition cancel_ctx (k t : nat) (tab : ctxtab) : ctxtab :=
  map (fun e => if (fst (fst e) =? k) && (snd (fst e) =? t)
                then (fst e, match snd e with CtxLive => CtxCancelled | c => c end)
                else e) tab.

Fixpoint upd_nth {A : Type} (n : nat) (g : A -> A) (l : list A) {struct l} : list A :=
  match l with
  | [] => []
  | x :: l' => match n with 0 => g x :: l' | S n' => x :: upd_nth n' g l' end
  end.

Definition f_push (e : ev) (f : flight) : flight :=
  {| f_key := f_key f; f_pc := f_pc f; f_snap := f_snap f; f_hist := f_hist f ++ [e]; f_ended := f_ended f |}.
Definition f_end (f : flight) : flight :=
  {| f_key := f_key f; f_pc := f_pc f; f_snap := f_snap f; f_hist := f_hist f; f_ended := true |}.
Definition f_new (pc : bool) (k : nat) (cr : cregistry) : flight :=
  {| f_key := k; f_pc := pc; f_snap := subs_of k cr; f_hist := []; f_ended := false |}.

(* None = the step is not enabled (the lock is not available / no such flight / the flight is not at that point).
   A panicking Subscribe / Unsubscribe IS a step: it takes and releases the lock and leaves the state as it was. *)
Definition step (locked : bool) (st : lstate) (l : label) : option lstate :=
  match l with
  | LSubscribe c k t =>
      if negb locked || no_reader st
      then Some {| reg := match subscribe_ctx c k t (reg st) with Some r => r | None => reg st end;
                   flights := flights st |}
      else None
  | LUnsubscribe k t =>
      if negb locked || no_reader st
      then Some {| reg := match unsubscribe_ctx k t (reg st) with Some r => r | None => reg st end;
                   flights := flights st |}
      else None
  | LCtxCancel k t =>
      Some {| reg := (fst (reg st), cancel_ctx k t (snd (reg st))); flights := flights st |}
  | LPubBegin pc k =>
      Some {| reg := reg st; flights := flights st ++ [f_new pc k (reg st)] |}
  | LPubStep i e =>
      match nth_error (flights st) i with
      | Some f => if f_ended f || f_returned f then None
                  else Some {| reg := reg st; flights := upd_nth i (f_push e) (flights st) |}
      | None => None
      end
  | LPubEnd i =>
      match nth_error (flights st) i with
      | Some f => if negb (f_ended f) && f_returned f
                  then Some {| reg := reg st; flights := upd_nth i f_end (flights st) |}
                  else None
      | None => None
      end
  end.

(* a schedule all of whose steps are enabled *)
Fixpoint run_sched (locked : bool) (st : lstate) (sched : list label) : option lstate :=
  match sched with
  | [] => Some st
  | l :: rest => match step locked st l with Some st' => run_sched locked st' rest | None => None end
  end.

Definition is_ctx_cancel (l : label) : bool := match l with LCtxCancel _ _ => true | _ => false end.
