(* Persistent-waiter variant of Model/Worker.v (C17, "a Do that arrives while an instance is stopping waits for it to exit
   and then starts a fresh instance").

   In Model/Worker.v a Do call is ONE label (LDo = its critical section, worker.go:43-54), which is simply disabled while
   the watcher keeps x.mu; the caller parked on x.mu.Lock() is not part of the state.  Here it is: a Do call is two
   events,
     PArrive   the caller enters Do and reaches x.mu.Lock() (worker.go:43)            -- `waiting` + 1
     PEnter    ONE parked caller gets the mutex, executes the critical section of the
               base model (the very same `step faithful _ LDo`) and returns its done    -- `waiting` - 1
   and every other step (`PL l`, l <> LDo) is the base model's.  sync.Mutex does not promise an order among parked
   callers, so they are a counter.  Executable definitions only; proofs are in Proofs/WorkerWait.v. *)
From Coq Require Import List Arith Bool.
From BB.Model Require Import Worker.
Import ListNotations.

Record pst := { base : st; waiting : nat; arrived : nat (* ghost: number of Do calls made so far *) }.

Definition pinit : pst := {| base := init; waiting := 0; arrived := 0 |}.

Inductive plabel := PArrive | PEnter | PL (l : label).

Definition pstep (p : pst) (a : plabel) : option pst :=
  if panicked (base p) then None
  else match a with
       | PArrive => Some {| base := base p; waiting := S (waiting p); arrived := S (arrived p) |}
       | PEnter =>
           match waiting p with
           | 0 => None
           | S n => match step faithful (base p) LDo with
                    | Some s' => Some {| base := s'; waiting := n; arrived := arrived p |}
                    | None => None                     (* x.mu is held by the stopping watcher: stays parked *)
                    end
           end
       | PL LDo => None
       | PL l => match step faithful (base p) l with
                 | Some s' => Some {| base := s'; waiting := waiting p; arrived := arrived p |}
                 | None => None
                 end
       end.

Definition pstep_or_stay (p : pst) (a : plabel) : pst := match pstep p a with Some p' => p' | None => p end.
Definition prun (p : pst) (sched : list plabel) : pst := fold_left pstep_or_stay sched p.

(* termination measure: every event other than a new arrival strictly decreases it (a Do getting through raises the
   base measure by at most 11: a new instance 4 + 4, a new WaitGroup 2, a new holder 1) *)
Definition pmeasure (p : pst) : nat := measure (base p) + 12 * waiting p.
