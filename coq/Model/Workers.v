(* Model of bigbuff.Workers (workers.go; type Workers in bigbuff.go).

   Shared state, all of it guarded by Workers.mutex: `count` (live worker goroutines), `target` (the count argument of
   the most recent Call), `queue` (FIFO of pending items; an item is the pair function + reply channel, here the call id).
   Threads: API callers (each with a script of Call k / Wait / Count) and the worker goroutines spawned by Call.
   Every step is one critical section of the Go text (or a mutex-free stretch between two of them):

     caller   Call k, k = 0        check() panics before the mutex is taken                        workers.go:28, 94-97
              Call k, k > 0        lock; enqueue; target = k; for count < k { count++; go worker } workers.go:33-55
              Call return          `result := <-output` (cap 1, exactly one send, then close)      workers.go:56-57
              Wait invoke/return   lock; for count != 0 { cond.Wait() }: the return happens in a
                                   critical section that observes count = 0 (blocking wait, modelled
                                   as a step enabled only at count = 0; the Broadcast at workers.go:108
                                   is issued under the same mutex, so no wake-up is lost)          workers.go:71-78
              Count                lock; return count                                              workers.go:81-86
     worker   loop head            lock; if len(queue) == 0 || count > target { count--; exit }
                                   else item = queue[0]; queue = queue[1:]                         workers.go:105-117
              function start       item.value() begins (the function body is the environment's)    workers.go:124
              function end         item.value() returns; the result is sent on item.output, the
                                   channel is closed; back to the loop head                        workers.go:119-126

   Ghost components: `maxreq` (largest count requested so far), per call the number of starts `cx` and ends `ce` of its
   function, its owner thread and position (`cown`, `cidx`) and its status.  The result of the function of call i is
   modelled as i itself, so "the caller got its own function's result" reads `v = i`.

   `variant` selects the protocol as coded (`Faithful`) or one of four realistic mutations used by the refutation
   theorems; positive theorems and refutations run on the SAME `step`.
   Executable definitions only; proofs are in Proofs/Workers.v. *)
From Coq Require Import List Arith Bool.
Import ListNotations.

Inductive variant :=
| Faithful
| GeExit     (* exit test `count >= target` instead of `count > target` *)
| NoDec      (* `w.count--` missing on worker exit *)
| LeSpawn    (* top-up loop `for w.count <= count` *)
| NoPop.     (* `w.queue = w.queue[1:]` missing: the item stays at the head of the queue *)

Inductive wk :=
| WIdle              (* at the loop head, about to take the mutex *)
| WGot (i : nat)     (* dequeued item i, function not yet started *)
| WRun (i : nat)     (* executing the function of item i *)
| WDead.             (* returned *)

Inductive cstat :=
| SQueued              (* enqueued (or dequeued by a worker) and not yet started *)
| SRunning             (* function executing *)
| SReplied (v : nat)   (* result v sits in the reply channel *)
| SReturned (v : nat). (* Call has returned v *)

Record call := { cs : cstat; cx : nat; ce : nat; cown : nat; cidx : nat }.

Inductive cop := CCall (k : nat) | CWait | CCount.
Inductive cpc :=
| PReady               (* between operations *)
| PBlocked (i : nat)   (* inside Call, blocked on the reply channel of call i *)
| PWaiting.            (* inside Wait *)
Inductive out := RCall (i v : nat) | RPanic | RWait | RCount (n : nat).

Record caller := { script : list cop; pc : cpc; outs : list out }.

Record st := {
  count   : nat;
  target  : nat;
  queue   : list nat;
  ws      : list wk;
  calls   : list call;
  callers : list caller;
  maxreq  : nat
}.

Definition init (progs : list (list cop)) : st :=
  {| count := 0; target := 0; queue := []; ws := []; calls := [];
     callers := map (fun p => {| script := p; pc := PReady; outs := [] |}) progs; maxreq := 0 |}.

(* ---- list helpers ---- *)
Fixpoint upd {A} (l : list A) (n : nat) (y : A) : list A :=
  match l, n with
  | [], _ => []
  | _ :: r, 0 => y :: r
  | x :: r, S m => x :: upd r m y
  end.

Fixpoint updf {A} (l : list A) (n : nat) (f : A -> A) : list A :=
  match l, n with
  | [], _ => []
  | x :: r, 0 => f x :: r
  | x :: r, S m => x :: updf r m f
  end.

Definition b2n (b : bool) : nat := if b then 1 else 0.
Fixpoint countp {A} (P : A -> bool) (l : list A) : nat :=
  match l with [] => 0 | x :: r => b2n (P x) + countp P r end.
Fixpoint sumf {A} (f : A -> nat) (l : list A) : nat :=
  match l with [] => 0 | x :: r => f x + sumf f r end.

Definition is_nil {A} (l : list A) : bool := match l with [] => true | _ => false end.

(* ---- predicates on threads ---- *)
Definition live (w : wk) : bool := match w with WDead => false | _ => true end.
Definition running (w : wk) : bool := match w with WRun _ => true | _ => false end.
Definition is_got (i : nat) (w : wk) : bool := match w with WGot j => j =? i | _ => false end.
Definition is_run (i : nat) (w : wk) : bool := match w with WRun j => j =? i | _ => false end.
Definition is_blk (i : nat) (c : caller) : bool := match pc c with PBlocked j => j =? i | _ => false end.

(* ---- the points where the variants differ ---- *)
Definition exit_test (v : variant) (qempty : bool) (c t : nat) : bool :=
  match v with
  | GeExit => qempty || (t <=? c)
  | _ => qempty || (t <? c)
  end.
Definition dec_on_exit (v : variant) (c : nat) : nat := match v with NoDec => c | _ => c - 1 end.
(* number of iterations of the top-up loop *)
Definition spawn_n (v : variant) (c k : nat) : nat := match v with LeSpawn => S k - c | _ => k - c end.
Definition pop (v : variant) (i : nat) (rest : list nat) : list nat := match v with NoPop => i :: rest | _ => rest end.

Definition call_start (c : call) : call :=
  {| cs := SRunning; cx := S (cx c); ce := ce c; cown := cown c; cidx := cidx c |}.
Definition call_finish (r : nat) (c : call) : call :=
  {| cs := SReplied r; cx := cx c; ce := S (ce c); cown := cown c; cidx := cidx c |}.
Definition call_return (r : nat) (c : call) : call :=
  {| cs := SReturned r; cx := cx c; ce := ce c; cown := cown c; cidx := cidx c |}.

Definition mk (c t : nat) (q : list nat) (w : list wk) (cl : list call) (cr : list caller) (m : nat) : st :=
  {| count := c; target := t; queue := q; ws := w; calls := cl; callers := cr; maxreq := m |}.

(* ---- worker steps ---- *)
Definition wstep (v : variant) (s : st) (w : nat) : option st :=
  match nth_error (ws s) w with
  | Some WIdle =>
      if exit_test v (is_nil (queue s)) (count s) (target s) then
        Some (mk (dec_on_exit v (count s)) (target s) (queue s) (upd (ws s) w WDead) (calls s) (callers s) (maxreq s))
      else match queue s with
           | i :: rest =>
               Some (mk (count s) (target s) (pop v i rest) (upd (ws s) w (WGot i)) (calls s) (callers s) (maxreq s))
           | [] => None
           end
  | Some (WGot i) =>
      Some (mk (count s) (target s) (queue s) (upd (ws s) w (WRun i)) (updf (calls s) i call_start) (callers s) (maxreq s))
  | Some (WRun i) =>
      Some (mk (count s) (target s) (queue s) (upd (ws s) w WIdle) (updf (calls s) i (call_finish i)) (callers s) (maxreq s))
  | _ => None
  end.

(* ---- caller steps ---- *)
Definition cstep (v : variant) (s : st) (t : nat) : option st :=
  match nth_error (callers s) t with
  | None => None
  | Some c =>
      match pc c with
      | PReady =>
          match script c with
          | [] => None
          | CCall 0 :: rest =>
              Some (mk (count s) (target s) (queue s) (ws s) (calls s)
                       (upd (callers s) t {| script := rest; pc := PReady; outs := outs c ++ [RPanic] |}) (maxreq s))
          | CCall (S k') :: rest =>
              let k := S k' in
              let i := length (calls s) in
              let n := spawn_n v (count s) k in
              Some (mk (count s + n) k (queue s ++ [i]) (ws s ++ repeat WIdle n)
                       (calls s ++ [{| cs := SQueued; cx := 0; ce := 0; cown := t; cidx := length (outs c) |}])
                       (upd (callers s) t {| script := rest; pc := PBlocked i; outs := outs c |})
                       (Nat.max (maxreq s) k))
          | CWait :: rest =>
              Some (mk (count s) (target s) (queue s) (ws s) (calls s)
                       (upd (callers s) t {| script := rest; pc := PWaiting; outs := outs c |}) (maxreq s))
          | CCount :: rest =>
              Some (mk (count s) (target s) (queue s) (ws s) (calls s)
                       (upd (callers s) t {| script := rest; pc := PReady; outs := outs c ++ [RCount (count s)] |}) (maxreq s))
          end
      | PBlocked i =>
          match nth_error (calls s) i with
          | Some cl =>
              match cs cl with
              | SReplied r =>
                  Some (mk (count s) (target s) (queue s) (ws s) (updf (calls s) i (call_return r))
                           (upd (callers s) t {| script := script c; pc := PReady; outs := outs c ++ [RCall i r] |}) (maxreq s))
              | _ => None
              end
          | None => None
          end
      | PWaiting =>
          if count s =? 0 then
            Some (mk (count s) (target s) (queue s) (ws s) (calls s)
                     (upd (callers s) t {| script := script c; pc := PReady; outs := outs c ++ [RWait] |}) (maxreq s))
          else None
      end
  end.

Inductive pick := PC (t : nat) | PW (w : nat).

Definition step (v : variant) (s : st) (x : pick) : option st :=
  match x with PC t => cstep v s t | PW w => wstep v s w end.

(* a disabled pick is a stutter *)
Fixpoint run (v : variant) (s : st) (sched : list pick) : st :=
  match sched with
  | [] => s
  | x :: rest => match step v s x with Some s' => run v s' rest | None => run v s rest end
  end.

(* number of picks of the schedule that were enabled *)
Fixpoint taken (v : variant) (s : st) (sched : list pick) : nat :=
  match sched with
  | [] => 0
  | x :: rest => match step v s x with Some s' => S (taken v s' rest) | None => taken v s rest end
  end.

Definition picks (s : st) : list pick :=
  map PC (seq 0 (length (callers s))) ++ map PW (seq 0 (length (ws s))).

Definition enabled (v : variant) (s : st) (x : pick) : bool :=
  match step v s x with Some _ => true | None => false end.

Definition terminalb (v : variant) (s : st) : bool := forallb (fun x => negb (enabled v s x)) (picks s).

(* ---- termination measure: strictly decreases on every step of the faithful protocol ---- *)
Definition opcost (o : cop) : nat := match o with CCall k => k + 5 | CWait => 2 | CCount => 1 end.
Definition pccost (p : cpc) : nat := match p with PReady => 0 | _ => 1 end.
Definition ccost (c : caller) : nat := pccost (pc c) + sumf opcost (script c).
Definition wcost (w : wk) : nat := match w with WIdle => 1 | WGot _ => 3 | WRun _ => 2 | WDead => 0 end.
Definition measure (s : st) : nat := sumf ccost (callers s) + 3 * length (queue s) + sumf wcost (ws s).

(* ---- schedulers and observations used by the correspondence checker ---- *)
(* environment steps: a caller invoking its next operation, a function returning *)
Definition is_env (s : st) (x : pick) : bool :=
  match x with
  | PC t => match nth_error (callers s) t with
            | Some c => match pc c with PReady => true | _ => false end
            | None => false
            end
  | PW w => match nth_error (ws s) w with Some (WRun _) => true | _ => false end
  end.

(* a Call invocation (the only step that raises count) *)
Definition is_call (s : st) (x : pick) : bool :=
  match x with
  | PC t => match nth_error (callers s) t with
            | Some c => match pc c, script c with PReady, CCall _ :: _ => true | _, _ => false end
            | None => false
            end
  | PW _ => false
  end.

Fixpoint nocall (v : variant) (s : st) (sched : list pick) : bool :=
  match sched with
  | [] => true
  | x :: rest => negb (is_call s x) && match step v s x with Some s' => nocall v s' rest | None => nocall v s rest end
  end.

Definition first_enabled (v : variant) (s : st) : option pick := find (enabled v s) (picks s).

(* run the lowest-numbered enabled thread until nothing is enabled (or the fuel runs out) *)
Fixpoint run_fuel (v : variant) (fuel : nat) (s : st) : st :=
  match fuel with
  | 0 => s
  | S f => match first_enabled v s with
           | Some x => match step v s x with Some s' => run_fuel v f s' | None => s end
           | None => s
           end
  end.

Definition is_returned (c : call) : bool := match cs c with SReturned _ => true | _ => false end.

(* a burst: one caller per count argument, plus a thread doing Wait then Count; run to the end *)
Definition burst_progs (ks : list nat) : list (list cop) := map (fun k => [CCall k]) ks ++ [[CWait; CCount]].
Definition burst_final (ks : list nat) : st :=
  let s0 := init (burst_progs ks) in run_fuel Faithful (measure s0) s0.
(* (calls returned, calls whose function ran exactly once, final count, value reported by the Count after Wait) *)
Definition burst_result (ks : list nat) : nat * nat * nat * list out :=
  let s := burst_final ks in
  (countp is_returned (calls s), countp (fun c => (cx c =? 1) && (ce c =? 1)) (calls s), count s,
   match nth_error (callers s) (length ks) with Some c => outs c | None => [] end).

(* ids of the calls currently executing, ascending *)
Definition running_ids (s : st) : list nat :=
  filter (fun i => 0 <? countp (is_run i) (ws s)) (seq 0 (length (calls s))).
Definition nblocked (s : st) : nat := countp (fun c => match pc c with PReady => false | _ => true end) (callers s).
