(* A second, small embedding for STRAIGHT-LINE functions over FIXED-WIDTH integers, with panics and effect markers.
   It reuses the values, environments and external-function tables of Model/GoFrag.v and adds what the two functions
   translated into it need and GoFrag does not have:

     sanityCheckSubscribersDelta (chanpubsub.go)   int(int32(a) - int32(b)), && || comparisons, x.markBroken(), panic("...")
     calcExponentialRetry (retry.go)                uint32 clamp, 1 << c in uint32, int64(c), rand.Int63n(n), Duration * Duration

   harness/cmd/gotr prints the functions of /repo's CURRENT source as terms of [fundef2] (coq/Gen/ImplPureSanity.v,
   coq/Gen/ImplPureRetry.v, regenerated on every run of C07 / C18); Proofs/SanityGen.v and Proofs/RetryGen.v prove that they
   compute the hand-written models for every input.

   Integers: every integer-typed operation carries the Go type at which it is performed (the translator infers it: Go has no
   implicit conversions, so the type of an operation is the type of its typed operand; an untyped constant takes the type of its
   context) and its result is wrapped EXPLICITLY into that type's range, two's complement for signed types.  `int` is 64 bits
   wide (the platforms the harness runs on); Model/GoFrag.v leaves it unbounded because no property of the cleaners is about
   overflow.  Values are GoFrag's [VInt z] (the mathematical value; the type lives in the operations), [VBool b].

   Effects: a call of a method of the receiver without arguments and results (`x.markBroken()`) is an opaque effect; it is
   recorded in a log (in order), so that theorems can say which effects happened before a panic or a return.  `panic(msg)` with
   a string literal ends the function with [Pan2 msg].  A call of an external function (`rand.Int63n`) is looked up in a table of
   Gallina functions - an ORACLE the theorems quantify over; a table entry answering [None] (the external function panics or
   is applied to the wrong arguments) and every ill-typed operation make the run [Stuck2].

   No loops; scoping is resolved by the translator (flat environment, canonical names).  Anything outside the fragment
   makes the translator fail, never this interpreter guess. *)
From Coq Require Import List ZArith Bool String.
From BB.Model Require Import GoFrag.
Import ListNotations.
Local Open Scope string_scope.
Local Open Scope Z_scope.

Inductive ity := TInt | TInt32 | TUint32 | TInt64.

(* the unique representative of z modulo 2^width in the range of the type *)
Definition wrap_to (t : ity) (z : Z) : Z :=
  match t with
  | TInt | TInt64 => (z + 2 ^ 63) mod 2 ^ 64 - 2 ^ 63
  | TInt32 => (z + 2 ^ 31) mod 2 ^ 32 - 2 ^ 31
  | TUint32 => z mod 2 ^ 32
  end.

(* is z a value of the type? *)
Definition in_range (t : ity) (z : Z) : bool :=
  match t with
  | TInt | TInt64 => (- 2 ^ 63 <=? z) && (z <? 2 ^ 63)
  | TInt32 => (- 2 ^ 31 <=? z) && (z <? 2 ^ 31)
  | TUint32 => (0 <=? z) && (z <? 2 ^ 32)
  end.

Inductive expr2 :=
| XVar (x : string)
| XInt (z : Z)                                   (* an integer constant, representable at the type it is used at (the compiler checks) *)
| XBool (b : bool)
| XConv (t : ity) (a : expr2)                    (* T(a) between integer types: wrap_to into T *)
| XArith (t : ity) (op : binop) (a b : expr2)    (* a + b, a - b, a * b at type t: the exact result, wrapped into t *)
| XNeg (t : ity) (a : expr2)                     (* -a at type t *)
| XShl (t : ity) (a b : expr2)                   (* a << b at type t: a * 2^b wrapped into t; a negative count panics *)
| XCmp (op : binop) (a b : expr2)                (* < <= > >= == != on two integers of one type; == != on bools *)
| XAnd (a b : expr2)                             (* short circuit *)
| XOr (a b : expr2)
| XNot (a : expr2)
| XExt (f : string) (args : list expr2).         (* a call of an external function: an oracle of the theorems *)

Inductive stmt2 :=
| YSkip
| YAssign (x : string) (e : expr2)
| YSeq (a b : stmt2)
| YIf (c : expr2) (t e : stmt2)
| YReturn (e : expr2)
| YReturn0                                       (* `return` in a function without a result *)
| YPanic (msg : string)                          (* panic("msg") *)
| YMark (m : string).                            (* x.m() on the receiver: an opaque effect, logged *)

Record fundef2 := { fname2 : string; params2 : list (string * ity); body2 : stmt2 }.

Definition arith_op (op : binop) (x y : Z) : option Z :=
  match op with
  | BAdd => Some (x + y)
  | BSub => Some (x - y)
  | BMul => Some (x * y)
  | _ => None
  end.

Definition cmp_op (op : binop) (a b : val) : option val :=
  match op with
  | BLt | BLe | BGt | BGe | BEq | BNe => eval_bin op a b
  | _ => None
  end.

Section Eval2.
Variable fe : fenv.

Fixpoint eval2 (e : env) (x : expr2) : option val :=
  match x with
  | XVar v => lookup v e
  | XInt z => Some (VInt z)
  | XBool b => Some (VBool b)
  | XConv t a => match eval2 e a with Some (VInt z) => Some (VInt (wrap_to t z)) | _ => None end
  | XArith t op a b =>
      match eval2 e a, eval2 e b with
      | Some (VInt x), Some (VInt y) => match arith_op op x y with Some r => Some (VInt (wrap_to t r)) | None => None end
      | _, _ => None
      end
  | XNeg t a => match eval2 e a with Some (VInt z) => Some (VInt (wrap_to t (- z))) | _ => None end
  | XShl t a b =>
      match eval2 e a, eval2 e b with
      | Some (VInt x), Some (VInt n) => if n <? 0 then None else Some (VInt (wrap_to t (x * 2 ^ n)))
      | _, _ => None
      end
  | XCmp op a b =>
      match eval2 e a, eval2 e b with
      | Some va, Some vb => cmp_op op va vb
      | _, _ => None
      end
  | XAnd a b =>
      match eval2 e a with
      | Some (VBool false) => Some (VBool false)
      | Some (VBool true) => match eval2 e b with Some (VBool r) => Some (VBool r) | _ => None end
      | _ => None
      end
  | XOr a b =>
      match eval2 e a with
      | Some (VBool true) => Some (VBool true)
      | Some (VBool false) => match eval2 e b with Some (VBool r) => Some (VBool r) | _ => None end
      | _ => None
      end
  | XNot a => match eval2 e a with Some (VBool b) => Some (VBool (negb b)) | _ => None end
  | XExt f args =>
      match flookup f fe with
      | Some h =>
          (fix evs (l : list expr2) (acc : list val) : option val :=
             match l with
             | [] => h (rev acc)
             | a :: l' => match eval2 e a with Some v => evs l' (v :: acc) | None => None end
             end) args []
      | None => None
      end
  end.

Inductive outcome2 :=
| N2 (e : env) (log : list string)         (* fell through *)
| Ret2 (v : option val) (log : list string)
| Pan2 (msg : string) (log : list string)
| Stuck2.

Fixpoint exec2 (s : stmt2) (e : env) (log : list string) : outcome2 :=
  match s with
  | YSkip => N2 e log
  | YAssign x a => match eval2 e a with Some v => N2 (set x v e) log | None => Stuck2 end
  | YSeq a b => match exec2 a e log with N2 e' log' => exec2 b e' log' | r => r end
  | YIf c t f =>
      match eval2 e c with
      | Some (VBool true) => exec2 t e log
      | Some (VBool false) => exec2 f e log
      | _ => Stuck2
      end
  | YReturn a => match eval2 e a with Some v => Ret2 (Some v) log | None => Stuck2 end
  | YReturn0 => Ret2 None log
  | YPanic msg => Pan2 msg log
  | YMark m => N2 e (log ++ [m])
  end.

(* what a caller observes *)
Inductive observed :=
| Done (log : list string)                 (* a function without a result returned (by `return` or by reaching its end) *)
| Returned (v : val) (log : list string)
| Panicked (msg : string) (log : list string)
| Stuck.

Definition run2 (f : fundef2) (args : list val) : observed :=
  match bind_params (map fst (params2 f)) args with
  | Some e =>
      match exec2 (body2 f) e [] with
      | N2 _ log | Ret2 None log => Done log
      | Ret2 (Some v) log => Returned v log
      | Pan2 msg log => Panicked msg log
      | Stuck2 => Stuck
      end
  | None => Stuck
  end.

End Eval2.

(* are the arguments integers of the parameter types? *)
Fixpoint args_typed (ps : list (string * ity)) (vs : list val) : bool :=
  match ps, vs with
  | [], [] => true
  | (_, t) :: ps', VInt z :: vs' => in_range t z && args_typed ps' vs'
  | _, _ => false
  end.
