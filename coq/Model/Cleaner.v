(* Model of the cleaner functions of bigbuff.go (DefaultCleaner, FixedBufferCleaner) and of the shift clamp in
   Buffer.cleanupLogic (buffer.go).  Go `int` is modelled as unbounded Z (no property here is about overflow).
   Executable definitions only. *)
From Coq Require Import List ZArith Bool.
Import ListNotations.
Local Open Scope Z_scope.

(* The `for _, offset := range offsets` loop of DefaultCleaner, with its early `return 0`. *)
Fixpoint default_loop (offsets : list Z) (lowest : Z) (active : bool) : Z :=
  match offsets with
  | [] => if active then lowest else 0
  | o :: rest =>
      if o =? 0 then 0
      else if o <? 0 then default_loop rest lowest active
      else default_loop rest (if o <? lowest then o else lowest) true
  end.

Definition default_cleaner (size : Z) (offsets : list Z) : Z := default_loop offsets size false.

Definition fixed_cleaner (max target : Z) (size : Z) (offsets : list Z) : Z :=
  if size >? max then size - target else default_cleaner size offsets.

(* cleanupLogic: clamp the cleaner's answer to [0, len]; the result is the number of values actually shifted. *)
Definition clamp_shift (len shift : Z) : Z :=
  let shift := if shift >? len then len else shift in
  if shift <=? 0 then 0 else shift.

(* Reference definitions used by the specification theorems. *)
Fixpoint min_nonneg (offsets : list Z) (acc : Z) : Z :=
  match offsets with
  | [] => acc
  | o :: rest => if 0 <=? o then min_nonneg rest (Z.min acc o) else min_nonneg rest acc
  end.

Definition any_nonneg (offsets : list Z) : bool := existsb (fun o => 0 <=? o) offsets.

Definition default_spec (size : Z) (offsets : list Z) : Z :=
  if any_nonneg offsets then min_nonneg offsets size else 0.
