(* Model/WaitCond.v — bigbuff.WaitCond (/repo/sync.go) as a finite-control protocol.

     func WaitCond(ctx, cond, fn) error {                         (caller holds cond.L)
       var cancel context.CancelFunc
       for {
         if ctx != nil {
           if err := ctx.Err(); err != nil { return err }         WStart  (-> WRetErr)
           if cancel == nil {
             ctx, cancel = context.WithCancel(ctx); defer cancel()
             go func() {                                          WStart spawns the watcher at TWait
               <-ctx.Done()                                       TWait   enabled iff cancelled \/ dcancel
               l.Lock(); defer l.Unlock()                         TLock
               cond.Broadcast()                                   TBcast
             }()                                                  TUnlock -> TExit
           }
         }
         if fn() { return nil }                                   WFn     (-> WRetNil, else -> WEnq)
         cond.Wait()                                              WEnq; WUnlock; WParked; WRelock  (DESIGN 3.4)
       }                                                          (back to WStart: ctx.Err() is checked again)
     }
     WRetNil / WRetErr -> WReleased: the deferred cancel() runs (dcancel := true if the watcher was spawned) and the
     caller unlocks L.  (One step: nothing can interleave usefully while the waiter still holds L.)

   cond.Wait() has sync.Cond's notify-list semantics: enqueue the ticket while holding L (WEnq), L.Unlock()
   (WUnlock), park until the ticket has been notified (WParked), L.Lock() (WRelock).  [inq] = the waiter's ticket is
   in the notify list and has not been notified; Broadcast sets it to false.

   Environment
   * [nn] notifier critical sections still to come, each  L.Lock(); predicate := b; cond.Broadcast(); L.Unlock()
     — one atomic step enabled when L is free; the new value b is part of the pick.
   * one canceller, present iff [canc]: cancels the caller's context (cancelled := true).  It may run before the
     waiter's first step (a pre-cancelled context).
   * [hasctx = false] is the  ctx == nil  case of the code (no check, no watcher, no canceller).

   After the first iteration [ctx] is the derived context; its Err() is non-nil iff the parent is cancelled or the
   deferred cancel() has run, and the latter happens only on return, so the loop's check reads [cancelled].

   Protocol variants (explicit arguments, so refutations run on the same [step] as the theorems)
   * [watcher_locks = false]: mutation "the watcher broadcasts without taking L".
   * [recheck_ctx = false]:   mutation "ctx.Err() is checked only before the loop; after a wake-up only the
                              predicate is re-evaluated".

   Ghosts: [retv] (None = not returned, Some true = returned nil, Some false = returned ctx.Err()),
   [last_fn_true_holding] (the waiter's latest step was an evaluation of fn() that saw true while it held L).

   Executable definitions only; no proofs in this file. *)

From Coq Require Import List Bool Arith.
Import ListNotations.

Inductive wpc := WStart | WFn | WEnq | WUnlock | WParked | WRelock | WRetNil | WRetErr | WReleased.
Inductive tpc := TWait | TLock | TBcast | TUnlock | TExit.
Inductive owner := Nobody | OW | OT.
Inductive pick := PW | PT | PNotify (b : bool) | PCancel.
Inductive ctxmode := CtxNil | CtxLive | CtxCancellable.

Record ctl := mkctl {
  w : wpc;                        (* the goroutine calling WaitCond *)
  t : option tpc;                 (* the watcher goroutine; None = not spawned *)
  lk : owner;                     (* cond.L *)
  inq : bool;                     (* waiter's ticket enqueued and not yet notified *)
  pred : bool;                    (* what fn() would return *)
  hasctx : bool;                  (* ctx != nil *)
  canc : bool;                    (* a canceller exists and has not run yet *)
  cancelled : bool;               (* the caller's context is cancelled *)
  dcancel : bool;                 (* the deferred cancel() of the derived context has run *)
  retv : option bool;             (* ghost: result *)
  last_fn_true_holding : bool     (* ghost *)
}.

Record st := mkst { ctl_of :> ctl; nn : nat }.

Definition owner_free (o : owner) : bool := match o with Nobody => true | _ => false end.
Definition owner_is_w (o : owner) : bool := match o with OW => true | _ => false end.
Definition spawned (c : ctl) : bool := match t c with None => false | Some _ => true end.

Definition w_step (recheck_ctx : bool) (c : ctl) : option ctl :=
  match w c with
  | WStart =>
      if hasctx c then
        if cancelled c
        then Some (mkctl WRetErr (t c) (lk c) (inq c) (pred c) (hasctx c) (canc c) (cancelled c) (dcancel c)
                         (Some false) false)
        else Some (mkctl WFn (match t c with None => Some TWait | Some x => Some x end)
                         (lk c) (inq c) (pred c) (hasctx c) (canc c) (cancelled c) (dcancel c) (retv c) false)
      else Some (mkctl WFn (t c) (lk c) (inq c) (pred c) (hasctx c) (canc c) (cancelled c) (dcancel c) (retv c) false)
  | WFn =>
      if pred c
      then Some (mkctl WRetNil (t c) (lk c) (inq c) (pred c) (hasctx c) (canc c) (cancelled c) (dcancel c)
                       (Some true) (owner_is_w (lk c)))
      else Some (mkctl WEnq (t c) (lk c) (inq c) (pred c) (hasctx c) (canc c) (cancelled c) (dcancel c)
                       (retv c) false)
  | WEnq =>
      Some (mkctl WUnlock (t c) (lk c) true (pred c) (hasctx c) (canc c) (cancelled c) (dcancel c) (retv c) false)
  | WUnlock =>
      Some (mkctl WParked (t c) Nobody (inq c) (pred c) (hasctx c) (canc c) (cancelled c) (dcancel c) (retv c) false)
  | WParked =>
      if inq c then None
      else Some (mkctl WRelock (t c) (lk c) (inq c) (pred c) (hasctx c) (canc c) (cancelled c) (dcancel c)
                       (retv c) false)
  | WRelock =>
      if owner_free (lk c)
      then Some (mkctl (if recheck_ctx then WStart else WFn) (t c) OW (inq c) (pred c) (hasctx c) (canc c)
                       (cancelled c) (dcancel c) (retv c) false)
      else None
  | WRetNil | WRetErr =>
      Some (mkctl WReleased (t c) Nobody (inq c) (pred c) (hasctx c) (canc c) (cancelled c)
                  (dcancel c || spawned c) (retv c) (last_fn_true_holding c))
  | WReleased => None
  end.

Definition t_step (watcher_locks : bool) (c : ctl) : option ctl :=
  match t c with
  | None => None
  | Some TWait =>
      if cancelled c || dcancel c
      then Some (mkctl (w c) (Some (if watcher_locks then TLock else TBcast)) (lk c) (inq c) (pred c) (hasctx c)
                       (canc c) (cancelled c) (dcancel c) (retv c) (last_fn_true_holding c))
      else None
  | Some TLock =>
      if owner_free (lk c)
      then Some (mkctl (w c) (Some TBcast) OT (inq c) (pred c) (hasctx c) (canc c) (cancelled c) (dcancel c)
                       (retv c) (last_fn_true_holding c))
      else None
  | Some TBcast =>
      Some (mkctl (w c) (Some (if watcher_locks then TUnlock else TExit)) (lk c) false (pred c) (hasctx c) (canc c)
                  (cancelled c) (dcancel c) (retv c) (last_fn_true_holding c))
  | Some TUnlock =>
      Some (mkctl (w c) (Some TExit) Nobody (inq c) (pred c) (hasctx c) (canc c) (cancelled c) (dcancel c)
                  (retv c) (last_fn_true_holding c))
  | Some TExit => None
  end.

(* One notifier section (that one is still to come is checked in [step]). *)
Definition n_step (b : bool) (c : ctl) : option ctl :=
  if owner_free (lk c)
  then Some (mkctl (w c) (t c) (lk c) false b (hasctx c) (canc c) (cancelled c) (dcancel c) (retv c)
                   (last_fn_true_holding c))
  else None.

Definition c_step (c : ctl) : option ctl :=
  if canc c
  then Some (mkctl (w c) (t c) (lk c) (inq c) (pred c) (hasctx c) false true (dcancel c) (retv c)
                   (last_fn_true_holding c))
  else None.

Definition cstep (watcher_locks recheck_ctx : bool) (c : ctl) (p : pick) : option ctl :=
  match p with
  | PW => w_step recheck_ctx c
  | PT => t_step watcher_locks c
  | PNotify b => n_step b c
  | PCancel => c_step c
  end.

Definition step (watcher_locks recheck_ctx : bool) (s : st) (p : pick) : option st :=
  match p with
  | PNotify b =>
      match nn s with
      | 0 => None
      | S k => option_map (fun c => mkst c k) (cstep watcher_locks recheck_ctx s p)
      end
  | _ => option_map (fun c => mkst c (nn s)) (cstep watcher_locks recheck_ctx s p)
  end.

(* The waiter is called with L held. *)
Definition init (n : nat) (pred0 : bool) (cm : ctxmode) : st :=
  mkst (mkctl WStart None OW false pred0
              (match cm with CtxNil => false | _ => true end)
              (match cm with CtxCancellable => true | _ => false end)
              false false None false) n.

Fixpoint run (watcher_locks recheck_ctx : bool) (s : st) (sched : list pick) : st :=
  match sched with
  | [] => s
  | p :: r =>
      match step watcher_locks recheck_ctx s p with
      | Some s' => run watcher_locks recheck_ctx s' r
      | None => run watcher_locks recheck_ctx s r
      end
  end.

Definition all_pick : list pick := [PW; PT; PNotify true; PNotify false; PCancel].

Definition enabled (wl rc : bool) (s : st) (p : pick) : bool :=
  match step wl rc s p with Some _ => true | None => false end.

Definition is_terminal (wl rc : bool) (s : st) : bool :=
  forallb (fun p => negb (enabled wl rc s p)) all_pick.

Definition returned (c : ctl) : bool :=
  match w c with WRetNil | WRetErr | WReleased => true | _ => false end.

Definition watcher_done (c : ctl) : bool :=
  match t c with None | Some TExit => true | _ => false end.

Fixpoint moves (wl rc : bool) (s : st) (sched : list pick) : nat :=
  match sched with
  | [] => 0
  | p :: r =>
      match step wl rc s p with
      | Some s' => S (moves wl rc s' r)
      | None => moves wl rc s r
      end
  end.
