(* Helper definitions for the trace-acceptance stage C17TRACE (checker/ad_workertrace.ml).  Executable definitions only, no
   proofs; nothing here changes Model/Worker.v or Model/WorkerWait.v - these are projections of their states that the adapter
   evaluates on every candidate model state (the adapter itself decides acceptance with the extracted [Worker.step faithful] and
   [WorkerWait.pstep]).

     at_restb s        nothing of the library is left: x.mu free, x.wg / x.stop / x.done nil, every watcher and every do
                       goroutine has exited with both channels closed, every done function has been called, no panic
     single_okb s      at most one instance function is between "entered" and "returned"
     held_okb s        while some done function is outstanding: an instance exists, its stop channel is open, and its function
                       has not returned unless it returned on its own (ghost flag [early])
     outstanding s g   number of done functions of WaitGroup object g not yet called
     gen_of s h        the WaitGroup object holder h was registered with
     wp_of / ip_of / isc_of / stopc_of / donec_of   fields of instance k (None when k does not exist)                        *)
From Coq Require Import List Arith Bool.
From BB.Model Require Import Worker WorkerWait.
Import ListNotations.

Definition inst_deadb (i : inst) : bool :=
  match wp i, ip i with
  | WExit, IExit => stopc i && donec i
  | _, _ => false
  end.

Definition at_restb (s : st) : bool :=
  negb (mu s) && negb (panicked s)
  && (match xwg s with None => true | Some _ => false end)
  && (match xinst s with None => true | Some _ => false end)
  && forallb inst_deadb (insts s)
  && forallb hdone (holders s).

Definition p_at_restb (p : pst) : bool := at_restb (base p) && (waiting p =? 0).

Definition single_okb (s : st) : bool := countb running (insts s) <=? 1.

Definition heldb (s : st) : bool := existsb (fun h => negb (hdone h)) (holders s).

Definition held_okb (s : st) : bool :=
  if heldb s then
    match xinst s with
    | None => false
    | Some j => match nth_error (insts s) j with
                | None => false
                | Some i => negb (stopc i) && (negb (returned i) || early i)
                end
    end
  else true.

Definition outstanding (s : st) (g : nat) : nat :=
  countb (fun h => (hgen h =? g) && negb (hdone h)) (holders s).

Definition gen_of (s : st) (h : nat) : option nat :=
  match nth_error (holders s) h with Some hh => Some (hgen hh) | None => None end.

Definition wp_of (s : st) (k : nat) : option wpc := option_map wp (nth_error (insts s) k).
Definition ip_of (s : st) (k : nat) : option ipc := option_map ip (nth_error (insts s) k).
Definition isc_of (s : st) (k : nat) : option (option nat) := option_map isc (nth_error (insts s) k).
Definition stopc_of (s : st) (k : nat) : bool :=
  match nth_error (insts s) k with Some i => stopc i | None => false end.
Definition donec_of (s : st) (k : nat) : bool :=
  match nth_error (insts s) k with Some i => donec i | None => false end.
Definition early_of (s : st) (k : nat) : bool :=
  match nth_error (insts s) k with Some i => early i | None => false end.
Definition counter_of (s : st) (g : nat) : nat := nth g (gens s) 0.
