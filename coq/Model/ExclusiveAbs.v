(* Counter abstraction of bigbuff.Exclusive (exclusive.go) for ONE key, plus one individually tracked
   ("tagged") blocking call.  Executable definitions only; proofs are in Proofs/ExclusiveAbs.v.

   Reading of Exclusive.call that the counters encode.
   * A caller (1) fetches-or-creates the map item under e.mutex, (2) locks item.mutex and re-validates under
     e.mutex: if the map still holds that item it ATTACHES (count++), else it unlocks and retries.  A start-style
     caller whose count++ did not yield 1 returns at once ("escapes").  Every other attached caller keeps
     item.mutex and spawns its goroutine, which STARTS OUT HOLDING item.mutex (lock hand-off).
   * The goroutine waits while item.running.  If then item.complete it copies the result and exits.  Otherwise it
     becomes the RUNNER: running := true, optionally unlock/sleep/relock (CallAfter wait), then `replace`: install
     in the map a fresh successor (same mutex and cond, running = true, count = 0), unlock, run the work function.
     `resolve` (first call only; forced with errResolveNotCalled after the work function returns) sends the
     runner's own outcome, then under item.mutex sets result/complete, running := false, broadcasts.  After the
     work function RETURNS, under the mutex: successor.running := false, delete the key if successor.count = 0,
     broadcast.
   * Every critical section on item.mutex is non-blocking except the cond wait and the CallAfter sleep, so each
     is ONE step here and no mutex variable is needed.  Goroutines of one kind in one location are
     interchangeable, so they are counted.  Suffix c = blocking/async call (has an outcome channel),
     s = start-style call (no outcome channel). *)
From Coq Require Import List Arith Bool.
Import ListNotations.

(* ---------------------------------------------------------------------------------------------------------- *)
(* Counters                                                                                                   *)

(* program counter of the (at most one) runner *)
Inductive rpc :=
| RNone      (* no runner *)
| RSleep     (* CallAfter wait: its item is still in the map, running = true, item.mutex released *)
| RWork      (* work function running, resolve not yet called *)
| RWorkRes   (* resolved, work function not yet returned *)
| RDone.     (* work function returned, successor's running flag not yet cleared *)

Inductive var :=
| nc | ns                 (* calls not yet made: blocking/async style, start style *)
| c2mc | c2ms             (* fetched the CURRENT map item, about to lock it and re-validate *)
| c2sc | c2ss             (* hold a stale item reference: will fail validation and retry *)
| mm | mcount             (* map entry: 0 none / 1 item not running / 2 item running; its count field *)
| gwmc | gwms             (* goroutines attached to the map item, waiting for running = false *)
| gwxc | gwxs             (* goroutines attached to the item being executed, waiting for complete *)
| gdc | gds               (* goroutines whose item completed: will copy the result and exit *)
| rown                    (* the runner's goroutine has an outcome channel (it came from a blocking/async call) *)
| execa                   (* ghost: number of work functions between ExecStart and return (0 or 1) *)
| overlap                 (* ghost: 1 once an ExecStart happened while another execution was active *)
| started                 (* ghost: number of ExecStart events so far = ordinal of the latest execution *)
| issuedc | issueds       (* ghost: calls made so far, per style *)
| answered                (* ghost: outcomes delivered to blocking/async calls *)
| escaped.                (* ghost: start-style calls that took the escape hatch *)
Scheme Equality for var.

Definition set (x : var) (n : nat) (f : var -> nat) : var -> nat := fun y => if var_beq y x then n else f y.
Notation "f [ x := n ]" := (set x n f) (at level 10, left associativity).
Definition pos (n : nat) := negb (n =? 0).

(* ---------------------------------------------------------------------------------------------------------- *)
(* The tagged call: one blocking/async call followed individually.  It is ALSO counted in the counters above  *)
(* (the counter projection of the model is exactly the untagged protocol); `tpc` says in which counter.       *)

Inductive tagpc :=
| TNone      (* the tagged call has not been made yet *)
| TC2M       (* counted in c2mc *)
| TC2S       (* counted in c2sc *)
| TGWM       (* counted in gwmc *)
| TGWX       (* counted in gwxc *)
| TGD        (* counted in gdc *)
| TRun       (* it is the runner (rown = 1), not yet resolved *)
| TDone.     (* its outcome has been delivered *)

Record tagst := {
  tpc  : tagpc;
  tag_started_after : bool;  (* ghost: an ExecStart happened while the tagged call was attached to the map item *)
  tcall : nat;               (* ghost: number of ExecStart events that preceded the tagged call's first step *)
  texec : nat;               (* ghost: ordinal of the execution the tagged call's item was bound to (by `replace`) *)
  tres  : nat;               (* ghost: ordinal of the execution whose `resolve` completed the tagged call's item *)
  tans  : nat                (* ghost: outcomes delivered to the tagged call *)
}.
Definition tag0 : tagst :=
  {| tpc := TNone; tag_started_after := false; tcall := 0; texec := 0; tres := 0; tans := 0 |}.

Record st := { rp : rpc; v : var -> nat; tg : tagst }.

(* ---------------------------------------------------------------------------------------------------------- *)
(* Picks                                                                                                      *)

Inductive kind := KC | KS.

(* steps of anonymous goroutines and of the runner *)
Inductive bpick :=
| PCall (k : kind)                   (* first fetch-or-create of a new call *)
| PStale (k : kind)                  (* validation fails on a stale reference, unlock, fetch again *)
| PAttach (k : kind) (sleep : bool)  (* validation succeeds: count++, escape / wait / become the runner *)
| PWake (k : kind) (sleep : bool)    (* a waiter of the map item finds running = false: becomes the runner *)
| PSleepDone                         (* the runner's CallAfter sleep ends: relock, replace, start the work *)
| PResolve                           (* the work function calls resolve *)
| PReturn                            (* the work function returns (forced resolve if it never resolved) *)
| PG3                                (* the runner clears the successor's flag / deletes the key, broadcasts *)
| PDrain (k : kind).                 (* a waiter of a completed item copies the result and exits *)

(* the same caller steps taken by the tagged call *)
Inductive tpick := TCall | TStale | TAttach (sleep : bool) | TWake (sleep : bool) | TDrain.

Inductive pick := PB (b : bpick) | PT (t : tpick).
Coercion PB : bpick >-> pick.

Definition base_of (t : tpick) : bpick :=
  match t with
  | TCall => PCall KC | TStale => PStale KC | TAttach sl => PAttach KC sl | TWake sl => PWake KC sl
  | TDrain => PDrain KC
  end.
Definition untag (p : pick) : bpick := match p with PB b => b | PT t => base_of t end.

Definition all_bpicks : list bpick :=
  [PCall KC; PCall KS; PStale KC; PStale KS;
   PAttach KC false; PAttach KC true; PAttach KS false; PAttach KS true;
   PWake KC false; PWake KC true; PWake KS false; PWake KS true;
   PSleepDone; PResolve; PReturn; PG3; PDrain KC; PDrain KS].
Definition all_tpicks : list tpick := [TCall; TStale; TAttach false; TAttach true; TWake false; TWake true; TDrain].
Definition all_picks : list pick := map PB all_bpicks ++ map PT all_tpicks.

(* ---------------------------------------------------------------------------------------------------------- *)
(* Defect switches (all false = the code as written)                                                          *)

Record flags := {
  clear_in_resolve  : bool;  (* resolve also clears the successor's running flag (instead of only after return) *)
  no_forced_resolve : bool;  (* no resolve(nil, errResolveNotCalled) after a work function that never resolved *)
  escape_always     : bool   (* the start-style escape hatch is taken even when count++ yielded 1 *)
}.
Definition good : flags := {| clear_in_resolve := false; no_forced_resolve := false; escape_always := false |}.

(* ---------------------------------------------------------------------------------------------------------- *)
(* Counter-level transition function (DESIGN.md Appendix B.2, plus an effect label for the tag bookkeeping)    *)

Inductive eff :=
| ENone
| EReplace    (* ExecStart: the runner's item left the map, a running successor was installed *)
| EComplete   (* resolve ran: the executed item is complete *)
| EDelete.    (* the key was deleted from the map *)

Definition cres := (eff * rpc * (var -> nat))%type.
Definition mk (e : eff) (p : rpc) (f : var -> nat) : cres := (e, p, f).

(* the runner removes its item from the map, installs a running successor, starts the work function *)
Definition replace (f : var -> nat) : var -> nat :=
  f [gwxc := f gwmc] [gwxs := f gwms] [gwmc := 0] [gwms := 0] [mm := 2] [mcount := 0]
    [c2sc := f c2sc + f c2mc] [c2ss := f c2ss + f c2ms] [c2mc := 0] [c2ms := 0]
    [overlap := if f execa =? 0 then f overlap else 1] [execa := 1] [started := S (f started)].
Definition become_runner (k : kind) (sleep : bool) (f : var -> nat) : cres :=
  let f := f [rown := match k with KC => 1 | KS => 0 end] in
  if sleep then mk ENone RSleep (f [mm := 2]) else mk EReplace RWork (replace f).
Definition fetch (f : var -> nat) : var -> nat := if f mm =? 0 then f [mm := 1] [mcount := 0] else f.
Definition complete (fl : flags) (f : var -> nat) : var -> nat :=
  let g := f [answered := f answered + f rown] [gdc := f gdc + f gwxc] [gds := f gds + f gwxs] [gwxc := 0] [gwxs := 0] in
  if clear_in_resolve fl then g [mm := 1] else g.

Definition cstep (fl : flags) (r : rpc) (f : var -> nat) (p : bpick) : option cres :=
  match p with
  | PCall KC => if pos (f nc) then let g := fetch (f [nc := f nc - 1] [issuedc := S (f issuedc)]) in Some (mk ENone r (g [c2mc := S (g c2mc)])) else None
  | PCall KS => if pos (f ns) then let g := fetch (f [ns := f ns - 1] [issueds := S (f issueds)]) in Some (mk ENone r (g [c2ms := S (g c2ms)])) else None
  | PStale KC => if pos (f c2sc) then let g := fetch (f [c2sc := f c2sc - 1]) in Some (mk ENone r (g [c2mc := S (g c2mc)])) else None
  | PStale KS => if pos (f c2ss) then let g := fetch (f [c2ss := f c2ss - 1]) in Some (mk ENone r (g [c2ms := S (g c2ms)])) else None
  | PAttach KC sl =>
      if pos (f c2mc) then
        let g := f [c2mc := f c2mc - 1] [mcount := S (f mcount)] in
        if f mm =? 2 then Some (mk ENone r (g [gwmc := S (f gwmc)]))
        else Some (become_runner KC sl g)
      else None
  | PAttach KS sl =>
      if pos (f c2ms) then
        let g := f [c2ms := f c2ms - 1] [mcount := S (f mcount)] in
        if escape_always fl || negb (f mcount =? 0) then Some (mk ENone r (g [escaped := S (f escaped)]))   (* start && count != 1 *)
        else if f mm =? 2 then Some (mk ENone r (g [gwms := S (f gwms)]))
        else Some (become_runner KS sl g)
      else None
  | PWake KC sl => if pos (f gwmc) && (f mm =? 1) then Some (become_runner KC sl (f [gwmc := f gwmc - 1])) else None
  | PWake KS sl => if pos (f gwms) && (f mm =? 1) then Some (become_runner KS sl (f [gwms := f gwms - 1])) else None
  | PSleepDone => match r with RSleep => Some (mk EReplace RWork (replace f)) | _ => None end
  | PResolve => match r with RWork => Some (mk EComplete RWorkRes (complete fl f)) | _ => None end
  | PReturn => match r with
               | RWork => if no_forced_resolve fl then Some (mk ENone RDone (f [execa := 0]))
                          else Some (mk EComplete RDone ((complete fl f) [execa := 0]))   (* forced resolve(nil, errResolveNotCalled) *)
               | RWorkRes => Some (mk ENone RDone (f [execa := 0]))
               | _ => None end
  | PG3 => match r with
           | RDone => if f mcount =? 0
                      then Some (mk EDelete RNone (f [mm := 0] [c2sc := f c2sc + f c2mc] [c2ss := f c2ss + f c2ms] [c2mc := 0] [c2ms := 0]))
                      else Some (mk ENone RNone (f [mm := 1]))
           | _ => None end
  | PDrain KC => if pos (f gdc) then Some (mk ENone r (f [gdc := f gdc - 1] [answered := S (f answered)])) else None
  | PDrain KS => if pos (f gds) then Some (mk ENone r (f [gds := f gds - 1])) else None
  end.

(* ---------------------------------------------------------------------------------------------------------- *)
(* Tag bookkeeping                                                                                            *)

Definition with_tpc (p : tagpc) (t : tagst) : tagst :=
  {| tpc := p; tag_started_after := tag_started_after t; tcall := tcall t; texec := texec t; tres := tres t; tans := tans t |}.
(* bound to execution number n by an ExecStart that happened while attached to the map item *)
Definition bound (p : tagpc) (n : nat) (t : tagst) : tagst :=
  {| tpc := p; tag_started_after := true; tcall := tcall t; texec := n; tres := tres t; tans := tans t |}.
(* its item was completed by the resolve of execution number n *)
Definition resolved (p : tagpc) (n : nat) (deliver : nat) (t : tagst) : tagst :=
  {| tpc := p; tag_started_after := tag_started_after t; tcall := tcall t; texec := texec t; tres := n; tans := tans t + deliver |}.

(* how a counter-level effect moves the tagged call; f' is the counter map AFTER the step *)
Definition tag_eff (e : eff) (f' : var -> nat) (t : tagst) : tagst :=
  match e, tpc t with
  | EReplace, TC2M => with_tpc TC2S t                      (* its reference went stale *)
  | EReplace, TGWM => bound TGWX (f' started) t            (* its item is now the one being executed *)
  | EReplace, TRun => bound TRun (f' started) t            (* it is the runner and has just started the work *)
  | EComplete, TGWX => resolved TGD (f' started) 0 t       (* its item completed: result still to copy *)
  | EComplete, TRun => resolved TDone (f' started) 1 t     (* resolve sends the runner's own outcome *)
  | EDelete, TC2M => with_tpc TC2S t
  | _, _ => t
  end.

(* an anonymous step needs an anonymous goroutine at its location *)
Definition guard (t : tagpc) (f : var -> nat) (b : bpick) : bool :=
  match b, t with
  | PStale KC, TC2S => 1 <? f c2sc
  | PAttach KC _, TC2M => 1 <? f c2mc
  | PWake KC _, TGWM => 1 <? f gwmc
  | PDrain KC, TGD => 1 <? f gdc
  | _, _ => true
  end.

(* a tagged step needs the tagged call at its location; it moves the tag before the effect is applied *)
Definition tag_pre (f : var -> nat) (p : tpick) (t : tagst) : option tagst :=
  match p, tpc t with
  | TCall, TNone =>
      Some {| tpc := TC2M; tag_started_after := false; tcall := f started; texec := texec t; tres := tres t; tans := tans t |}
  | TStale, TC2S => Some (with_tpc TC2M t)
  | TAttach _, TC2M => Some (with_tpc (if f mm =? 2 then TGWM else TRun) t)
  | TWake _, TGWM => Some (with_tpc TRun t)
  | TDrain, TGD => Some (resolved TDone (tres t) 1 t)
  | _, _ => None
  end.

(* ---------------------------------------------------------------------------------------------------------- *)
(* The transition function                                                                                    *)

Definition lift (fl : flags) (s : st) (b : bpick) (t : tagst) : option st :=
  match cstep fl (rp s) (v s) b with
  | Some (e, r', f') => Some {| rp := r'; v := f'; tg := tag_eff e f' t |}
  | None => None
  end.

Definition step_gen (fl : flags) (s : st) (p : pick) : option st :=
  match p with
  | PB b => if guard (tpc (tg s)) (v s) b then lift fl s b (tg s) else None
  | PT t => match tag_pre (v s) t (tg s) with
            | Some t1 => lift fl s (base_of t) t1
            | None => None
            end
  end.

Definition step : st -> pick -> option st := step_gen good.

Definition init (a b : nat) : st :=
  {| rp := RNone; v := fun x => match x with nc => a | ns => b | _ => 0 end; tg := tag0 |}.

(* a disabled pick is a stutter *)
Fixpoint run_gen (fl : flags) (s : st) (sched : list pick) : st :=
  match sched with
  | [] => s
  | p :: rest => run_gen fl (match step_gen fl s p with Some s' => s' | None => s end) rest
  end.
Definition run : st -> list pick -> st := run_gen good.

Definition terminalb_gen (fl : flags) (s : st) : bool :=
  forallb (fun p => match step_gen fl s p with None => true | Some _ => false end) all_picks.
Definition terminalb : st -> bool := terminalb_gen good.

(* observation of a state as a plain list, for examples and the test harness *)
Definition all_vars : list var :=
  [nc; ns; c2mc; c2ms; c2sc; c2ss; mm; mcount; gwmc; gwms; gwxc; gwxs; gdc; gds; rown;
   execa; overlap; started; issuedc; issueds; answered; escaped].
Definition observe (s : st) : rpc * list nat * tagst := (rp s, map (v s) all_vars, tg s).
