(* Counter abstraction of the ChanPubSub protocol (chanpubsub.go, with the embedded ChanCaster of
   chancaster.go reduced to its (count, armed) state word and its rendezvous channel).

   State = the pc of the one Send that holds sendMu (at most one by sendMu) + a map [var -> nat] that holds
   the shared variables AND the number of subscriber goroutines at each program point.

   Sender pcs (Send, after the fast path [subscribers.Load() == 0], which is folded into PSendStart):
     SNone  no Send holds sendMu
     S2     holds sendMu, about to call sendingMu.Lock()
     S3     sendingMu.Lock() announced (writer pending: new RLock/TryRLock fail), waiting for readers to drain
     S4     holds sendingMu for writing, about to read [subscribers]
     S5     ping.Add(subscribers) done (caster count incremented, not armed)
     S6     ping.Send armed the caster (CAS lo := hi + MaxInt32) and hands out [k] copies on the channel
     S7     all copies handed out, about to reset the caster word (CAS to 0) and return hi as [sent]
     S8     about to sendingMu.Unlock()
     S9     about to publish pongN := sent (or return if sent = 0)
     S10    waiting on pongC for pongN = 0

   Shared variables: nsend (Send calls not yet started), sq (Sends queued on sendMu), k (copies still to hand
   out), sent, rcv (ghost: copies taken by subscribers in this round), w / wp / r (sendingMu: writer held, writer
   pending, number of readers), subs (the atomic subscribers), cnt / armed (the caster's hi word / "lo = hi +
   MaxInt32"), pongN; flags bad (one of the code's invariant panics would fire) and steal (a subscriber that the
   running Send did not count took a copy).

   Subscriber program points (a subscriber: Add(+1); cycles of receive; Wait; finally Add(-1)):
     u0 u1 u2        Add(+1): before RLock / holding it / subscribers incremented, before RUnlock
     b0o b0n         subscribed and idle; ghost split: owed a copy of the running round (counted by the Send
                     when it read [subscribers]) or not
     b1              took a copy, inside Wait
     n1o n1n         Add(-1): TryRLock failed, spinning on "TryRLock succeeds \/ ping.Add(0) <> 0"
     n2ko n2kn n3k   Add(-1) with the read lock: before subscribers-1 / after it, before RUnlock
     n2fo n2fn       Add(-1) without the read lock: before subscribers-1
     n4o n4n         ... before ping.Add(-1)
     n5              decremented an ARMED caster: must receive one copy itself (for range delta { <-x.C })
     fin             returned from Add(-1)

   Protocol variants (for mutation sensitivity) are selected by explicit boolean flags; [step] is the variant with
   all flags set and is the function listed in DESIGN.md Appendix B.1.

   Executable definitions only; proofs are in Proofs/PubSubAbs.v. *)
From Coq Require Import List Arith Bool.
Import ListNotations.

Inductive spc := SNone | S2 | S3 | S4 | S5 | S6 | S7 | S8 | S9 | S10.
Inductive var :=
| nsend | sq | k | sent | rcv | w | wp | r | subs | cnt | armed | pongN
| u0 | u1 | u2                 (* subscribing: before RLock / holding RLock / added, before RUnlock *)
| b0o | b0n | b1               (* subscribed idle: owed a copy this round / not owed; received and in Wait *)
| n1o | n1n                    (* unsubscribing: TryRLock failed, spinning *)
| n2ko | n2kn | n3k            (* got the read lock: before subs-1 / after it, before RUnlock *)
| n2fo | n2fn | n4o | n4n | n5 (* no read lock: before subs-1 / before caster Add(-1) / must absorb one copy *)
| fin | bad | steal.
Scheme Equality for var.

Record st := { sp : spc; v : var -> nat }.
Definition set (x : var) (n : nat) (f : var -> nat) : var -> nat := fun y => if var_beq y x then n else f y.
Notation "f [ x := n ]" := (set x n f) (at level 10, left associativity).
Definition mk p f := {| sp := p; v := f |}.

Inductive pick :=
| PSendStart | PSendLock | PS
| PU0 | PU1 | PU2 | PRecvO | PRecvN | PAbsorb | PWait
| PUnsubO | PUnsubN | PSpinO | PSpinN | PN2KO | PN2KN | PN3K | PN2FO | PN2FN | PN4O | PN4N.

Definition all_picks : list pick :=
  [PSendStart; PSendLock; PS; PU0; PU1; PU2; PRecvO; PRecvN; PAbsorb; PWait;
   PUnsubO; PUnsubN; PSpinO; PSpinN; PN2KO; PN2KN; PN3K; PN2FO; PN2FN; PN4O; PN4N].

Definition pos (n : nat) := negb (n =? 0).
Definition rlockable (f : var -> nat) := (f w =? 0) && (f wp =? 0).

(* Protocol variants.
   [fl_wlock]  = true: Send holds sendingMu for writing while it reads [subscribers] and runs the caster, so a
                 subscribe (RLock) must find the lock read-lockable.  false: the subscribe's RLock always succeeds
                 (as if Send did not take the write lock).
   [fl_route]  = true: an unsubscribe that did not get the read lock calls ping.Add(-1) and, when the caster is
                 armed, absorbs one copy.  false: when the caster is armed it returns at once instead. *)
Record flags := { fl_wlock : bool; fl_route : bool }.
Definition good_flags : flags := {| fl_wlock := true; fl_route := true |}.

Definition step_gen (fl : flags) (s : st) (p : pick) : option st :=
  let f := v s in
  match p with
  | PSendStart => if pos (f nsend) then Some (mk (sp s) (f [nsend := f nsend - 1] [sq := if f subs =? 0 then f sq else S (f sq)])) else None
  | PSendLock => match sp s with SNone => if pos (f sq) then Some (mk S2 (f [sq := f sq - 1])) else None | _ => None end
  | PS =>
      match sp s with
      | SNone => None
      | S2 => Some (mk S3 (f [wp := 1]))
      | S3 => if f r =? 0 then Some (mk S4 (f [w := 1] [wp := 0])) else None
      | S4 => if f subs =? 0 then Some (mk SNone (f [w := 0]))
              else Some (mk S5 (f [bad := if f cnt =? 0 then f bad else 1] [cnt := f cnt + f subs]
                                  [b0o := f b0o + f b0n] [b0n := 0] [n1o := f n1o + f n1n] [n1n := 0]
                                  [n2ko := f n2ko + f n2kn] [n2kn := 0] [n2fo := f n2fo + f n2fn] [n2fn := 0]))
      | S5 => if f cnt =? 0 then Some (mk S8 (f [sent := 0] [rcv := 0]))
              else Some (mk S6 (f [armed := 1] [k := f cnt] [rcv := 0]))
      | S6 => if f k =? 0 then Some (mk S7 f) else None
      | S7 => Some (mk S8 (f [sent := f cnt] [cnt := 0] [armed := 0]))
      | S8 => Some (mk S9 (f [w := 0]))
      | S9 => if f sent =? 0 then Some (mk SNone f) else Some (mk S10 (f [pongN := f sent]))
      | S10 => if f pongN =? 0 then Some (mk SNone f) else None
      end
  | PU0 => if pos (f u0) && (if fl_wlock fl then rlockable f else true)
           then Some (mk (sp s) (f [u0 := f u0 - 1] [u1 := S (f u1)] [r := S (f r)])) else None
  | PU1 => if pos (f u1) then Some (mk (sp s) (f [u1 := f u1 - 1] [u2 := S (f u2)] [subs := S (f subs)])) else None
  | PU2 => if pos (f u2) then Some (mk (sp s) (f [u2 := f u2 - 1] [r := f r - 1] [b0n := S (f b0n)])) else None
  | PRecvO => match sp s with S6 => if pos (f k) && pos (f b0o) then Some (mk S6 (f [b0o := f b0o - 1] [b1 := S (f b1)] [k := f k - 1] [rcv := S (f rcv)])) else None | _ => None end
  | PRecvN => match sp s with S6 => if pos (f k) && pos (f b0n) then Some (mk S6 (f [b0n := f b0n - 1] [b1 := S (f b1)] [k := f k - 1] [rcv := S (f rcv)] [steal := 1])) else None | _ => None end
  | PAbsorb => match sp s with S6 => if pos (f k) && pos (f n5) then Some (mk S6 (f [n5 := f n5 - 1] [fin := S (f fin)] [k := f k - 1])) else None | _ => None end
  | PWait => if pos (f b1) && pos (f pongN) then Some (mk (sp s) (f [b1 := f b1 - 1] [pongN := f pongN - 1] [b0n := S (f b0n)])) else None
  | PUnsubO => if pos (f b0o) then
                 if rlockable f then Some (mk (sp s) (f [b0o := f b0o - 1] [n2ko := S (f n2ko)] [r := S (f r)]))
                 else Some (mk (sp s) (f [b0o := f b0o - 1] [n1o := S (f n1o)])) else None
  | PUnsubN => if pos (f b0n) then
                 if rlockable f then Some (mk (sp s) (f [b0n := f b0n - 1] [n2kn := S (f n2kn)] [r := S (f r)]))
                 else Some (mk (sp s) (f [b0n := f b0n - 1] [n1n := S (f n1n)])) else None
  | PSpinO => if pos (f n1o) then
                if rlockable f then Some (mk (sp s) (f [n1o := f n1o - 1] [n2ko := S (f n2ko)] [r := S (f r)]))
                else if pos (f cnt) then Some (mk (sp s) (f [n1o := f n1o - 1] [n2fo := S (f n2fo)])) else None else None
  | PSpinN => if pos (f n1n) then
                if rlockable f then Some (mk (sp s) (f [n1n := f n1n - 1] [n2kn := S (f n2kn)] [r := S (f r)]))
                else if pos (f cnt) then Some (mk (sp s) (f [n1n := f n1n - 1] [n2fn := S (f n2fn)])) else None else None
  | PN2KO => if pos (f n2ko) then Some (mk (sp s) (f [n2ko := f n2ko - 1] [n3k := S (f n3k)] [bad := if f subs =? 0 then 1 else f bad] [subs := f subs - 1])) else None
  | PN2KN => if pos (f n2kn) then Some (mk (sp s) (f [n2kn := f n2kn - 1] [n3k := S (f n3k)] [bad := if f subs =? 0 then 1 else f bad] [subs := f subs - 1])) else None
  | PN3K => if pos (f n3k) then Some (mk (sp s) (f [n3k := f n3k - 1] [r := f r - 1] [fin := S (f fin)])) else None
  | PN2FO => if pos (f n2fo) then Some (mk (sp s) (f [n2fo := f n2fo - 1] [n4o := S (f n4o)] [bad := if f subs =? 0 then 1 else f bad] [subs := f subs - 1])) else None
  | PN2FN => if pos (f n2fn) then Some (mk (sp s) (f [n2fn := f n2fn - 1] [n4n := S (f n4n)] [bad := if f subs =? 0 then 1 else f bad] [subs := f subs - 1])) else None
  | PN4O => if pos (f n4o) then
              if f armed =? 0 then Some (mk (sp s) (f [n4o := f n4o - 1] [fin := S (f fin)] [bad := if f cnt =? 0 then 1 else f bad] [cnt := f cnt - 1]))
              else if fl_route fl
                   then Some (mk (sp s) (f [n4o := f n4o - 1] [n5 := S (f n5)] [bad := if f cnt =? 0 then 1 else f bad] [cnt := f cnt - 1]))
                   else Some (mk (sp s) (f [n4o := f n4o - 1] [fin := S (f fin)])) else None
  | PN4N => if pos (f n4n) then
              if f armed =? 0 then Some (mk (sp s) (f [n4n := f n4n - 1] [fin := S (f fin)] [bad := if f cnt =? 0 then 1 else f bad] [cnt := f cnt - 1]))
              else if fl_route fl
                   then Some (mk (sp s) (f [n4n := f n4n - 1] [n5 := S (f n5)] [bad := if f cnt =? 0 then 1 else f bad] [cnt := f cnt - 1]))
                   else Some (mk (sp s) (f [n4n := f n4n - 1] [fin := S (f fin)])) else None
  end.

Definition step : st -> pick -> option st := step_gen good_flags.

Definition init (senders subscribers : nat) : st :=
  mk SNone (fun x => match x with nsend => senders | u0 => subscribers | _ => 0 end).

(* A schedule is a list of picks; a pick that is not enabled is a stutter. *)
Fixpoint run_gen (fl : flags) (s : st) (sched : list pick) : st :=
  match sched with
  | [] => s
  | p :: rest => run_gen fl (match step_gen fl s p with Some s' => s' | None => s end) rest
  end.

Definition run : st -> list pick -> st := run_gen good_flags.

Definition terminalb_gen (fl : flags) (s : st) : bool :=
  forallb (fun p => match step_gen fl s p with Some _ => false | None => true end) all_picks.

Definition terminalb : st -> bool := terminalb_gen good_flags.

(* Unsubscribing is a subscriber's free choice (contract clause 6/7), not an obligation: a state is quiescent when
   nothing is enabled except such voluntary unsubscribes of idle subscribers.  (A terminal state, in which the
   unsubscribes are disabled too, is one without idle subscribers.) *)
Definition voluntary (p : pick) : bool := match p with PUnsubO | PUnsubN => true | _ => false end.

Definition quiescentb_gen (fl : flags) (s : st) : bool :=
  forallb (fun p => voluntary p || match step_gen fl s p with Some _ => false | None => true end) all_picks.

Definition quiescentb : st -> bool := quiescentb_gen good_flags.
