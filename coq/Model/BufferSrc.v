(* The vocabulary in which the methods of buffer.go, translated from the current source into Model/GoFrag3.v, are tied to
   the hand-written model Model/Buffer.v (C01_get_source_is_model, C01_commit_source_is_model, C03_cleanup_source_is_model,
   C03_consumer_offsets_source_is_model):

     [mkstore]   the source-level state: the four fields of Buffer that the translated methods read and write
     [abs]       the ABSTRACTION FUNCTION from a state of the model to the source-level state it stands for
     [*_spec]    what each method computes on ANY source-level state (also those that are not the image of a model state:
                 negative offsets, maps with stale entries), in closed form
     [*_expected] how a result of the model's step is seen by a caller of the method

   Executable definitions only. *)
From Coq Require Import List ZArith Bool String.
From BB.Model Require Import GoFrag GoFrag3 Cleaner Buffer.
Import ListNotations.
Local Open Scope string_scope.
Local Open Scope Z_scope.

(* ---- the source-level state ---- *)

(* ctx: is b.ctx.Err() non-nil; consumers: b.consumers (never nil once ensure() has run, which every exported method does
   first); offset: b.offset; buffer: b.buffer *)
Definition mkstore (closed : bool) (consumers : list (nat * Z)) (offset : Z) (buffer : list elem) : store :=
  {| s_flags := [("ctx", closed)];
     s_ints := [("offset", offset)];
     s_slices := [("buffer", buffer)];
     s_maps := [("consumers", Some consumers)] |}.

(* the registered consumers, by id, with their committed offsets: the contents of Buffer.consumers *)
Fixpoint cmap_from (i : nat) (l : list cons) : list (nat * Z) :=
  match l with
  | [] => []
  | c :: l' => if creg c then (i, Z.of_nat (ccommit c)) :: cmap_from (S i) l' else cmap_from (S i) l'
  end.

Definition cmap (s : st) : list (nat * Z) := cmap_from 0 (cs s).

(* the abstraction function: Buffer.ctx is cancelled iff bclosed; Buffer.consumers holds the registered consumers'
   committed offsets; Buffer.offset = base; Buffer.buffer = the log from base on (values are never nil in the model).
   The ghost fields (log below base, cstart/chigh/chist, dirty) and the consumer-side fields (cdelta = consumer.offset,
   ccancel, conce, cdone) are not part of the Buffer's fields: cdelta reaches get/commit as their ARGUMENT. *)
Definition abs (s : st) : store :=
  mkstore (bclosed s) (cmap s) (Z.of_nat (base s)) (map Some (skipn (base s) (log s))).

(* ---- the errors, by the expression that constructs them ---- *)
Definition err_ctx : err := ErrCtx.                 (* the value of b.ctx.Err() *)
Definition err_get_unknown : err := ErrFmt 0.       (* get: first error constructor, "unknown consumer" *)
Definition err_get_past : err := ErrFmt 1.          (* get: second error constructor, "offset .. is .. past" *)
Definition err_commit_unknown : err := ErrFmt 0.    (* commit: its only error constructor, "unknown consumer" *)

Definition log_lock : string := "mutex.Lock".
Definition log_unlock : string := "mutex.Unlock".
Definition log_broadcast : string := "cond.Broadcast".

(* ---- get(c, delta) ---- *)

Definition get_spec (closed : bool) (m : list (nat * Z)) (off : Z) (buf : list elem) (c : nat) (delta : Z) : list val3 :=
  if closed then [WElem None; W (VBool false); WErr err_ctx]
  else match mget c m with
       | None => [WElem None; W (VBool false); WErr err_get_unknown]
       | Some co =>
           let rel := delta + co - off in
           if rel <? 0 then [WElem None; W (VBool false); WErr err_get_past]
           else match nth_error buf (Z.to_nat rel) with
                | Some v => [WElem v; W (VBool true); WErr ErrNil]
                | None => [WElem None; W (VBool false); WErr ErrNil]
                end
       end.

(* which error the model's RErr of a Get stands for, for a consumer whose own context is live *)
Definition get_err (s : st) (c : nat) : err :=
  if bclosed s then err_ctx
  else match getc s c with
       | Some k => if creg k then err_get_past else err_get_unknown
       | None => err_get_unknown
       end.

(* Buffer.get's three results (value, ok, error) for the model's [get_attempt] *)
Definition get_expected (s : st) (c : nat) : list val3 :=
  match fst (get_attempt s c) with
  | RVal v => [WElem (Some v); W (VBool true); WErr ErrNil]
  | REmpty => [WElem None; W (VBool false); WErr ErrNil]
  | _ => [WElem None; W (VBool false); WErr (get_err s c)]
  end.

(* ---- commit(c, delta) ---- *)

Definition commit_spec (closed : bool) (m : list (nat * Z)) (off : Z) (buf : list elem) (c : nat) (delta : Z)
  : observed3 :=
  match mget c m with
  | None => Returned3 (mkstore closed m off buf) [WErr err_commit_unknown] [log_lock; log_unlock]
  | Some co => Returned3 (mkstore closed (mset c (delta + co) m) off buf) [WErr ErrNil] [log_lock; log_broadcast; log_unlock]
  end.

Definition commit_expected (r : out) : list val3 :=
  match r with ROk => [WErr ErrNil] | _ => [WErr err_commit_unknown] end.

(* the effects: the write lock is taken and released (deferred) around everything; a successful commit broadcasts *)
Definition commit_log (r : out) : list string :=
  match r with ROk => [log_lock; log_broadcast; log_unlock] | _ => [log_lock; log_unlock] end.

(* ---- consumerOffsets() and cleanupLogic() ---- *)

(* the relative offsets in the order in which the map is iterated *)
Definition offsets_spec (order : list (nat * Z)) (off : Z) : list Z := map (fun kv => snd kv - off) order.

(* the cleaner as the oracle the translated cleanupLogic calls: b.cleaner.Cleaner(size, offsets) *)
Definition cleaner_oenv (f : Z -> list Z -> Z) : oenv :=
  [("cleaner.Cleaner", fun vs => match vs with
                                 | [W (VInt size); W (VList offsets)] => Some (W (VInt (f size offsets)))
                                 | _ => None
                                 end)].

Definition cleanup_spec (f : Z -> list Z -> Z) (order : list (nat * Z)) (closed : bool) (m : list (nat * Z)) (off : Z)
  (buf : list elem) : observed3 :=
  let len := Z.of_nat (List.length buf) in
  let shift := clamp_shift len (f len (offsets_spec order off)) in
  if shift <=? 0 then Returned3 (mkstore closed m off buf) [W (VBool false)] []
  else Returned3 (mkstore closed m (off + shift) (skipn (Z.to_nat shift) buf)) [W (VBool true)] [log_broadcast].

(* did the model's cleaner run move the base? (cleanupLogic's result) *)
Definition cleanup_moved (f : Z -> list Z -> Z) (s : st) : bool := negb (Nat.eqb (base (clean_with f s)) (base s)).

Definition cleanup_log (moved : bool) : list string := if moved then [log_broadcast] else [].
