(* Nested-call variant of Model/Workers.v (C14): a work function may itself call w.Call on the SAME Workers.

   Model/Workers.v (and every theorem of Properties/C14.v proved on it) assumes that the functions handed to Call are
   opaque to the pool: they terminate and do not call back into it (a function is the two worker steps start / end).
   Here the body of a function is a script: `Leaf` returns at once; `Nest k b` calls `w.Call(k, b')` (b' a function with
   body b) from INSIDE the function, waits for its result and then returns.  The pool protocol is the one of
   workers.go, step for step as in Model/Workers.v (`Faithful`): Call = lock; enqueue; target = k; top up to k workers;
   unlock; block on the reply channel.  Worker = lock; if queue empty or count > target then count--, exit; else
   dequeue; run the function; reply.

   Executable definitions only; proofs are in Proofs/WorkersNested.v. *)
From Coq Require Import List Arith Bool.
Import ListNotations.

Inductive body := Leaf | Nest (k : nat) (inner : body).

Inductive nwk :=
| NIdle                (* at the loop head *)
| NGot (i : nat)       (* dequeued item i, function not started *)
| NRun (i : nat)       (* executing the function of item i (before its nested Call, if any) *)
| NNest (i j : nat)    (* the function of item i is blocked inside its nested w.Call, waiting for the reply of item j *)
| NDead.

Inductive ncstat := NQueued | NRunning | NReplied | NReturned.
Record ncall := { nbody : body; nstat : ncstat; nstarts : nat }.

(* a top-level caller makes one Call(k, function with body b) *)
Inductive npc := NReady (k : nat) (b : body) | NBlocked (i : nat) | NDone.

Record nst := {
  ncount : nat; ntarget : nat; nqueue : list nat; nws : list nwk; ncalls : list ncall; ncallers : list npc;
  nmaxreq : nat   (* ghost: largest count requested so far *)
}.

Definition ninit (progs : list (nat * body)) : nst :=
  {| ncount := 0; ntarget := 0; nqueue := []; nws := []; ncalls := [];
     ncallers := map (fun p => NReady (fst p) (snd p)) progs; nmaxreq := 0 |}.

Fixpoint nupd {A} (l : list A) (n : nat) (y : A) : list A :=
  match l, n with
  | [], _ => []
  | _ :: r, 0 => y :: r
  | x :: r, S m => x :: nupd r m y
  end.

Definition set_stat (c : ncall) (x : ncstat) : ncall := {| nbody := nbody c; nstat := x; nstarts := nstarts c |}.
Definition start_call (c : ncall) : ncall := {| nbody := nbody c; nstat := NRunning; nstarts := S (nstarts c) |}.
Definition nupdf (l : list ncall) (n : nat) (f : ncall -> ncall) : list ncall :=
  match nth_error l n with Some c => nupd l n (f c) | None => l end.

(* workers.go:33-55, executed by a top-level caller or by a work function: returns the new state and the item id *)
Definition enqueue (s : nst) (k : nat) (b : body) : nst * nat :=
  let i := length (ncalls s) in
  let n := k - ncount s in
  ({| ncount := ncount s + n; ntarget := k; nqueue := nqueue s ++ [i]; nws := nws s ++ repeat NIdle n;
      ncalls := ncalls s ++ [{| nbody := b; nstat := NQueued; nstarts := 0 |}]; ncallers := ncallers s;
      nmaxreq := Nat.max (nmaxreq s) k |}, i).

Definition with_ws (s : nst) (w : list nwk) : nst :=
  {| ncount := ncount s; ntarget := ntarget s; nqueue := nqueue s; nws := w; ncalls := ncalls s;
     ncallers := ncallers s; nmaxreq := nmaxreq s |}.
Definition with_calls (s : nst) (c : list ncall) : nst :=
  {| ncount := ncount s; ntarget := ntarget s; nqueue := nqueue s; nws := nws s; ncalls := c;
     ncallers := ncallers s; nmaxreq := nmaxreq s |}.
Definition with_callers (s : nst) (c : list npc) : nst :=
  {| ncount := ncount s; ntarget := ntarget s; nqueue := nqueue s; nws := nws s; ncalls := ncalls s;
     ncallers := c; nmaxreq := nmaxreq s |}.

Definition replied (s : nst) (i : nat) : bool :=
  match nth_error (ncalls s) i with Some c => match nstat c with NReplied => true | _ => false end | None => false end.

Definition nwstep (s : nst) (w : nat) : option nst :=
  match nth_error (nws s) w with
  | Some NIdle =>
      match nqueue s with
      | [] => Some {| ncount := ncount s - 1; ntarget := ntarget s; nqueue := []; nws := nupd (nws s) w NDead;
                      ncalls := ncalls s; ncallers := ncallers s; nmaxreq := nmaxreq s |}
      | i :: rest =>
          if ntarget s <? ncount s
          then Some {| ncount := ncount s - 1; ntarget := ntarget s; nqueue := nqueue s; nws := nupd (nws s) w NDead;
                       ncalls := ncalls s; ncallers := ncallers s; nmaxreq := nmaxreq s |}
          else Some {| ncount := ncount s; ntarget := ntarget s; nqueue := rest; nws := nupd (nws s) w (NGot i);
                       ncalls := ncalls s; ncallers := ncallers s; nmaxreq := nmaxreq s |}
      end
  | Some (NGot i) => Some (with_calls (with_ws s (nupd (nws s) w (NRun i))) (nupdf (ncalls s) i start_call))
  | Some (NRun i) =>
      match nth_error (ncalls s) i with
      | None => None
      | Some c =>
          match nbody c with
          | Leaf => Some (with_calls (with_ws s (nupd (nws s) w NIdle)) (nupdf (ncalls s) i (fun c => set_stat c NReplied)))
          | Nest 0 _ => None   (* w.Call(0, ...) panics; not modelled *)
          | Nest k b =>        (* the function calls w.Call(k, b') and blocks on its reply channel *)
              let '(s1, j) := enqueue s k b in
              Some (with_ws s1 (nupd (nws s1) w (NNest i j)))
          end
      end
  | Some (NNest i j) =>
      if replied s j   (* the nested Call returns; the function of item i then returns and its result is sent *)
      then Some (with_calls (with_ws s (nupd (nws s) w NIdle))
                            (nupdf (nupdf (ncalls s) j (fun c => set_stat c NReturned)) i (fun c => set_stat c NReplied)))
      else None
  | _ => None
  end.

Definition ncstep (s : nst) (t : nat) : option nst :=
  match nth_error (ncallers s) t with
  | Some (NReady 0 _) => None
  | Some (NReady k b) => let '(s1, i) := enqueue s k b in Some (with_callers s1 (nupd (ncallers s1) t (NBlocked i)))
  | Some (NBlocked i) =>
      if replied s i
      then Some (with_callers (with_calls s (nupdf (ncalls s) i (fun c => set_stat c NReturned))) (nupd (ncallers s) t NDone))
      else None
  | _ => None
  end.

Inductive npick := NPC (t : nat) | NPW (w : nat).

Definition nstep (s : nst) (x : npick) : option nst := match x with NPC t => ncstep s t | NPW w => nwstep s w end.

Fixpoint nrun (s : nst) (sched : list npick) : nst :=
  match sched with
  | [] => s
  | x :: rest => match nstep s x with Some s' => nrun s' rest | None => nrun s rest end
  end.

Definition npicks (s : nst) : list npick :=
  map NPC (seq 0 (length (ncallers s))) ++ map NPW (seq 0 (length (nws s))).
Definition nenabled (s : nst) (x : npick) : bool := match nstep s x with Some _ => true | None => false end.
Definition nterminalb (s : nst) : bool := forallb (fun x => negb (nenabled s x)) (npicks s).

(* number of functions in execution (a function blocked in its nested Call is still executing) *)
Definition nexecuting (w : nwk) : bool := match w with NRun _ | NNest _ _ => true | _ => false end.
Definition nlive (w : nwk) : bool := match w with NDead => false | _ => true end.
Fixpoint ncountp {A} (P : A -> bool) (l : list A) : nat :=
  match l with [] => 0 | x :: r => (if P x then 1 else 0) + ncountp P r end.

Fixpoint nrun_fuel (fuel : nat) (s : nst) : nst :=
  match fuel with
  | 0 => s
  | S f => match find (nenabled s) (npicks s) with
           | Some x => match nstep s x with Some s' => nrun_fuel f s' | None => s end
           | None => s
           end
  end.
