(* Additions to the model of bigbuff.Channel (channel.go).  Model/Channel.v is extracted and is left untouched; this
   file only ADDS executable definitions:

   1. `done_closed`: Channel.Done() is closed.  close(c.done) runs inside c.close.Do, under the mutex, so it is the
      same event as "the sync.Once has fired".

   2. The SPLIT cancellation machine.  Model/Channel.v's `OCancel` sets `closed` and `once` in one step (the quiescent
      view: the parent context is cancelled AND the watcher goroutine `cleanup` has already run Close).  In the code
      these are two events: cancelling the parent makes c.ctx.Err() non-nil at once (children are cancelled inside the
      parent's cancel call), and the watcher goroutine (channel.go:251-254, `defer c.Close(); <-c.ctx.Done()`) calls
      Close some time later.  `xstep` has the two events as separate operations; every operation of `op` keeps the
      behaviour of `step`.

   3. A thread-level wrapper, generic in the sequential object: any number of threads, each call being
      invoke / atomic steps under the mutex / response.  A polling call (Get) is a sequence of attempts, each one
      atomic step; it keeps polling while the attempt's result says "nothing found" unless the scheduler marks the
      attempt as the last one (the caller's context is found cancelled before the next attempt).  The wrapper records
      the history of invocations and responses and, as a ghost, the order in which the atomic steps took effect.

   Executable definitions only; proofs are in Proofs/ChannelMore.v. *)
From Coq Require Import List ZArith Bool Arith.
From BB.Model Require Import Channel.
Import ListNotations.

(* ------------------------------------------------------------------------------------------------------------- *)
(* 1. Done                                                                                                        *)
(* ------------------------------------------------------------------------------------------------------------- *)
Definition done_closed (s : st) : bool := once s.

(* ------------------------------------------------------------------------------------------------------------- *)
(* 2. The split cancellation machine                                                                              *)
(* ------------------------------------------------------------------------------------------------------------- *)

(* c.ctx.Err() becomes non-nil; nothing else changes (in particular the sync.Once has not fired, Done is open). *)
Definition set_closed (s : st) : st :=
  {| src := src s; src_closed := src_closed s; buf := buf s; rb := rb s; closed := true; once := once s;
     committed := committed s; taken := taken s; sent := sent s |}.

Inductive xop :=
| XOp (o : op)       (* an operation of Model/Channel.v, with exactly its behaviour there *)
| XCtxCancel         (* the parent context is cancelled: c.ctx.Err() != nil from now on *)
| XWatcherClose.     (* the watcher goroutine, released by c.ctx.Done(), makes its (deferred) Close call *)

Record xst := {
  base  : st;
  wdone : bool       (* the watcher goroutine has made its Close call (it exits right after) *)
}.

Definition xinit : xst := {| base := init; wdone := false |}.

(* The watcher is parked on <-c.ctx.Done(): it can move only once the context is cancelled (by the parent OR by an
   explicit Close, which calls c.cancel), and it moves once. *)
Definition watcher_enabled (x : xst) : bool := closed (base x) && negb (wdone x).

(* the window opened by XCtxCancel: context already cancelled, sync.Once not yet fired, Done still open *)
Definition in_window (s : st) : bool := closed s && negb (once s).

Definition xstep (x : xst) (xo : xop) : xst * out :=
  match xo with
  | XOp o => ({| base := fst (step (base x) o); wdone := wdone x |}, snd (step (base x) o))
  | XCtxCancel => ({| base := set_closed (base x); wdone := wdone x |}, ROk)
  | XWatcherClose =>
      if watcher_enabled x
      then ({| base := fst (step (base x) OClose); wdone := true |}, ROk)   (* Close's result is discarded by `defer` *)
      else (x, REmpty)                                                     (* not enabled: nothing happens *)
  end.

Fixpoint xrun (x : xst) (xops : list xop) : xst * list out :=
  match xops with
  | [] => (x, [])
  | o :: rest => let '(x1, r) := xstep x o in let '(x2, rs) := xrun x1 rest in (x2, r :: rs)
  end.

(* The atomic-model reading of a split schedule: the context cancellation is read as OCancel, the watcher's Close is
   invisible. *)
Definition collapse1 (xo : xop) : list op :=
  match xo with
  | XOp o => [o]
  | XCtxCancel => [OCancel]
  | XWatcherClose => []
  end.

Definition collapse (xops : list xop) : list op := flat_map collapse1 xops.

(* the results of the operations that the atomic reading keeps (the watcher's step has no observable result) *)
Fixpoint visible (xops : list xop) (rs : list out) : list out :=
  match xops, rs with
  | XWatcherClose :: xops', _ :: rs' => visible xops' rs'
  | _ :: xops', r :: rs' => r :: visible xops' rs'
  | _, _ => []
  end.

(* which results ask the caller to poll again (the call has not returned) *)
Definition chan_retry (o : op) (r : out) : bool :=
  match o, r with
  | OGet, REmpty => true
  | _, _ => false
  end.

Definition xchan_retry (xo : xop) (r : out) : bool :=
  match xo, r with
  | XOp OGet, REmpty => true
  | XWatcherClose, REmpty => true      (* the watcher stays parked until the context is cancelled *)
  | _, _ => false
  end.

(* ------------------------------------------------------------------------------------------------------------- *)
(* 3. Threads over a sequential object                                                                            *)
(* ------------------------------------------------------------------------------------------------------------- *)
Section Threads.
Variables (St Op Res : Type).
Variable sstep : St -> Op -> St * Res.       (* the sequential object: one atomic critical section *)
Variable retry : Op -> Res -> bool.        (* this result means "attempt failed, poll again" *)

Fixpoint grun (s : St) (ops : list Op) : St * list Res :=
  match ops with
  | [] => (s, [])
  | o :: rest => let '(s1, r) := sstep s o in let '(s2, rs) := grun s1 rest in (s2, r :: rs)
  end.

(* a call is named by its thread and its sequence number within the thread *)
Definition opid := (nat * nat)%type.

Inductive hev :=
| HInv (i : opid) (o : Op)               (* call i is invoked with operation o *)
| HRet (i : opid) (o : Op) (r : Res).      (* call i returns r *)

Inductive tstate :=
| TIdle                                 (* between calls *)
| TPending (o : Op)                      (* invoked; has not taken effect *)
| TDone (o : Op) (r : Res).                (* has taken effect with result r; has not returned yet *)

Record tst := {
  sh   : St;                             (* the shared object (everything guarded by the mutex) *)
  thr  : nat -> tstate;
  seqn : nat -> nat;                    (* how many calls the thread has completed *)
  hist : list hev;                      (* the history: invocations and responses in real-time order *)
  lin  : list (opid * Op * Res)           (* ghost: the calls in the order of their effective atomic steps *)
}.

Definition tinit (s0 : St) : tst :=
  {| sh := s0; thr := fun _ => TIdle; seqn := fun _ => 0; hist := []; lin := [] |}.

Definition upd {A : Type} (f : nat -> A) (t : nat) (v : A) : nat -> A :=
  fun t' => if Nat.eqb t' t then v else f t'.

Inductive ev :=
| EInv (t : nat) (o : Op)                (* thread t invokes o *)
| EStep (t : nat) (final : bool)        (* thread t runs one critical section; final: it will not poll again *)
| ERet (t : nat).                       (* thread t returns *)

(* A pick that is not enabled is a stutter, so `forall es : list ev` is every interleaving of every program. *)
Definition tstep (x : tst) (e : ev) : tst :=
  match e with
  | EInv t o =>
      match thr x t with
      | TIdle => {| sh := sh x; thr := upd (thr x) t (TPending o); seqn := seqn x;
                    hist := hist x ++ [HInv (t, seqn x t) o]; lin := lin x |}
      | _ => x
      end
  | EStep t final =>
      match thr x t with
      | TPending o =>
          let s' := fst (sstep (sh x) o) in
          let r := snd (sstep (sh x) o) in
          if retry o r && negb final
          then {| sh := s'; thr := thr x; seqn := seqn x; hist := hist x; lin := lin x |}
          else {| sh := s'; thr := upd (thr x) t (TDone o r); seqn := seqn x; hist := hist x;
                  lin := lin x ++ [((t, seqn x t), o, r)] |}
      | _ => x
      end
  | ERet t =>
      match thr x t with
      | TDone o r => {| sh := sh x; thr := upd (thr x) t TIdle; seqn := upd (seqn x) t (S (seqn x t));
                        hist := hist x ++ [HRet (t, seqn x t) o r]; lin := lin x |}
      | _ => x
      end
  end.

Definition trun (x : tst) (es : list ev) : tst := fold_left tstep es x.

Definition lin_id (e : opid * Op * Res) : opid := fst (fst e).
Definition lin_op (e : opid * Op * Res) : Op := snd (fst e).
Definition lin_res (e : opid * Op * Res) : Res := snd e.
End Threads.

Arguments HInv {Op Res} i o.
Arguments HRet {Op Res} i o r.
Arguments TIdle {Op Res}.
Arguments TPending {Op Res} o.
Arguments TDone {Op Res} o r.
Arguments EInv {Op} t o.
Arguments EStep {Op} t final.
Arguments ERet {Op} t.
Arguments sh {St Op Res} t.
Arguments thr {St Op Res} t _.
Arguments seqn {St Op Res} t _.
Arguments hist {St Op Res} t.
Arguments lin {St Op Res} t.
Arguments tinit {St Op Res} s0.
Arguments grun {St Op Res} sstep s ops.
Arguments tstep {St Op Res} sstep retry x e.
Arguments trun {St Op Res} sstep retry x es.
Arguments lin_id {Op Res} e.
Arguments lin_op {Op Res} e.
Arguments lin_res {Op Res} e.
