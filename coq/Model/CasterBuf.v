(* The ChanCaster protocol of Model/CasterAbs.v with a channel of capacity [cbuf] (make(chan V, cbuf)); cbuf = 0 is
   the unbuffered channel of Model/CasterAbs.v.  Counter level only (no individually tracked receiver); the shared
   variables, the sender's program counter and every step that does not touch the channel are those of
   CasterAbs.cstep, literally (this file calls it).

   What a buffer adds.  `x.C <- value` no longer needs a receiver: while fewer than cbuf values are buffered the
   Send puts its copy into the buffer (QPush) and goes on; so it can hand out all copies, validate, CAS the word to
   0 and return while copies are still buffered.  A value is taken from the buffer (oldest first) by whoever
   receives next: the buffered values are therefore kept as two counters, [qo] = values of Sends that have
   finished ("stale"), in front of [qc] = values of the running Send.  Idle registered receivers come in three
   kinds: b0n (not counted by any Send yet), b0o (counted by the running Send), and the new [b0s] = counted by a
   Send that has FINISHED (its final CAS reset the count) while the receiver had not yet taken a value: its
   registration is used up, its copy is (supposed to be) in the buffer.  The final CAS moves b0o to b0s and qc to
   qo.  [pre] counts receivers that took a (stale) value before any Send counted them: they are done, but their
   registration is still in the count, and the next arming counts them as already delivered.

   The three direct hand-offs of CasterAbs (PRecvO, PRecvN, PAbsorb: rendezvous of a blocked `x.C <- value` with a
   receive) remain, possible only while the buffer is empty (with values buffered no receive ever waits).

   [dg] says whether idle receivers may give up (call Add(-1) instead of receiving), as the documentation of Add
   tells them to do when their `select` takes another case.

   Ghost flags: [stolen] (CasterAbs) = a receiver no Send has counted took a value; [misd] = a value went to a
   taker of another Send than the one that sent it (a counted receiver or absorbing Add took a stale value, or a
   stale-owed receiver took a value of the running Send).

   Executable definitions only; proofs are in Proofs/CasterBuf.v. *)
From Coq Require Import List Arith Bool.
From BB.Model Require Import CasterAbs.
Import ListNotations.

Record ext := { qo : nat; qc : nat; b0s : nat; pre : nat; misd : nat }.
Definition ext0 : ext := {| qo := 0; qc := 0; b0s := 0; pre := 0; misd := 0 |}.

Inductive qpick :=
| QBase (b : bpick)  (* a step of the unbuffered protocol; its channel steps are direct hand-offs (buffer empty) *)
| QPush              (* the Send puts one copy into the buffer *)
| QPopO              (* an idle receiver counted by the running Send takes the oldest buffered value *)
| QPopN              (* an idle receiver no Send has counted takes the oldest buffered value *)
| QPopS              (* an idle receiver counted by a finished Send takes the oldest buffered value *)
| QPopA              (* an Add(-1) that saw the armed word takes the oldest buffered value *)
| QRecvS             (* direct hand-off of a copy of the running Send to a receiver counted by a finished Send *)
| QDeregS.           (* an idle receiver counted by a finished Send gives up: Add(-1) *)

Definition all_qpicks : list qpick :=
  map QBase all_bpicks ++ [QPush; QPopO; QPopN; QPopS; QPopA; QRecvS; QDeregS].

Definition bres := (spc * (var -> nat) * ext)%type.

Definition qlen (x : ext) : nat := qo x + qc x.

(* take the oldest buffered value; [cur] says whether the taker belongs to the running Send *)
Definition pop (cur : bool) (x : ext) : ext :=
  if pos (qo x)
  then {| qo := qo x - 1; qc := qc x; b0s := b0s x; pre := pre x; misd := if cur then 1 else misd x |}
  else {| qo := qo x; qc := qc x - 1; b0s := b0s x; pre := pre x; misd := if cur then misd x else 1 |}.

Definition with_b0s (n : nat) (x : ext) : ext :=
  {| qo := qo x; qc := qc x; b0s := n; pre := pre x; misd := misd x |}.
Definition with_pre (n : nat) (x : ext) : ext :=
  {| qo := qo x; qc := qc x; b0s := b0s x; pre := n; misd := misd x |}.
Definition with_misd (n : nat) (x : ext) : ext :=
  {| qo := qo x; qc := qc x; b0s := b0s x; pre := pre x; misd := n |}.

Definition via_cstep (fl : flags) (c : spc) (f : var -> nat) (x : ext) (b : bpick) : option bres :=
  match cstep fl c f b with
  | Some (_, c', f') => Some (c', f', x)
  | None => None
  end.

Definition bstep (cbuf : nat) (fl : flags) (dg : bool) (c : spc) (f : var -> nat) (x : ext) (p : qpick)
  : option bres :=
  match p with
  | QBase PS =>
      match c with
      | S4 =>
          (* arming: as CasterAbs, except that the receivers that were served before being counted are counted
             as delivered *)
          if (f cnt =? 0) && (f armed =? 0) then via_cstep fl c f x PS
          else if f armed =? 0
          then Some (S6, f [armed := 1] [k := f cnt] [reg0 := f cnt] [dlv := pre x] [absd := 0]
                           [b0o := f b0o + f b0n] [b0n := 0], with_pre 0 x)
          else via_cstep fl c f x PS
      | S7c =>
          (* the final CAS: as CasterAbs; on success the receivers still waiting and the copies still buffered
             become stale *)
          if (f cnt =? f ret) && (f armed =? 1)
          then Some (S8, f [cnt := 0] [armed := 0] [b0o := 0],
                     {| qo := qo x + qc x; qc := 0; b0s := b0s x + f b0o; pre := pre x; misd := misd x |})
          else via_cstep fl c f x PS
      | _ => via_cstep fl c f x PS
      end
  | QBase PRecvO => if qlen x =? 0 then via_cstep fl c f x PRecvO else None
  | QBase PRecvN => if qlen x =? 0 then via_cstep fl c f x PRecvN else None
  | QBase PAbsorb => if qlen x =? 0 then via_cstep fl c f x PAbsorb else None
  | QBase PDeregO => if dg then via_cstep fl c f x PDeregO else None
  | QBase PDeregN => if dg then via_cstep fl c f x PDeregN else None
  | QBase b => via_cstep fl c f x b
  | QPush =>
      match c with
      | S6 => if pos (f k) && (qlen x <? cbuf)
              then Some (S6, f [k := f k - 1],
                         {| qo := qo x; qc := S (qc x); b0s := b0s x; pre := pre x; misd := misd x |})
              else None
      | _ => None
      end
  | QPopO =>
      if pos (qlen x) && pos (f b0o)
      then Some (c, f [b0o := f b0o - 1] [got := S (f got)] [dlv := S (f dlv)], pop true x)
      else None
  | QPopN =>
      if pos (qlen x) && pos (f b0n)
      then Some (c, f [b0n := f b0n - 1] [got := S (f got)] [stolen := 1], with_pre (S (pre x)) (pop false x))
      else None
  | QPopS =>
      if pos (qlen x) && pos (b0s x)
      then Some (c, f [got := S (f got)], with_b0s (b0s x - 1) (pop false x))
      else None
  | QPopA =>
      if pos (qlen x) && pos (f n5)
      then Some (c, f [n5 := f n5 - 1] [fin := S (f fin)] [absd := S (f absd)], pop true x)
      else None
  | QRecvS =>
      match c with
      | S6 => if pos (f k) && (qlen x =? 0) && pos (b0s x)
              then Some (S6, f [got := S (f got)] [k := f k - 1], with_misd 1 (with_b0s (b0s x - 1) x))
              else None
      | _ => None
      end
  | QDeregS =>
      (* Add(-1) by a receiver whose registration a finished Send has already reset: atomic subtract, validate
         (a count that was 0 is the `maxReceivers-receivers >= delta` panic), switch on lo *)
      if dg && pos (b0s x) then
        let g := f [bad := if f cnt =? 0 then 1 else f bad] [cnt := f cnt - 1] in
        if f armed =? 0 then Some (c, g [fin := S (f fin)], with_b0s (b0s x - 1) x)
        else if fl_absorb fl then Some (c, g [n5 := S (f n5)], with_b0s (b0s x - 1) x)
        else Some (c, g [fin := S (f fin)], with_b0s (b0s x - 1) x)
      else None
  end.

Record bst := { bsp : spc; bv : var -> nat; bx : ext }.

Definition binit (senders receivers : nat) : bst :=
  {| bsp := SNone; bv := fun y => match y with nsend => senders | a0 => receivers | _ => 0 end; bx := ext0 |}.

Definition bstep_st (cbuf : nat) (fl : flags) (dg : bool) (s : bst) (p : qpick) : option bst :=
  match bstep cbuf fl dg (bsp s) (bv s) (bx s) p with
  | Some (c', f', x') => Some {| bsp := c'; bv := f'; bx := x' |}
  | None => None
  end.

(* A schedule is a list of picks; a pick that is not enabled is a stutter. *)
Fixpoint brun (cbuf : nat) (fl : flags) (dg : bool) (s : bst) (sched : list qpick) : bst :=
  match sched with
  | [] => s
  | p :: rest => brun cbuf fl dg (match bstep_st cbuf fl dg s p with Some s' => s' | None => s end) rest
  end.

(* giving up is an idle receiver's free choice: quiescent = nothing enabled except such voluntary steps *)
Definition bvoluntary (p : qpick) : bool :=
  match p with QBase PDeregO | QBase PDeregN | QDeregS => true | _ => false end.
Definition bquiescentb (cbuf : nat) (fl : flags) (dg : bool) (s : bst) : bool :=
  forallb (fun p => bvoluntary p || match bstep_st cbuf fl dg s p with Some _ => false | None => true end)
          all_qpicks.
