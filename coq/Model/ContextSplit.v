(* The SPLIT model of the std `context` package: cancellation is NOT atomic.

   Model/Context.v's `w_cancel` marks a node and all its descendants and fires every AfterFunc registration on them in ONE
   step.  The real package (go1.23 src/context/context.go) does less per step:
     cancelCtx.cancel:      c.err = err; close(done); for child := range c.children { child.cancel(...) }
     afterFuncCtx.cancel:   a.once.Do(func() { go a.f() })
     stop():                a.once.Do(func() { stopped = true }); ...; return stopped
     propagateCancel:       for a parent that is not a std cancelCtx: a goroutine `<-parent.Done(); child.cancel(...)`
   so (1) a parent can be observed cancelled (its Done channel is closed) while a child is still live, (2) stop() can win
   the once — return true — on a registration whose context is already cancelled, (3) a callback runs in a new goroutine
   at an arbitrary later time, (4) for non-std parents the child is cancelled by another goroutine, arbitrarily later.

   Here every one of these is its own step, over the SAME worlds, registrations, callbacks and program counters as
   Model/Context.v (the library's own code is literally `chain_step .. LMain`, `combine_main`, `confl_main`, except that a
   CancelFunc call marks one node):
     SCancel n   the owner of input context n calls its CancelFunc: node n alone becomes cancelled (n < nenv)
     SPropg c     propagation: node c, whose PARENT is cancelled, becomes cancelled (the `for child` loop of the parent's
                 cancel, or the propagation goroutine of a non-std parent: both are "some later step")
     SFire r     registration r, Pending on a cancelled node, wins its once: `go f()` (Pending -> Run f)
     SHook r     one step of the goroutine of fired registration r; its stop_k() moves k Pending -> Stopped and
                 returns true WHATEVER the state of k's node (arbitration by the once stays atomic); its CancelFunc call
                 marks one node
     SMain / SWaiter / SUser   as in Model/Context.v; the CancelFunc calls mark the result node only.
   Creation (unchanged from Model/Context.v, as in propagateCancel): a child created under a cancelled parent is born
   cancelled, AfterFunc on a cancelled context fires at once.
   A state is settled when no SHook, SFire, SPropg step is enabled.  Executable definitions only. *)
From Coq Require Import List Arith Bool.
From BB.Model Require Import Context.
Import ListNotations.

Definition mark1 (x : node) : node := {| anc := anc x; canc := true; vals := vals x |}.

(* node n alone becomes cancelled; registrations are untouched *)
Definition s_mark (w : world) (n : nat) : world :=
  {| nodes := updf (nodes w) n mark1; regs := regs w; calls := calls w; wg := wg w; wgneg := wgneg w |}.

(* the parent of c: the second entry of its ancestor list (itself first) *)
Definition par_of (ns : list node) (c : nat) : option nat :=
  match anc_of ns c with _ :: p :: _ => Some p | _ => None end.

Definition prop_enabled (ns : list node) (c : nat) : bool :=
  negb (is_canc ns c) && match par_of ns c with Some p => is_canc ns p | None => false end.

Definition s_prop (w : world) (c : nat) : option world :=
  if prop_enabled (nodes w) c then Some (s_mark w c) else None.

Definition fire_enabled (ns : list node) (x : reg) : bool :=
  match rst x with Pending => is_canc ns (rnode x) | _ => false end.

Definition s_fire (w : world) (r : nat) : option world :=
  match nth_error (regs w) r with
  | Some x => if fire_enabled (nodes w) x then Some (w_setrst w r (Run (rfn x))) else None
  | None => None
  end.

Definition s_act (w : world) (a : act) : world :=
  match a with
  | ACancel n => s_mark w n
  | _ => w_act w a
  end.

(* one step of the goroutine of fired registration r (w_hook with a non-atomic CancelFunc) *)
Definition s_hook (w : world) (r : nat) : option world :=
  match nth_error (regs w) r with
  | Some x =>
      match rst x with
      | Run (FAct a) => Some (w_setrst (s_act w a) r Done)
      | Run (FChain c r0 a) =>
          let '(w1, ok) := w_stop w r0 in
          Some (w_setrst w1 r (if ok || negb c then Run (FAct a) else Done))
      | Run (FStopAll []) => Some (w_setrst w r Done)
      | Run (FStopAll (r0 :: rs)) => Some (w_setrst (fst (w_stop w r0)) r (Run (FStopAll rs)))
      | _ => None
      end
  | None => None
  end.

Inductive slbl :=
| SMain
| SHook (r : nat)
| SCancel (n : nat)
| SUser
| SWaiter
| SPropg (c : nat)
| SFire (r : nat).

(* the steps that do not belong to a library function: environment cancels and the std package's own delayed work *)
Definition s_sys (nenv : nat) (w : world) (l : slbl) : option world :=
  match l with
  | SHook r => s_hook w r
  | SCancel n => if n <? nenv then Some (s_mark w n) else None
  | SPropg c => s_prop w c
  | SFire r => s_fire w r
  | _ => None
  end.

Definition no_fire (w : world) : bool := forallb (fun x => negb (fire_enabled (nodes w) x)) (regs w).
Definition no_prop (w : world) : bool := forallb (fun c => negb (prop_enabled (nodes w) c)) (seq 0 (length (nodes w))).
Definition settled (w : world) : bool := no_running w && no_fire w && no_prop w.

(* the internal (non-environment) labels of a world *)
Definition s_internal (w : world) : list slbl :=
  SMain :: SWaiter :: map SHook (seq 0 (length (regs w))) ++ map SFire (seq 0 (length (regs w)))
        ++ map SPropg (seq 0 (length (nodes w))).

Definition is_internal (l : slbl) : bool := match l with SCancel _ | SUser => false | _ => true end.

Section GRun.
  Context {T L : Type} (step : T -> L -> option T).
  Definition gstep_or_stutter (s : T) (l : L) : T := match step s l with Some s' => s' | None => s end.
  Fixpoint grun (s : T) (sched : list L) : T :=
    match sched with
    | [] => s
    | l :: t => grun (gstep_or_stutter s l) t
    end.
  Fixpoint gfirst_enabled (s : T) (cands : list L) : option T :=
    match cands with
    | [] => None
    | l :: t => match step s l with Some s' => Some s' | None => gfirst_enabled s t end
    end.
  Fixpoint gsettle (cands : T -> list L) (fuel : nat) (s : T) : T :=
    match fuel with
    | 0 => s
    | S k => match gfirst_enabled s (cands s) with Some s' => gsettle cands k s' | None => s end
    end.
End GRun.

(* ------------------------------------------------------------------------------------------------------------ *)
(* ChainAfterFunc                                                                                               *)
(* ------------------------------------------------------------------------------------------------------------ *)
Definition schain_step (consult : bool) (cx other : nat) (nenv : nat) (s : cst) (l : slbl) : option cst :=
  match l with
  | SMain => chain_step consult cx other nenv s LMain
  | SUser | SWaiter => None
  | _ => match s_sys nenv (cw s) l with Some w' => Some {| cw := w'; cpc := cpc s |} | None => None end
  end.

Definition schain_quiescent (s : cst) : bool := (cpc s =? 2) && settled (cw s).

Definition schain_settle consult cx other nenv fuel (s : cst) : cst :=
  gsettle (schain_step consult cx other nenv) (fun s => s_internal (cw s)) fuel s.

(* ------------------------------------------------------------------------------------------------------------ *)
(* CombineContext                                                                                               *)
(* ------------------------------------------------------------------------------------------------------------ *)
Definition scombine_main (regstop : bool) (primary : option nat) (others : list (option nat)) (s : bst) : option bst :=
  match bpcv s with
  | BEarlyCancel => Some (bset s (s_mark (bw s) (bR s)) (BRetE (bR s)))         (* context.go:133 cancel() *)
  | _ => combine_main regstop primary others s
  end.

Definition scombine_step (regstop : bool) (primary : option nat) (others : list (option nat)) (nenv : nat)
                         (s : bst) (l : slbl) : option bst :=
  match l with
  | SMain => scombine_main regstop primary others s
  | SUser | SWaiter => None
  | _ => match s_sys nenv (bw s) l with Some w' => Some (bset s w' (bpcv s)) | None => None end
  end.

Definition scombine_quiescent (s : bst) : bool :=
  match bpcv s with BRetP _ | BRetE _ | BRetN _ => settled (bw s) | _ => false end.

Definition scombine_settle regstop primary others nenv fuel (s : bst) : bst :=
  gsettle (scombine_step regstop primary others nenv) (fun s => s_internal (bw s)) fuel s.

(* ------------------------------------------------------------------------------------------------------------ *)
(* ConflatedContext                                                                                             *)
(* ------------------------------------------------------------------------------------------------------------ *)
Definition sconfl_main (detach consult : bool) (inputs : list nat) (s : fstate) : option fstate :=
  match fpcv s with
  | FDefer => Some (fset s (s_mark (fw s) (fR s)) FRet)                            (* context.go:56 deferred cancel() *)
  | _ => confl_main detach consult inputs s
  end.

Definition sconfl_step (detach consult : bool) (inputs : list nat) (nenv : nat) (s : fstate) (l : slbl) : option fstate :=
  match l with
  | SMain => sconfl_main detach consult inputs s
  | SUser =>
      match fpcv s with
      | FRet => Some {| fw := s_mark (fw s) (fR s); fpcv := FRet; fD := fD s; fR := fR s; fok := fok s;
                        flives := flives s; fwait := fwait s; fucancel := true |}
      | _ => None
      end
  | SWaiter =>
      match fwait s with
      | WWait => if wg (fw s) =? 0
                 then Some {| fw := fw s; fpcv := fpcv s; fD := fD s; fR := fR s; fok := fok s;
                              flives := flives s; fwait := WCancel; fucancel := fucancel s |}
                 else None
      | WCancel => Some {| fw := s_mark (fw s) (fR s); fpcv := fpcv s; fD := fD s; fR := fR s; fok := fok s;
                           flives := flives s; fwait := WExit; fucancel := fucancel s |}
      | _ => None
      end
  | _ => match s_sys nenv (fw s) l with Some w' => Some (fset s w' (fpcv s)) | None => None end
  end.

Definition sconfl_quiescent (s : fstate) : bool :=
  match fpcv s with FRet => settled (fw s) && waiter_idle s | _ => false end.

(* ConflatedContext() panics before doing anything: the only non-quiescent state without an internal step *)
Definition sconfl_panicked (s : fstate) : bool := match fpcv s with FPanic => true | _ => false end.

Definition sconfl_settle detach consult inputs nenv fuel (s : fstate) : fstate :=
  gsettle (sconfl_step detach consult inputs nenv) (fun s => s_internal (fw s)) fuel s.

(* every node's ancestor list starts with the node itself (what build_env, w_child, w_detached construct) *)
Definition forestb (ns : list node) : bool :=
  forallb (fun i => match anc_of ns i with j :: _ => i =? j | [] => false end) (seq 0 (length ns)).
