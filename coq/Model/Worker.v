(* Model of bigbuff.Worker (worker.go, 75 lines).  Executable definitions only; proofs are in Proofs/Worker.v.

   Go state                                   model
   x.mu                                       mu : bool  (true only while a watcher keeps it across its stop phase; every
                                              other critical section is ONE atomic step, enabled when mu = false)
   x.wg  (ptr to sync.WaitGroup, nil if taken) xwg : option nat  -- index of a WaitGroup OBJECT ("generation") in gens
   the WaitGroup objects ever allocated       gens : list nat   -- their counters
   x.stop / x.done (set and cleared together) xinst : option nat -- index of the instance whose two channels they are
   per `go x.wait()` + `go x.do(fn)` pair     insts : list inst -- watcher pc, do-goroutine pc, the stop channel the
                                              function was handed (read of x.stop when the goroutine starts), and the
                                              closed flags of the two channels made by the Do that spawned the pair
   the done funcs handed out (wg.Done)        holders : list holder -- which WaitGroup object it decrements; called?

   The instance function is an environment script: it runs until it observes its stop channel closed (IRun -> ISaw), then
   returns after an arbitrary delay (ISaw -> IRet); it may also return on its own while stop is still open (label LIE,
   IRun -> IRet, ghost flag `early`), which the library permits: the stop channel must then still be closed, but only
   after the last done, because helpers of the function may be watching it.  done() calls are environment steps, enabled once, any time after
   the Do returned.  Go panics (close of nil/closed channel, negative WaitGroup counter) set `panicked`, which disables
   every further step.

   `flags` select realistic defective variants (all false = the code as it is):
     f_early     : the watcher clears stop/done and releases mu right after close(stop), and only then waits for the
                   instance to exit
     f_norecheck : the watcher does not loop: after wg.Wait() it locks mu and stops, without re-reading x.wg
     f_nonewgen  : Do, finding x.wg == nil, re-uses the previous WaitGroup object instead of publishing a new one *)
From Coq Require Import List Arith Bool.
Import ListNotations.

Inductive wpc :=
| WLoop            (* worker.go:58  about to x.mu.Lock() at the top of the loop *)
| WWait (g : nat)  (* worker.go:65  in wg.Wait() on WaitGroup object g, mu released *)
| WLock            (* f_norecheck only: about to lock mu and stop *)
| WClose           (* worker.go:67  broke out of the loop, HOLDING mu; about to close(x.stop) *)
| WRecv            (* worker.go:68  <-x.done, holding mu *)
| WRecvL (d : nat) (* f_early only: waiting on a local copy of the done channel, mu released *)
| WClear           (* worker.go:69-70 about to clear stop/done and unlock *)
| WExit.

Inductive ipc :=
| IReady   (* `go x.do(fn)` issued, goroutine has not run yet *)
| IRun     (* fn(x.stop) called; fn has not seen its stop channel closed *)
| ISaw     (* fn has observed stop closed, has not returned yet *)
| IRet     (* fn returned; worker.go:74 close(x.done) not yet executed *)
| IExit.

Record inst := { wp : wpc; ip : ipc; isc : option nat; stopc : bool; donec : bool;
                 early : bool  (* ghost: the function returned WITHOUT having seen its stop channel closed *) }.
Record holder := { hgen : nat; hdone : bool }.
Record st := { mu : bool; xwg : option nat; xinst : option nat; gens : list nat; insts : list inst;
               holders : list holder; panicked : bool }.
Record flags := { f_early : bool; f_norecheck : bool; f_nonewgen : bool }.

Definition faithful : flags := {| f_early := false; f_norecheck := false; f_nonewgen := false |}.

Definition init : st :=
  {| mu := false; xwg := None; xinst := None; gens := []; insts := []; holders := []; panicked := false |}.

Definition new_inst : inst :=
  {| wp := WLoop; ip := IReady; isc := None; stopc := false; donec := false; early := false |}.

Fixpoint upd {A : Type} (l : list A) (n : nat) (x : A) : list A :=
  match l, n with
  | [], _ => []
  | _ :: t, 0 => x :: t
  | a :: t, S m => a :: upd t m x
  end.

Definition set_wp (p : wpc) (i : inst) : inst :=
  {| wp := p; ip := ip i; isc := isc i; stopc := stopc i; donec := donec i; early := early i |}.
Definition set_ip (p : ipc) (c : option nat) (i : inst) : inst :=
  {| wp := wp i; ip := p; isc := c; stopc := stopc i; donec := donec i; early := early i |}.
Definition set_stopc (i : inst) : inst :=
  {| wp := wp i; ip := ip i; isc := isc i; stopc := true; donec := donec i; early := early i |}.
Definition set_early (i : inst) : inst :=
  {| wp := wp i; ip := IRet; isc := isc i; stopc := stopc i; donec := donec i; early := true |}.
Definition set_donec (i : inst) : inst :=
  {| wp := wp i; ip := ip i; isc := isc i; stopc := stopc i; donec := true; early := early i |}.

Definition st_insts (s : st) (l : list inst) : st :=
  {| mu := mu s; xwg := xwg s; xinst := xinst s; gens := gens s; insts := l; holders := holders s;
     panicked := panicked s |}.
Definition st_lock (s : st) (m : bool) (w : option nat) (x : option nat) : st :=
  {| mu := m; xwg := w; xinst := x; gens := gens s; insts := insts s; holders := holders s;
     panicked := panicked s |}.
Definition panic (s : st) : st :=
  {| mu := mu s; xwg := xwg s; xinst := xinst s; gens := gens s; insts := insts s; holders := holders s;
     panicked := true |}.
(* apply f to instance k (no-op when k does not exist) *)
Definition modi (s : st) (k : nat) (f : inst -> inst) : st :=
  match nth_error (insts s) k with
  | Some i => st_insts s (upd (insts s) k (f i))
  | None => s
  end.

Inductive label :=
| LDo             (* some caller executes Do's critical section (worker.go:43-54) and returns *)
| LDone (h : nat) (* holder h calls its done function *)
| LW (k : nat)    (* the next step of the k-th watcher goroutine *)
| LI (k : nat)    (* the next step of the k-th do goroutine / instance function *)
| LIE (k : nat).  (* the k-th instance function returns ON ITS OWN, without having seen stop closed (e.g. after handing
                     the stop channel to helpers); allowed by the library, outside the "runs until stopped" script *)

(* worker.go:39-55 *)
Definition do_step (fl : flags) (s : st) : option st :=
  if mu s then None else
  let '(xi, ins) := match xinst s with
                    | Some k => (Some k, insts s)
                    | None => (Some (length (insts s)), insts s ++ [new_inst])
                    end in
  let '(g, xw, gs) := match xwg s with
                      | Some g => (g, Some g, gens s)
                      | None => if f_nonewgen fl && negb (length (gens s) =? 0)
                                then (length (gens s) - 1, None, gens s)
                                else (length (gens s), Some (length (gens s)), gens s ++ [0])
                      end in
  Some {| mu := false; xwg := xw; xinst := xi; gens := upd gs g (S (nth g gs 0)); insts := ins;
          holders := holders s ++ [{| hgen := g; hdone := false |}]; panicked := panicked s |}.

(* wg.Done of the WaitGroup object the holder was registered with *)
Definition done_step (s : st) (h : nat) : option st :=
  match nth_error (holders s) h with
  | None => None
  | Some hh =>
      if hdone hh then None   (* calling done twice is outside the contract *)
      else match nth (hgen hh) (gens s) 0 with
           | 0 => Some (panic s)   (* sync: negative WaitGroup counter *)
           | S c => Some {| mu := mu s; xwg := xwg s; xinst := xinst s; gens := upd (gens s) (hgen hh) c;
                            insts := insts s; holders := upd (holders s) h {| hgen := hgen hh; hdone := true |};
                            panicked := panicked s |}
           end
  end.

(* worker.go:56-71 *)
Definition w_step (fl : flags) (s : st) (k : nat) : option st :=
  match nth_error (insts s) k with
  | None => None
  | Some i =>
      match wp i with
      | WLoop =>
          if mu s then None
          else match xwg s with
               | Some g => Some (modi (st_lock s false None (xinst s)) k (set_wp (WWait g)))
               | None => Some (modi (st_lock s true None (xinst s)) k (set_wp WClose))   (* break, mu stays locked *)
               end
      | WWait g =>
          if nth g (gens s) 0 =? 0
          then Some (modi s k (set_wp (if f_norecheck fl then WLock else WLoop)))
          else None
      | WLock =>
          if mu s then None else Some (modi (st_lock s true (xwg s) (xinst s)) k (set_wp WClose))
      | WClose =>
          match xinst s with
          | None => Some (panic s)                        (* close of nil channel *)
          | Some j =>
              match nth_error (insts s) j with
              | None => Some (panic s)
              | Some ij =>
                  if stopc ij then Some (panic s)         (* close of closed channel *)
                  else let s1 := modi s j set_stopc in
                       if f_early fl
                       then Some (modi (st_lock s1 false (xwg s1) None) k (set_wp (WRecvL j)))
                       else Some (modi s1 k (set_wp WRecv))
              end
          end
      | WRecv =>
          match xinst s with
          | None => None                                  (* receive from nil channel: blocks for ever *)
          | Some j => match nth_error (insts s) j with
                      | Some ij => if donec ij then Some (modi s k (set_wp WClear)) else None
                      | None => None
                      end
          end
      | WRecvL j =>
          match nth_error (insts s) j with
          | Some ij => if donec ij then Some (modi s k (set_wp WExit)) else None
          | None => None
          end
      | WClear => Some (modi (st_lock s false (xwg s) None) k (set_wp WExit))
      | WExit => None
      end
  end.

(* worker.go:72-75 with the instance function's script *)
Definition i_step (s : st) (k : nat) : option st :=
  match nth_error (insts s) k with
  | None => None
  | Some i =>
      match ip i with
      | IReady => Some (modi s k (set_ip IRun (xinst s)))      (* fn(x.stop): reads x.stop now *)
      | IRun =>
          match isc i with
          | None => None                                       (* handed a nil channel: never sees it closed *)
          | Some j => match nth_error (insts s) j with
                      | Some ij => if stopc ij then Some (modi s k (set_ip ISaw (isc i))) else None
                      | None => None
                      end
          end
      | ISaw => Some (modi s k (set_ip IRet (isc i)))
      | IRet =>
          match xinst s with
          | None => Some (panic s)                             (* close of nil channel *)
          | Some j =>
              match nth_error (insts s) j with
              | None => Some (panic s)
              | Some ij =>
                  if donec ij then Some (panic s)              (* close of closed channel *)
                  else Some (modi (modi s j set_donec) k (set_ip IExit (isc i)))
              end
          end
      | IExit => None
      end
  end.

Definition i_early_step (s : st) (k : nat) : option st :=
  match nth_error (insts s) k with
  | None => None
  | Some i => match ip i with IRun => Some (modi s k set_early) | _ => None end
  end.

Definition step (fl : flags) (s : st) (l : label) : option st :=
  if panicked s then None
  else match l with
       | LDo => do_step fl s
       | LDone h => done_step s h
       | LW k => w_step fl s k
       | LI k => i_step s k
       | LIE k => i_early_step s k
       end.

(* a disabled pick is a stutter *)
Definition step_or_stay (fl : flags) (s : st) (l : label) : st :=
  match step fl s l with Some s' => s' | None => s end.

Definition run (fl : flags) (s : st) (sched : list label) : st := fold_left (step_or_stay fl) sched s.

(* ---- termination measure: every step other than a new Do strictly decreases it ---- *)
Definition wweight (p : wpc) : nat :=
  match p with WExit => 0 | WClear => 1 | WRecvL _ => 1 | WRecv => 2 | WClose => 3 | WLoop => 4 | WLock => 4 | WWait _ => 5 end.
Definition iweight (p : ipc) : nat :=
  match p with IExit => 0 | IRet => 1 | ISaw => 2 | IRun => 3 | IReady => 4 end.
Definition inst_weight (i : inst) : nat := wweight (wp i) + iweight (ip i).
Definition holder_weight (h : holder) : nat := if hdone h then 0 else 1.
Fixpoint sum (l : list nat) : nat := match l with [] => 0 | x :: t => x + sum t end.
Definition measure (s : st) : nat :=
  if panicked s then 0
  else 1 + (match xwg s with Some _ => 2 | None => 0 end) + sum (map inst_weight (insts s)) + sum (map holder_weight (holders s)).

(* ---- observables ---- *)
Definition running (i : inst) : bool := match ip i with IRun | ISaw => true | _ => false end.
Definition alive (i : inst) : bool := match ip i with IExit => false | _ => true end.
Definition started (i : inst) : bool := match ip i with IReady => false | _ => true end.
Definition sawstop (i : inst) : bool := match ip i with ISaw | IRet | IExit => negb (early i) | _ => false end.
Definition returned (i : inst) : bool := match ip i with IRet | IExit => true | _ => false end.
Definition walive (i : inst) : bool := match wp i with WExit => false | _ => true end.
Definition countb {A : Type} (p : A -> bool) (l : list A) : nat := length (filter p l).

(* ---- the harness-level (K1) view: one harness action, then the library runs until nothing but the harness can move ----
   Internal moves: every watcher step, the do goroutine starting, the function noticing stop, close(done), and blocked
   Do calls getting through.  NOT internal: the function returning (the harness gates it) and done() calls. *)
Inductive kop := KDo | KDone (h : nat) | KRelease (k : nat) | KEarly (k : nat).
Record kst := { ws : st; pend : nat }.
Definition kinit : kst := {| ws := init; pend := 0 |}.

Definition auto_i (s : st) (k : nat) : option st :=
  match nth_error (insts s) k with
  | Some i => match ip i with ISaw => None | _ => step faithful s (LI k) end
  | None => None
  end.

Fixpoint first_some {A : Type} (f : nat -> option A) (ks : list nat) : option A :=
  match ks with
  | [] => None
  | k :: t => match f k with Some x => Some x | None => first_some f t end
  end.

Definition auto_step (s : st) : option st :=
  let ks := seq 0 (length (insts s)) in
  match first_some (fun k => step faithful s (LW k)) ks with
  | Some s' => Some s'
  | None => first_some (auto_i s) ks
  end.

Fixpoint settle (fuel : nat) (s : st) (p : nat) : kst :=
  match fuel with
  | 0 => {| ws := s; pend := p |}
  | S f =>
      match auto_step s with
      | Some s' => settle f s' p
      | None =>
          match p with
          | 0 => {| ws := s; pend := 0 |}
          | S p' => match step faithful s LDo with
                    | Some s' => settle f s' p'
                    | None => {| ws := s; pend := p |}
                    end
          end
      end
  end.

(* what the harness can see at a quiescent point:
   [Do calls returned; instances started; that saw stop themselves; whose function returned; library goroutines alive
    (watchers + do goroutines + callers blocked in Do); Do calls still blocked; stop channels closed; panicked] *)
Definition kobs (k : kst) : list nat :=
  let s := ws k in
  [ length (holders s); countb started (insts s); countb sawstop (insts s); countb returned (insts s);
    countb walive (insts s) + countb alive (insts s) + pend k; pend k; countb stopc (insts s);
    if panicked s then 1 else 0 ].

Definition kfuel : nat := 400.

Definition kstep (k : kst) (o : kop) : kst * list nat :=
  let s := ws k in
  let k1 :=
    match o with
    | KDo => settle kfuel s (S (pend k))
    | KDone h => settle kfuel (step_or_stay faithful s (LDone h)) (pend k)
    | KRelease i =>
        match nth_error (insts s) i with
        | Some ii => match ip ii with
                     | ISaw => settle kfuel (step_or_stay faithful s (LI i)) (pend k)
                     | _ => k
                     end
        | None => k
        end
    | KEarly i =>
        match step faithful s (LIE i) with
        | Some s' => settle kfuel s' (pend k)
        | None => k
        end
    end in
  (k1, kobs k1).
