(* C13 — Channel consumer is lossless, ordered and linearizable over its source channel.
   Statements only; every proof is `exact` of a lemma of Proofs/Channel.v. *)
From Coq Require Import List ZArith Bool Arith.
From BB.Model Require Import Channel.
From BB.Proofs Require Channel.
Import ListNotations.

(* For EVERY operation sequence (Get attempts, Commit, Rollback, Buffer, Close, context cancellation, source sends and
   source close, in any order), the implementation-level model (buffer + rollback counter, as coded) produces exactly
   the results of the cursor specification, and the representation invariant holds:
   rollback <= len(buffer); committed ++ buffer = taken; taken ++ (still queued in the source) = everything sent. *)
Theorem C13_refines_cursor_spec : forall ops : list op,
  Proofs.Channel.Inv (fst (run init ops)) /\
  spec_run spec_init ops = (abs (fst (run init ops)), snd (run init ops)).
Proof. intros ops. split; [exact (Proofs.Channel.run_inv ops) | exact (Proofs.Channel.run_refines_init ops)]. Qed.
Print Assumptions C13_refines_cursor_spec.

(* "at any quiescent point the committed values followed by Buffer() are exactly the prefix of the source stream that
   has been taken" *)
Theorem C13_committed_then_buffer_is_taken_prefix : forall ops : list op,
  let s := fst (run init ops) in
  committed s ++ buf s = firstn (length (taken s)) (sent s) /\ rb s <= length (buf s).
Proof. exact Proofs.Channel.committed_buffer_is_taken_prefix. Qed.
Print Assumptions C13_committed_then_buffer_is_taken_prefix.

(* A Get that yields a value yields the stream element under the cursor c+d (source order; never an invented or zero
   value) and advances the cursor by exactly one; it takes from the source only when the cursor is at the high-water mark. *)
Theorem C13_get_returns_stream_element_at_cursor : forall a v a',
  Proofs.Channel.SInv a -> spec_step a OGet = (a', RVal v) ->
  c a + d a < length (stream a) /\ v = nth (c a + d a) (stream a) 0%Z /\
  c a' = c a /\ d a' = S (d a) /\ stream a' = stream a /\
  ((c a + d a < h a /\ h a' = h a) \/ (c a + d a = h a /\ h a' = S (h a))).
Proof. exact Proofs.Channel.get_returns_cursor. Qed.
Print Assumptions C13_get_returns_stream_element_at_cursor.

(* Consecutive Gets return consecutive stream elements starting at the cursor: after a Rollback (d = 0, cursor back at the
   commit point) the pending values are replayed in the same order before anything new is taken. *)
Theorem C13_gets_are_consecutive_from_cursor : forall (n : nat) (a : spec),
  Proofs.Channel.SInv a ->
  let '(a', rs) := spec_run a (repeat OGet n) in
  exists k, Proofs.Channel.got rs = firstn k (skipn (c a + d a) (stream a)) /\
            d a' = d a + k /\ c a' = c a /\ stream a' = stream a /\ Proofs.Channel.SInv a'.
Proof. exact Proofs.Channel.gets_are_consecutive. Qed.
Print Assumptions C13_gets_are_consecutive_from_cursor.

(* Rollback rewinds the cursor to the commit point and nothing else; with nothing pending it errs and changes nothing. *)
Theorem C13_rollback_rewinds : forall a a' r,
  spec_step a ORollback = (a', r) ->
  (d a = 0 /\ r = RErr /\ a' = a) \/
  (d a <> 0 /\ r = ROk /\ c a' = c a /\ d a' = 0 /\ h a' = h a /\ stream a' = stream a).
Proof. exact Proofs.Channel.rollback_rewinds. Qed.
Print Assumptions C13_rollback_rewinds.

(* Only Commit drops values, and it drops exactly the delivered ones: the commit point moves to the cursor. *)
Theorem C13_commit_drops_exactly_delivered : forall a a' r,
  spec_step a OCommit = (a', r) ->
  (r = RErr /\ a' = a /\ (sclosed a = true \/ d a = 0)) \/
  (r = ROk /\ sclosed a = false /\ d a <> 0 /\ c a' = c a + d a /\ d a' = 0 /\ h a' = h a /\ stream a' = stream a).
Proof. exact Proofs.Channel.commit_advances. Qed.
Print Assumptions C13_commit_drops_exactly_delivered.

(* Once closed nothing more is taken from the source, and Get/Commit fail. *)
Theorem C13_nothing_after_done : forall s o,
  closed s = true -> (forall v, o <> OSrcSend v) -> o <> OSrcClose ->
  src (fst (step s o)) = src s /\ taken (fst (step s o)) = taken s /\ closed (fst (step s o)) = true /\
  (o = OGet \/ o = OCommit -> snd (step s o) = RErr).
Proof. exact Proofs.Channel.nothing_after_closed. Qed.
Print Assumptions C13_nothing_after_done.
