(* C13 — Channel consumer is lossless, ordered and linearizable over its source channel.
   Statements only; every proof is `exact` of a lemma of Proofs/Channel.v or Proofs/ChannelMore.v.

   Clause of the property statement                                   -> theorems below
   -------------------------------------------------------------------------------------------------------------
   "Every value a Channel takes from its source is returned by Get"   -> C13_taken_only_by_the_get_that_returns_it
   "... in source order"                                              -> C13_taken_is_prefix_of_sent,
                                                                         C13_get_returns_stream_element_at_cursor,
                                                                         C13_gets_are_consecutive_from_cursor,
                                                                         C13_gets_deliver_replay_then_source
   "replayed in the same order after Rollback"                        -> C13_rollback_rewinds,
                                                                         C13_rollback_redelivers_uncommitted_in_order,
                                                                         C13_rollback_redelivers_whole_buffer
   "dropped from its pending buffer only by Commit"                   -> C13_commit_drops_exactly_delivered,
                                                                         C13_buffer_changes_only_by_get_and_commit
   "at any quiescent point the committed values followed by Buffer()
    are exactly the prefix of the source stream that has been taken"  -> C13_committed_then_buffer_is_taken_prefix,
                                                                         C13_buffer_is_uncommitted_taken,
                                                                         C13_refines_cursor_spec
   "Concurrent Get, Commit, Rollback, Buffer and Close calls behave
    as if executed one at a time in an order consistent with real
    time"                                                             -> C13_concurrent_histories_linearizable,
                                                                         C13_threads_state_is_sequential,
                                                                         C13_get_empty_changes_nothing,
                                                                         C13_failed_results_change_nothing
   "A closed source never produces zero values"                       -> C13_values_are_never_invented,
                                                                         C13_drained_source_gives_empty
   "once Done is closed nothing more is taken from the source"        -> C13_nothing_after_done (one step),
                                                                         C13_frozen_after_closed,
                                                                         C13_nothing_taken_after_done_every_schedule
   quantifier "... and context cancellations": cancellation as two
   events (context cancelled / watcher goroutine closes)              -> C13_split_* (five theorems at the end)
*)
From Coq Require Import List ZArith Bool Arith.
From BB.Model Require Import Channel ChannelThreads.
From BB.Proofs Require Channel ChannelMore.
Import ListNotations.

(* For EVERY operation sequence (Get attempts, Commit, Rollback, Buffer, Close, context cancellation, source sends and
   source close, in any order), the implementation-level model (buffer + rollback counter, as coded) produces exactly
   the results of the cursor specification, and the representation invariant holds:
   rollback <= len(buffer); committed ++ buffer = taken; taken ++ (still queued in the source) = everything sent. *)
Theorem C13_refines_cursor_spec : forall ops : list op,
  Proofs.Channel.Inv (fst (run init ops)) /\
  spec_run spec_init ops = (abs (fst (run init ops)), snd (run init ops)).
Proof. intros ops. split; [exact (Proofs.Channel.run_inv ops) | exact (Proofs.Channel.run_refines_init ops)]. Qed.
Print Assumptions C13_refines_cursor_spec.

(* "at any quiescent point the committed values followed by Buffer() are exactly the prefix of the source stream that
   has been taken" *)
Theorem C13_committed_then_buffer_is_taken_prefix : forall ops : list op,
  let s := fst (run init ops) in
  committed s ++ buf s = firstn (length (taken s)) (sent s) /\ rb s <= length (buf s).
Proof. exact Proofs.Channel.committed_buffer_is_taken_prefix. Qed.
Print Assumptions C13_committed_then_buffer_is_taken_prefix.

(* A Get that yields a value yields the stream element under the cursor c+d (source order; never an invented or zero
   value) and advances the cursor by exactly one; it takes from the source only when the cursor is at the high-water mark. *)
Theorem C13_get_returns_stream_element_at_cursor : forall a v a',
  Proofs.Channel.SInv a -> spec_step a OGet = (a', RVal v) ->
  c a + d a < length (stream a) /\ v = nth (c a + d a) (stream a) 0%Z /\
  c a' = c a /\ d a' = S (d a) /\ stream a' = stream a /\
  ((c a + d a < h a /\ h a' = h a) \/ (c a + d a = h a /\ h a' = S (h a))).
Proof. exact Proofs.Channel.get_returns_cursor. Qed.
Print Assumptions C13_get_returns_stream_element_at_cursor.

(* Consecutive Gets return consecutive stream elements starting at the cursor: after a Rollback (d = 0, cursor back at the
   commit point) the pending values are replayed in the same order before anything new is taken. *)
Theorem C13_gets_are_consecutive_from_cursor : forall (n : nat) (a : spec),
  Proofs.Channel.SInv a ->
  let '(a', rs) := spec_run a (repeat OGet n) in
  exists k, Proofs.Channel.got rs = firstn k (skipn (c a + d a) (stream a)) /\
            d a' = d a + k /\ c a' = c a /\ stream a' = stream a /\ Proofs.Channel.SInv a'.
Proof. exact Proofs.Channel.gets_are_consecutive. Qed.
Print Assumptions C13_gets_are_consecutive_from_cursor.

(* Rollback rewinds the cursor to the commit point and nothing else; with nothing pending it errs and changes nothing. *)
Theorem C13_rollback_rewinds : forall a a' r,
  spec_step a ORollback = (a', r) ->
  (d a = 0 /\ r = RErr /\ a' = a) \/
  (d a <> 0 /\ r = ROk /\ c a' = c a /\ d a' = 0 /\ h a' = h a /\ stream a' = stream a).
Proof. exact Proofs.Channel.rollback_rewinds. Qed.
Print Assumptions C13_rollback_rewinds.

(* Only Commit drops values, and it drops exactly the delivered ones: the commit point moves to the cursor. *)
Theorem C13_commit_drops_exactly_delivered : forall a a' r,
  spec_step a OCommit = (a', r) ->
  (r = RErr /\ a' = a /\ (sclosed a = true \/ d a = 0)) \/
  (r = ROk /\ sclosed a = false /\ d a <> 0 /\ c a' = c a + d a /\ d a' = 0 /\ h a' = h a /\ stream a' = stream a).
Proof. exact Proofs.Channel.commit_advances. Qed.
Print Assumptions C13_commit_drops_exactly_delivered.

(* Once closed nothing more is taken from the source, and Get/Commit fail. *)
Theorem C13_nothing_after_done : forall s o,
  closed s = true -> (forall v, o <> OSrcSend v) -> o <> OSrcClose ->
  src (fst (step s o)) = src s /\ taken (fst (step s o)) = taken s /\ closed (fst (step s o)) = true /\
  (o = OGet \/ o = OCommit -> snd (step s o) = RErr).
Proof. exact Proofs.Channel.nothing_after_closed. Qed.
Print Assumptions C13_nothing_after_done.

(* ------------------------------------------------------------------------------------------------------------- *)
(* Clauses stated on the implementation-level model (buffer + rollback counter, as coded)                          *)
(* ------------------------------------------------------------------------------------------------------------- *)

(* "Every value a Channel takes from its source is returned by Get": the only step that takes anything from the source
   is a Get attempt on an open Channel with nothing awaiting replay; it takes the OLDEST queued value, returns that very
   value and appends it to the pending buffer.  No other operation (except the owner's sends) touches the source. *)
Theorem C13_taken_only_by_the_get_that_returns_it : forall s o,
  let s1 := fst (step s o) in
  (taken s1 = taken s /\ (forall v, o <> OSrcSend v) -> src s1 = src s) /\
  (taken s1 = taken s \/
   (o = OGet /\ exists v, snd (step s o) = RVal v /\ taken s1 = taken s ++ [v] /\ src s = v :: src s1 /\
                          buf s1 = buf s ++ [v] /\ rb s = 0 /\ closed s = false)).
Proof. exact Proofs.ChannelMore.taken_only_by_get. Qed.
Print Assumptions C13_taken_only_by_the_get_that_returns_it.

(* "in source order": at every point of every run, what has been taken followed by what is still queued is exactly what
   was sent, so the k-th value taken is the k-th value sent. *)
Theorem C13_taken_is_prefix_of_sent : forall ops : list op,
  let s := fst (run init ops) in sent s = taken s ++ src s.
Proof. exact Proofs.ChannelMore.taken_is_prefix_of_sent. Qed.
Print Assumptions C13_taken_is_prefix_of_sent.

(* Values delivered by any block of n Get attempts from any open state: first the entries awaiting replay, oldest
   first, then the values queued in the source, oldest first, and nothing else (empty attempts deliver nothing). *)
Theorem C13_gets_deliver_replay_then_source : forall n s,
  closed s = false -> rb s <= length (buf s) ->
  Proofs.Channel.got (snd (run s (repeat OGet n))) = firstn n (skipn (pending s) (buf s) ++ src s).
Proof. exact Proofs.ChannelMore.gets_deliver. Qed.
Print Assumptions C13_gets_deliver_replay_then_source.

(* "replayed in the same order after Rollback": a successful Rollback changes neither the buffer nor the source, and the
   next n Get attempts return the first n of (the whole uncommitted buffer, in order, then the source's queue). *)
Theorem C13_rollback_redelivers_uncommitted_in_order : forall s n,
  closed s = false -> rb s <= length (buf s) -> snd (step s ORollback) = ROk ->
  let s1 := fst (step s ORollback) in
  buf s1 = buf s /\ src s1 = src s /\ pending s1 = 0 /\
  Proofs.Channel.got (snd (run s1 (repeat OGet n))) = firstn n (buf s ++ src s).
Proof. exact Proofs.ChannelMore.rollback_redelivers. Qed.
Print Assumptions C13_rollback_redelivers_uncommitted_in_order.

(* ... in particular exactly the uncommitted values come back, each once, in the same order. *)
Theorem C13_rollback_redelivers_whole_buffer : forall s,
  closed s = false -> rb s <= length (buf s) -> snd (step s ORollback) = ROk ->
  Proofs.Channel.got (snd (run (fst (step s ORollback)) (repeat OGet (length (buf s))))) = buf s.
Proof. exact Proofs.ChannelMore.rollback_redelivers_buffer. Qed.
Print Assumptions C13_rollback_redelivers_whole_buffer.

(* "dropped from its pending buffer only by Commit" / "Commit drops exactly those": the buffer changes in two ways only:
   a Get that takes a new value appends it; a successful Commit removes exactly the delivered entries (the `pending`
   leading ones), which become committed, and keeps the entries awaiting replay. *)
Theorem C13_buffer_changes_only_by_get_and_commit : forall s o,
  let s1 := fst (step s o) in
  (buf s1 = buf s /\ committed s1 = committed s) \/
  (o = OGet /\ exists v, snd (step s o) = RVal v /\ buf s1 = buf s ++ [v] /\ committed s1 = committed s) \/
  (o = OCommit /\ snd (step s o) = ROk /\ closed s = false /\ pending s <> 0 /\
   buf s1 = skipn (pending s) (buf s) /\ committed s1 = committed s ++ firstn (pending s) (buf s) /\ rb s1 = rb s).
Proof. exact Proofs.ChannelMore.buffer_changes. Qed.
Print Assumptions C13_buffer_changes_only_by_get_and_commit.

(* "Buffer() = the uncommitted taken values": at any point of any run Buffer() returns what has been taken minus what
   has been committed, in order, and changes nothing. *)
Theorem C13_buffer_is_uncommitted_taken : forall ops : list op,
  let s := fst (run init ops) in
  step s OBuffer = (s, RBuf (skipn (length (committed s)) (taken s))) /\
  taken s = committed s ++ buf s.
Proof. exact Proofs.ChannelMore.buffer_is_uncommitted_taken. Qed.
Print Assumptions C13_buffer_is_uncommitted_taken.

(* "A closed source never produces zero values": every value returned by any Get of any run was sent to the source
   (the model's Get on an empty or closed-and-drained source answers REmpty, see the next theorem). *)
Theorem C13_values_are_never_invented : forall (ops : list op) (v : Z),
  In (RVal v) (snd (run init ops)) -> In v (sent (fst (run init ops))).
Proof. exact Proofs.ChannelMore.values_are_never_invented. Qed.
Print Assumptions C13_values_are_never_invented.

(* With nothing queued and nothing to replay a Get attempt finds nothing and changes nothing, whether or not the source
   has been closed (src_closed is not even read). *)
Theorem C13_drained_source_gives_empty : forall s,
  closed s = false -> rb s = 0 -> src s = [] -> step s OGet = (s, REmpty).
Proof. exact Proofs.ChannelMore.drained_source_gives_empty. Qed.
Print Assumptions C13_drained_source_gives_empty.

(* "once Done is closed nothing more is taken", for EVERY later schedule: from a closed state, whatever operations
   follow, the values taken, the buffer and the committed values never change, the source only grows by its owner's
   sends, the Channel stays closed and every Get and Commit returns an error. *)
Theorem C13_frozen_after_closed : forall (ops : list op) (s : st),
  closed s = true ->
  let s' := fst (run s ops) in
  closed s' = true /\ taken s' = taken s /\ buf s' = buf s /\ committed s' = committed s /\
  (exists extra, src s' = src s ++ extra /\ sent s' = sent s ++ extra) /\
  Forall2 (fun o r => o = OGet \/ o = OCommit -> r = RErr) ops (snd (run s ops)).
Proof. exact Proofs.ChannelMore.frozen_after_closed. Qed.
Print Assumptions C13_frozen_after_closed.

(* The same from the initial state: as soon as a prefix of any history leaves Done closed, no continuation takes
   anything, and every later Get, Commit and Close returns an error. *)
Theorem C13_nothing_taken_after_done_every_schedule : forall pre post : list op,
  done_closed (fst (run init pre)) = true ->
  let s := fst (run init pre) in
  let s' := fst (run init (pre ++ post)) in
  done_closed s' = true /\ closed s' = true /\ taken s' = taken s /\ buf s' = buf s /\ committed s' = committed s /\
  (exists extra, src s' = src s ++ extra /\ sent s' = sent s ++ extra) /\
  Forall2 (fun o r => o = OGet \/ o = OCommit \/ o = OClose -> r = RErr) post (snd (run s post)).
Proof. exact Proofs.ChannelMore.nothing_taken_after_done. Qed.
Print Assumptions C13_nothing_taken_after_done_every_schedule.

(* ------------------------------------------------------------------------------------------------------------- *)
(* Linearizability                                                                                                *)
(* ------------------------------------------------------------------------------------------------------------- *)

(* A Get attempt that finds nothing leaves the state exactly as it was, so a polling Get can be linearised at any of
   its failed attempts (the wrapper below linearises a Get that gives up at its last attempt). *)
Theorem C13_get_empty_changes_nothing : forall s, snd (step s OGet) = REmpty -> fst (step s OGet) = s.
Proof. exact Proofs.ChannelMore.get_empty_stutters. Qed.
Print Assumptions C13_get_empty_changes_nothing.

(* Every call that returns an error, and every observer, changes nothing. *)
Theorem C13_failed_results_change_nothing : forall s o,
  match snd (step s o) with
  | REmpty | RErr | RBuf _ => fst (step s o) = s
  | RVal _ | ROk => True
  end.
Proof. exact Proofs.ChannelMore.failed_result_is_noop. Qed.
Print Assumptions C13_failed_results_change_nothing.

(* "Concurrent Get, Commit, Rollback, Buffer and Close calls behave as if executed one at a time in an order consistent
   with real time."  Model/ChannelThreads.v: any number of threads; a call is invoked (EInv), runs critical sections
   under the mutex (EStep; a Get polls: an attempt that finds nothing leaves the call pending unless the scheduler
   marks it final = the caller's context is found cancelled before the next attempt), and returns (ERet); `es` is an
   arbitrary schedule of such events for arbitrary programs (events that are not enabled are skipped); calls are named
   (thread, sequence number); the history H records invocations and responses in real-time order.
   For every schedule: H is well formed (a response answers an earlier invocation of the same call; a thread invokes
   its next call after the previous one returned), and H is linearizable in the standard sense: there is a sequence L
   of calls with results such that (1) running L's operations one at a time through the sequential `step` from `init`
   gives exactly L's results, (2) no call occurs twice in L, (3) every call in L was invoked in H with that operation,
   (4) every call that returned in H is in L with the operation and result it returned (pending calls may or may not
   be), (5) if call a returned before call b was invoked then a precedes b in L.  (The witness is the order of the
   effective critical sections.) *)
Theorem C13_concurrent_histories_linearizable : forall es : list (ev op),
  let H := hist (trun step chan_retry (tinit init) es) in
  Proofs.ChannelMore.well_formed op out H /\
  exists L : list (opid * op * out),
    snd (run init (map lin_op L)) = map lin_res L /\
    NoDup (map lin_id L) /\
    (forall i o r, In (i, o, r) L -> In (HInv i o) H) /\
    (forall i o r, In (HRet i o r) H -> In (i, o, r) L) /\
    (forall a oa ra b ob, Proofs.ChannelMore.before (HRet a oa ra) (HInv b ob) H ->
                          In b (map lin_id L) -> Proofs.ChannelMore.before a b (map lin_id L)).
Proof. exact Proofs.ChannelMore.channel_linearizable. Qed.
Print Assumptions C13_concurrent_histories_linearizable.

(* The shared state the threads reach is the state the sequential execution of the witness reaches, so every theorem
   above about `run init ops` is a theorem about the object under concurrent use. *)
Theorem C13_threads_state_is_sequential : forall es : list (ev op),
  let x := trun step chan_retry (tinit init) es in
  run init (map lin_op (lin x)) = (sh x, map lin_res (lin x)).
Proof. exact Proofs.ChannelMore.channel_threads_state. Qed.
Print Assumptions C13_threads_state_is_sequential.

(* ------------------------------------------------------------------------------------------------------------- *)
(* Context cancellation as two events (Model/ChannelThreads.v: XCtxCancel, then the watcher's XWatcherClose)      *)
(* ------------------------------------------------------------------------------------------------------------- *)

(* For every interleaving of context cancellation, the watcher's Close and all other operations: the representation
   invariant (nothing lost, duplicated or reordered), Done closed only if the context is cancelled, the watcher finished
   only if Done is closed. *)
Theorem C13_split_invariant_every_interleaving : forall xops : list xop,
  let x := fst (xrun xinit xops) in
  Proofs.Channel.Inv (base x) /\ (once (base x) = true -> closed (base x) = true) /\
  (wdone x = true -> once (base x) = true).
Proof. exact Proofs.ChannelMore.xrun_inv_init. Qed.
Print Assumptions C13_split_invariant_every_interleaving.

(* Every schedule of the split machine against its atomic reading (XCtxCancel read as OCancel, the watcher's Close
   dropped): same final state except that the atomic model has Done closed as soon as the context is cancelled, and the
   same results position by position except that an explicit Close may return nil where the atomic model says "already
   closed" (C12_channel_split_step_vs_atomic: exactly the Closes that fall between the cancellation and the watcher's
   Close).  So every result of Get, Commit, Rollback, Buffer and of the final drain is the one the atomic model and
   hence (C13_refines_cursor_spec) the cursor specification gives. *)
Theorem C13_split_agrees_with_atomic : forall xops : list xop,
  fst (run init (collapse xops)) = Proofs.ChannelMore.atomic_view (base (fst (xrun xinit xops))) /\
  Proofs.ChannelMore.agree (collapse xops) (visible xops (snd (xrun xinit xops))) (snd (run init (collapse xops))).
Proof. exact Proofs.ChannelMore.split_vs_atomic_init. Qed.
Print Assumptions C13_split_agrees_with_atomic.

(* Nothing is taken from the moment the CONTEXT is cancelled (which is before Done is closed), under every later
   interleaving; every Get and Commit fails. *)
Theorem C13_split_frozen_after_cancel : forall (xops : list xop) (x : xst),
  closed (base x) = true ->
  let s := base x in
  let s' := base (fst (xrun x xops)) in
  closed s' = true /\ taken s' = taken s /\ buf s' = buf s /\ committed s' = committed s /\
  (exists extra, src s' = src s ++ extra /\ sent s' = sent s ++ extra) /\
  Forall2 (fun xo r => xo = XOp OGet \/ xo = XOp OCommit -> r = RErr) xops (snd (xrun x xops)).
Proof. exact Proofs.ChannelMore.x_frozen_after_cancel. Qed.
Print Assumptions C13_split_frozen_after_cancel.

(* "once Done is closed nothing more is taken": Done closed implies context cancelled in every reachable state. *)
Theorem C13_split_done_implies_cancelled : forall xops : list xop,
  done_closed (base (fst (xrun xinit xops))) = true -> closed (base (fst (xrun xinit xops))) = true.
Proof. exact Proofs.ChannelMore.x_done_implies_cancelled. Qed.
Print Assumptions C13_split_done_implies_cancelled.

(* Linearizability with the cancellation and the watcher goroutine as threads of their own (the watcher's call stays
   pending until the context is cancelled): same statement as C13_concurrent_histories_linearizable, w.r.t. `xstep`. *)
Theorem C13_split_concurrent_histories_linearizable : forall es : list (ev xop),
  let H := hist (trun xstep xchan_retry (tinit xinit) es) in
  Proofs.ChannelMore.well_formed xop out H /\
  exists L : list (opid * xop * out),
    snd (xrun xinit (map lin_op L)) = map lin_res L /\
    NoDup (map lin_id L) /\
    (forall i o r, In (i, o, r) L -> In (HInv i o) H) /\
    (forall i o r, In (HRet i o r) H -> In (i, o, r) L) /\
    (forall a oa ra b ob, Proofs.ChannelMore.before (HRet a oa ra) (HInv b ob) H ->
                          In b (map lin_id L) -> Proofs.ChannelMore.before a b (map lin_id L)).
Proof. exact Proofs.ChannelMore.xchannel_linearizable. Qed.
Print Assumptions C13_split_concurrent_histories_linearizable.
