(* C19 — Callable: Call equals a direct call or errors without calling; never panics.
   Statements only; every proof is `exact` of a lemma of Proofs/Callable.v.

   The reflect tables (type universe, Kind, AssignableTo, Elem) are universally quantified; the only thing assumed of
   them is that AssignableTo is reflexive (reflect.directlyAssignable: T == V).  `body` is the user's function: any map
   from the received arguments to values of the declared result types.  `call ... fixed mut` is the model of
   bigbuff.Call + CallArgs / CallResults / CallResultsSlice + callable.Call.

   WHICH CODE.  /repo HEAD contains the fix commits cba04f9 and d98fcef, so
     fixed = true   IS THE CURRENT CODE: the positive theorems below (C19_call_or_error, C19_fixed_is_direct_call_or_error,
                    C19_never_panics, C19_received_arguments) are statements about callable.go as it is now.  The order of
                    the checks in the model's fixed pipeline was compared with callable.go at HEAD line by line (table
                    in the header of Model/Callable.v): resolveArgs length -> per-argument nil/nilable -> AssignableTo ->
                    128 limit; CallResults length -> 128 limit -> per target nil / not ptr / nil ptr / AssignableTo;
                    CallResultsSlice not ptr -> nil ptr -> not slice -> 128 limit -> per result AssignableTo;
                    callable.Call omitted-args test before anything is invoked.
     fixed = false  is HISTORY: the code before cba04f9 (snapshot 271484f), which violated the property.  The theorems
                    C19_nil_refuted and C19_current_panic_classes ("current" in their names dates from before the fixes)
                    record the seven input classes on which THAT code panicked; they are kept as the regression record
                    of finding F1 (known_findings.json) and as sensitivity evidence (the same pipeline with the
                    repairs switched off).
   Out of scope: the `not func` error of callable.go:77-79 (dead for Callables made by NewCallable, which the property's
   "for any function value" quantifies over: NewCallable panics at l.64-69 unless given a non-nil func, and its Type() has
   Kind Func), CallArgsRaw / CallResultsRaw, and foreign implementations of the Callable interface. *)
From Coq Require Import List ZArith Bool Arith.
From BB.Model Require Import Callable.
From BB.Proofs Require Callable.
Import ListNotations.

(* For EVERY type universe, signature (any arity, variadic or not, any parameter / result types), user function and
   list of options (any number of CallArgs / CallResults / CallResultsSlice in any order, each with any list of values:
   untyped nil, typed nil pointers, wrong kinds, wrong lengths): the observable outcome of Call (the current code,
   fixed = true) is
   EITHER  no error, the function invoked exactly once with exactly `expected_args` (one value per given argument of the
           last CallArgs, of the variadic-expanded parameter types, untyped nil as the zero value; no CallArgs = no
           arguments) and exactly `expected_stores` written (the i-th value the direct call returned into the i-th target
           of the last CallResults, or all of them appended, converted to the element type, by CallResultsSlice),
           and this happens exactly when the options are `valid`;
   OR      an error, the function not invoked and no target written, exactly when the options are not `valid`.
   It is never a panic. *)
Theorem C19_call_or_error :
  forall (ty : Type) (kind : ty -> kindT) (assignable : ty -> ty -> bool) (elem : ty -> ty),
  (forall t, assignable t t = true) ->
  forall (sg : sig ty) (body : list (rval ty) -> list (rval ty)) (opts : list (copt ty)),
  (forall a, map rty (body a) = s_out sg) ->
  let o := call ty kind assignable elem true MNone sg body opts in
  (o_res o = ROk /\ o_inv o = [expected_args ty sg opts] /\
   o_sto o = expected_stores ty elem opts (body (expected_args ty sg opts)) /\
   valid ty kind assignable elem sg opts = true) \/
  (exists e, o_res o = RErr e /\ o_inv o = [] /\ o_sto o = [] /\ valid ty kind assignable elem sg opts = false).
Proof. exact Proofs.Callable.call_or_error. Qed.
Print Assumptions C19_call_or_error.

(* The same as one equation: the current code (fixed = true) is the function "if valid then direct call else error". *)
Theorem C19_fixed_is_direct_call_or_error :
  forall (ty : Type) (kind : ty -> kindT) (assignable : ty -> ty -> bool) (elem : ty -> ty),
  (forall t, assignable t t = true) ->
  forall (sg : sig ty) (body : list (rval ty) -> list (rval ty)) (opts : list (copt ty)),
  (forall a, map rty (body a) = s_out sg) ->
  if valid ty kind assignable elem sg opts
  then call ty kind assignable elem true MNone sg body opts =
       mkOut ROk [expected_args ty sg opts] (expected_stores ty elem opts (body (expected_args ty sg opts)))
  else exists e, call ty kind assignable elem true MNone sg body opts = mkOut (RErr e) [] [].
Proof. exact Proofs.Callable.call_fixed_spec. Qed.
Print Assumptions C19_fixed_is_direct_call_or_error.

Theorem C19_never_panics :
  forall (ty : Type) (kind : ty -> kindT) (assignable : ty -> ty -> bool) (elem : ty -> ty),
  (forall t, assignable t t = true) ->
  forall (sg : sig ty) (body : list (rval ty) -> list (rval ty)) (opts : list (copt ty)),
  (forall a, map rty (body a) = s_out sg) ->
  forall p, o_res (call ty kind assignable elem true MNone sg body opts) <> RPanic p.
Proof. exact Proofs.Callable.never_panics. Qed.
Print Assumptions C19_never_panics.

(* "exactly the given arguments (including variadic expansion and nil for nilable parameters)": when the call is valid
   the function receives one value per given argument, of the variadic-expanded parameter types, the i-th carrying the
   i-th argument's identity, or the zero value where an untyped nil was given, which happens only for nilable kinds. *)
Theorem C19_received_arguments :
  forall (ty : Type) (kind : ty -> kindT) (assignable : ty -> ty -> bool) (elem : ty -> ty),
  forall (sg : sig ty) (opts : list (copt ty)) (a : list (val ty)),
  valid ty kind assignable elem sg opts = true -> last_args opts None = Some a ->
  length (expected_args ty sg opts) = length a /\
  map rty (expected_args ty sg opts) = param_types sg (length a) /\
  Forall2 (fun v r => match vty v with
                      | None => rsrc r = SZeroOf (rty r) /\ nilable (kind (rty r)) = true
                      | Some t => rsrc r = SVal (vid v) /\ assignable t (rty r) = true
                      end) a (expected_args ty sg opts).
Proof. exact Proofs.Callable.expected_args_shape. Qed.
Print Assumptions C19_received_arguments.

(* ---- HISTORY: the code before cba04f9 (fixed = false) ---- *)
(* There are a (reflexive) universe, a signature, a well-typed function and arguments on which the code BEFORE cba04f9
   panicked: Call(f, CallArgs(nil)) for f : func(p) with p a pointer to int (nil dereference of reflect.TypeOf(nil)).
   On the current code the same call passes nil (C19_call_or_error; valid because a pointer kind is nilable). *)
Theorem C19_nil_refuted :
  exists (sg : sig nat) (body : list (rval nat) -> list (rval nat)) (opts : list (copt nat)),
  (forall a, map rty (body a) = s_out sg) /\
  exists p, o_res (call nat ex_kind ex_assignable ex_elem false MNone sg body opts) = RPanic p.
Proof. exact Proofs.Callable.nil_refuted. Qed.
Print Assumptions C19_nil_refuted.

(* Every input class on which the code BEFORE cba04f9 / d98fcef panicked on its own account (each witness is valid Go;
   `C` below is the fixed = false pipeline; on the current code each of them is an error or a valid call, by
   C19_never_panics):
   untyped nil argument; untyped nil inside a variadic tail; untyped nil result target; CallArgs omitted for a function
   with a mandatory parameter; more than 128 arguments to a variadic function (reflect.FuncOf limit); a function with
   more than 128 results called with CallResultsSlice or with CallResults (the same limit, results thunk). *)
Theorem C19_current_panic_classes :
  let C := call nat ex_kind ex_assignable ex_elem false MNone in
  let nil_ := mkVal None false 1%Z in
  let int_ id := mkVal (Some 0) false id in
  Proofs.Callable.is_panic (C (mkSig [2] None []) (fun _ => []) [OArgs [nil_]]) = true /\
  Proofs.Callable.is_panic (C (mkSig [0] (Some 2) []) (fun _ => []) [OArgs [int_ 7%Z; nil_]]) = true /\
  Proofs.Callable.is_panic (C (mkSig [] None [0]) (fun _ => [mkR 0 (SVal 9)]) [OResults [nil_]]) = true /\
  Proofs.Callable.is_panic (C (mkSig [0] None []) (fun _ => []) []) = true /\
  Proofs.Callable.is_panic (C (mkSig [] (Some 0) []) (fun _ => []) [OArgs (repeat (int_ 5%Z) 129)]) = true /\
  Proofs.Callable.is_panic (C (mkSig [] None (repeat 0 129)) (fun _ => repeat (mkR 0 (SVal 9)) 129)
                              [OResultsSlice (mkVal (Some 5) false 3%Z)]) = true /\
  Proofs.Callable.is_panic (C (mkSig [] None (repeat 0 129)) (fun _ => repeat (mkR 0 (SVal 9)) 129)
                              [OResults (repeat (mkVal (Some 2) false 3%Z) 129)]) = true.
Proof. exact Proofs.Callable.current_panic_classes. Qed.
Print Assumptions C19_current_panic_classes.

(* ---- sensitivity: each validation is needed (seeded defects on the current code, fixed = true) ---- *)
(* resolveArgs without the AssignableTo check: func(int) called with a string panics inside the argument thunk. *)
Theorem C19_no_assign_check_refuted :
  call nat ex_kind ex_assignable ex_elem true MNoAssignCheck (mkSig [0] None []) (fun _ => [])
       [OArgs [mkVal (Some 1) false 4%Z]]
  = mkOut (RPanic PSetNotAssignable) [] [].
Proof. exact Proofs.Callable.no_assign_check_refuted. Qed.
Print Assumptions C19_no_assign_check_refuted.

(* CallResults without the IsNil check: the function IS invoked and then the store through the nil pointer panics. *)
Theorem C19_no_nilptr_check_refuted :
  call nat ex_kind ex_assignable ex_elem true MNoNilPtrCheck (mkSig [] None [0]) (fun _ => [mkR 0 (SVal 9)])
       [OResults [mkVal (Some 2) true 3%Z]]
  = mkOut (RPanic PSetZeroValue) [[]] [].
Proof. exact Proofs.Callable.no_nilptr_check_refuted. Qed.
Print Assumptions C19_no_nilptr_check_refuted.

(* CallResults without the length check: too few targets panic (index out of range); a surplus target is silently
   accepted although the options are not valid. *)
Theorem C19_no_reslen_check_refuted :
  call nat ex_kind ex_assignable ex_elem true MNoResLenCheck (mkSig [] None [0; 0])
       (fun _ => [mkR 0 (SVal 8); mkR 0 (SVal 9)]) [OResults [mkVal (Some 2) false 3%Z]]
  = mkOut (RPanic PIndex) [] [] /\
  call nat ex_kind ex_assignable ex_elem true MNoResLenCheck (mkSig [] None [0]) (fun _ => [mkR 0 (SVal 9)])
       [OResults [mkVal (Some 2) false 3%Z; mkVal (Some 2) false 4%Z]]
  = mkOut ROk [[]] [SSet 3%Z (mkR 0 (SVal 9))] /\
  valid nat ex_kind ex_assignable ex_elem (mkSig [] None [0])
        [OResults [mkVal (Some 2) false 3%Z; mkVal (Some 2) false 4%Z]] = false.
Proof. exact Proofs.Callable.no_reslen_check_refuted. Qed.
Print Assumptions C19_no_reslen_check_refuted.
