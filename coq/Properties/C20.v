(* C20 — LinearAttempt: at most count values, first immediately, always closed.
   Statements only; every proof is `exact` of a lemma of Proofs/Attempt.v or Proofs/AttemptMore.v.
   Model/Attempt.v: `faithful n` is the code as it is (capacity 1, all defect flags off) called with count = n;
   `run c init sched` executes an arbitrary schedule of the caller (LCall), the producer goroutine (LProd, the flag
   resolves a select with both cases ready), the ticker (LTick d: time advances by d, a tick is offered on ticker.C and
   DROPPED if one is pending), the canceller (LCancel, at any time, also before the call) and the receiver (LRecv,
   enabled only when it would not block: prompt, slow and absent receivers are schedules). A disabled pick is a stutter,
   so `forall sched` is: every count, every receiver pace, every instant of cancellation, every select outcome. *)
From Coq Require Import List Arith Bool.
From BB.Model Require Import Attempt.
From BB.Proofs Require Attempt AttemptMore.
Import ListNotations.

(* "yields its first value immediately": in the state in which LinearAttempt returns, the channel holds exactly the first
   value — or the context was already cancelled and the channel is closed and empty, with no goroutine started. *)
Theorem C20_first_value_present_on_return : forall n sched s' o, 1 <= n ->
  let c := faithful n in let s := run c init sched in
  cpc s <> CRet -> step c s LCall = Some (s', o) -> cpc s' = CRet ->
  (exists t, chanq s' = [t] /\ sent s' = [t] /\ recvd s' = []) \/
  (cancelled s' = true /\ closed s' = true /\ chanq s' = [] /\ sent s' = [] /\ gpc s' = GNone).
Proof. exact Proofs.Attempt.f_first_on_return. Qed.
Print Assumptions C20_first_value_present_on_return.

(* ... and the first receive never blocks, however late it happens. *)
Theorem C20_first_receive_never_blocks : forall n sched, 1 <= n ->
  let c := faithful n in let s := run c init sched in
  cpc s = CRet -> recvd s = [] ->
  (exists v rest, chanq s = v :: rest /\ sent s = v :: rest) \/
  (chanq s = [] /\ sent s = [] /\ closed s = true /\ cancelled s = true /\ gpc s = GNone).
Proof. exact Proofs.Attempt.f_first_available. Qed.
Print Assumptions C20_first_receive_never_blocks.

(* "already closed and empty if the context was cancelled beforehand": whatever happened before the call and whatever
   happens after it, nothing is ever sent, the channel is closed, and no producer exists. *)
Theorem C20_precancelled_closed_and_empty : forall n pre post_, 1 <= n ->
  let c := faithful n in let s0 := run c init pre in
  cpc s0 = CEntry -> cancelled s0 = true ->
  let s := run c s0 (LCall :: post_) in
  cpc s = CRet /\ closed s = true /\ sent s = [] /\ chanq s = [] /\ recvd s = [] /\ gpc s = GNone.
Proof. exact Proofs.Attempt.f_precancelled. Qed.
Print Assumptions C20_precancelled_closed_and_empty.

(* "never yields more than count values in total" *)
Theorem C20_at_most_count : forall n sched, 1 <= n ->
  let s := run (faithful n) init sched in
  length (sent s) <= n /\ sent s = recvd s ++ chanq s /\ length (recvd s) <= n.
Proof. exact Proofs.Attempt.f_at_most_count. Qed.
Print Assumptions C20_at_most_count.

(* "never has more than one value buffered however slow the receiver is" *)
Theorem C20_buffer_le_1 : forall n sched, 1 <= n -> length (chanq (run (faithful n) init sched)) <= 1.
Proof. exact Proofs.Attempt.f_buffer_le_1. Qed.
Print Assumptions C20_buffer_le_1.

(* "yields non-decreasing timestamps": the values are the inline time.Now() followed by the ticker's own timestamps in the
   order the ticker produced them.  Assumption (written into LTick): the ticker's timestamps are non-decreasing and not
   earlier than the time of the call.  Go 1.23's time.Ticker computes a tick's value as Now()-delta from two clock readings,
   so for periods below that jitter (microseconds) a raw Ticker already yields decreasing pairs (measured 27 of 20000 at
   1us, none at >= 200us): the harness compares timestamps only for periods >= 1ms. *)
Theorem C20_timestamps_nondecreasing : forall n sched, 1 <= n ->
  let s := run (faithful n) init sched in
  (forall a b, a <= b -> b < length (sent s) -> nth a (sent s) 0 <= nth b (sent s) 0) /\
  (forall a b, a <= b -> b < length (recvd s) -> nth a (recvd s) 0 <= nth b (recvd s) 0).
Proof. exact Proofs.Attempt.f_nondecreasing. Qed.
Print Assumptions C20_timestamps_nondecreasing.

(* "is always closed": in every reachable state in which neither the caller, nor the producer, nor the ticker can move
   (a producer waiting for the next tick is NOT such a state: an armed ticker can always fire), LinearAttempt has returned,
   the producer has exited or was never started, the ticker is stopped, the channel is closed, and either all count values
   were sent or the context was cancelled.  No deadlock of the library is reachable. *)
Theorem C20_always_closed : forall n sched, 1 <= n ->
  let c := faithful n in let s := run c init sched in
  Proofs.Attempt.lib_quiet c s ->
  cpc s = CRet /\ alive s = false /\ armed s = false /\ closed s = true /\ (length (sent s) = n \/ cancelled s = true).
Proof. exact Proofs.Attempt.f_terminal_closed. Qed.
Print Assumptions C20_always_closed.

(* closed only "after the count-th value, or after the context is cancelled"; closed implies the producer is gone *)
Theorem C20_closed_only_after_count_or_cancel : forall n sched, 1 <= n ->
  let s := run (faithful n) init sched in
  closed s = true -> alive s = false /\ cpc s = CRet /\ (cancelled s = true \/ length (sent s) = n).
Proof. exact Proofs.Attempt.f_closed_only_when_done. Qed.
Print Assumptions C20_closed_only_after_count_or_cancel.

(* "after cancellation at most one further tick is forwarded, so a receiver can obtain at most two more values":
   sac = sends on the channel after the cancel step, rac = receives after the cancel step *)
Theorem C20_after_cancel : forall n sched, 1 <= n ->
  let s := run (faithful n) init sched in
  sac s <= 1 /\ rac s <= 2 /\ (cancelled s = false -> sac s = 0 /\ rac s = 0).
Proof. exact Proofs.Attempt.f_after_cancel. Qed.
Print Assumptions C20_after_cancel.

(* The same clause WITHOUT ghost counters, over the observable lists [sent] / [recvd] (every value ever sent on /
   received from the channel, in order): split any schedule at a cancellation - s0 is the state right before it (also a
   state before the call, or one already cancelled: the LCancel is then a stutter), s1 any state after it, whatever the
   ticker, the producer and the receiver did in between.  From s0 to s1 at most ONE more value is sent, at most TWO more
   values are received, and whatever is received from then on had already been sent at s0, but for that one value.
   Both bounds are attained (Proofs.AttemptMore.after_cancel_lists_tight: one value buffered, one in flight). *)
Theorem C20_after_cancel_observable : forall n pre post_, 1 <= n ->
  let c := faithful n in
  let s0 := run c init pre in
  let s1 := run c s0 (LCancel :: post_) in
  length (sent s1) <= length (sent s0) + 1 /\
  length (recvd s1) <= length (recvd s0) + 2 /\
  length (recvd s1) <= length (sent s0) + 1.
Proof. exact Proofs.AttemptMore.f_after_cancel_lists. Qed.
Print Assumptions C20_after_cancel_observable.

(* "the producing goroutine always exits", "closed promptly after the context is cancelled": once the context is cancelled
   or the count-th value has been sent, a live producer is never blocked (whichever select case is preferred) and each of
   its steps strictly decreases rank <= 6 ... *)
Theorem C20_producer_progress_when_finished : forall n sched pd, 1 <= n ->
  let c := faithful n in let s := run c init sched in
  alive s = true -> (cancelled s = true \/ length (sent s) = n) ->
  exists s' o, step c s (LProd pd) = Some (s', o) /\ rank (gpc s') < rank (gpc s).
Proof. exact Proofs.Attempt.f_finished_progress. Qed.
Print Assumptions C20_producer_progress_when_finished.

(* ... hence, whatever the ticker, the canceller and the receiver (prompt, slow, absent) do meanwhile, after at most six
   steps of the producer it has exited, the ticker is stopped and the channel is closed. *)
Theorem C20_producer_exits : forall n pre more, 1 <= n ->
  let c := faithful n in let s := run c init pre in
  cpc s = CRet -> (cancelled s = true \/ length (sent s) = n) -> 6 <= nprod more ->
  let s' := run c s more in alive s' = false /\ closed s' = true /\ armed s' = false.
Proof. exact Proofs.Attempt.f_producer_exits. Qed.
Print Assumptions C20_producer_exits.

(* the monitor the harness evaluates on each complete use of a real channel (F attempt_obs records) holds of every model
   run in which the receiver has observed the close *)
Theorem C20_observation_monitor_sound : forall n sched, 1 <= n ->
  let c := faithful n in let s := run c init sched in
  rclosed s = true -> obs_of_state c s = true.
Proof. exact Proofs.Attempt.obs_sound. Qed.
Print Assumptions C20_observation_monitor_sound.

(* ---- sensitivity: the same step function with one realistic defect switched on ---- *)

(* `i++` also when the send was dropped: a merely slow receiver sees the channel closed after ONE value although
   count = 3 and the context was never cancelled (C20_always_closed / C20_closed_only_after_count_or_cancel fail) *)
Theorem C20_countdrop_refuted :
  exists sched, let c := Proofs.Attempt.variant 1 3 true false false false in let s := run c init sched in
    Proofs.Attempt.lib_quiet c s /\ closed s = true /\ cancelled s = false /\ length (sent s) = 1 /\
    length (sent s) < count c.
Proof. exact Proofs.Attempt.countdrop_refuted. Qed.
Print Assumptions C20_countdrop_refuted.

(* no ctx.Err() re-check after the tick: two sends and three receives after the cancellation (C20_after_cancel fails) *)
Theorem C20_norecheck_refuted :
  exists sched, let c := Proofs.Attempt.variant 1 5 false true false false in let s := run c init sched in
    sac s = 2 /\ rac s = 3.
Proof. exact Proofs.Attempt.norecheck_refuted. Qed.
Print Assumptions C20_norecheck_refuted.

(* the same on the observable lists: two more values sent and three more received after the cancellation *)
Theorem C20_norecheck_observable_refuted :
  exists pre post_, let c := Proofs.Attempt.variant 1 5 false true false false in
    let s0 := run c init pre in let s1 := run c s0 (LCancel :: post_) in
    length (sent s1) = length (sent s0) + 2 /\ length (recvd s1) = length (recvd s0) + 3.
Proof. exact Proofs.AttemptMore.norecheck_lists_refuted. Qed.
Print Assumptions C20_norecheck_observable_refuted.

(* blocking send instead of select/default: after the cancellation the producer is alive and blocked, and stays so for every
   continuation without a receive — an absent receiver leaks the goroutine and the channel is never closed *)
Theorem C20_blocksend_refuted :
  exists sched, let c := Proofs.Attempt.variant 1 2 false false true false in let s := run c init sched in
    cancelled s = true /\ alive s = true /\ (forall pd, step c s (LProd pd) = None) /\
    forall more, (forall l, In l more -> l <> LRecv) -> alive (run c s more) = true /\ closed (run c s more) = false.
Proof. exact Proofs.Attempt.blocksend_refuted. Qed.
Print Assumptions C20_blocksend_refuted.

(* close(c) missing on the count = 1 path: everything has stopped and the channel is open *)
Theorem C20_noclose1_refuted :
  exists sched, let c := Proofs.Attempt.variant 1 1 false false false true in let s := run c init sched in
    Proofs.Attempt.lib_quiet c s /\ cpc s = CRet /\ closed s = false /\ length (sent s) = count c.
Proof. exact Proofs.Attempt.noclose1_refuted. Qed.
Print Assumptions C20_noclose1_refuted.

(* capacity 2: two values buffered *)
Theorem C20_cap2_refuted :
  exists sched, let c := Proofs.Attempt.variant 2 3 false false false false in let s := run c init sched in
    length (chanq s) = 2.
Proof. exact Proofs.Attempt.cap2_refuted. Qed.
Print Assumptions C20_cap2_refuted.
