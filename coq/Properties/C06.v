(* C06 — ChanPubSub: each message reaches every standing subscriber once, in one order.

   Model: Model/PubSubAbs.v (see Properties/C07.v for its description).  Subscribers are ANONYMOUS there (the state holds
   the number of subscriber goroutines at each program point, with the ghost split "owed a copy of the running round / not
   owed"), so the clauses about counts, about WHO may take a copy (only a subscriber counted by the running Send), about the
   acknowledgement barrier, serialisation and the zero-subscriber return are proved in full, for any number of Sends and
   subscribers and every schedule.  The clauses that need subscriber identities are stated on the tagged extension
   Model/PubSubTag.v (ONE subscription tracked individually) and, for "n DISTINCT subscriptions", on the indexed model
   Model/PubSubIdx.v (EVERY subscription tracked individually): C06_every_index_is_a_tagged_run proves that whichever index one
   looks at, its view of an indexed run is a run of the tagged model, so the symmetry step "what holds of the tagged subscription
   holds of each subscription" is a theorem and not a meta-argument; C06_send_returns_number_of_distinct_receivers counts the
   indices.  The C06_split_* theorems restate the count/steal clauses on the finer-grained Model/PubSubSplit.v (subscribers.Load
   and ping.Add as separate steps, see Properties/C07.v).
   Statements only. *)
From Coq Require Import List Arith Bool.
From BB.Model Require Import PubSubAbs PubSubTag PubSubSplit PubSubIdx.
From BB.Proofs Require PubSubAbs PubSubC06 PubSubTag PubSubMore PubSubSplit PubSubIdx.
Import ListNotations.

(* No copy of a message is ever taken by a subscriber that the running Send did not count when it read `subscribers`
   under the write lock (a late joiner cannot steal a slow subscriber's copy) ... *)
Theorem C06_no_steal : forall senders subscribers sched,
  v (run (init senders subscribers) sched) steal = 0.
Proof. exact Proofs.PubSubC06.no_steal_run. Qed.
Print Assumptions C06_no_steal.

(* ... because the step "a not-counted subscriber receives" is not enabled in any reachable state: from the moment Send has
   counted until it has collected the caster (pcs S5..S7) there is NO subscribed-but-not-counted idle subscriber, nor one
   spinning in Add(-1): new subscriptions are excluded by the write lock. *)
Theorem C06_uncounted_receive_never_enabled : forall senders subscribers sched,
  step (run (init senders subscribers) sched) PRecvN = None.
Proof. exact Proofs.PubSubC06.uncounted_receive_disabled. Qed.
Print Assumptions C06_uncounted_receive_never_enabled.

Theorem C06_delivery_only_to_counted : forall senders subscribers sched,
  let s := run (init senders subscribers) sched in
  (sp s = S5 \/ sp s = S6 \/ sp s = S7) -> v s b0n = 0 /\ v s n1n = 0.
Proof. exact Proofs.PubSubC06.delivery_no_unowed_run. Qed.
Print Assumptions C06_delivery_only_to_counted.

(* Exact count and acknowledgement barrier: when Send is about to return n (S9), exactly n copies were taken in this round
   (ghost rcv) and the n receivers are all inside Wait; it then publishes pongN = n and (S10) returns only when each of
   them has consumed its pong (pongN = number still inside Wait).
   "... by n DISTINCT subscriptions": C06_send_returns_number_of_distinct_receivers and C06_message_received_exactly_n_times
   below, on the indexed model. *)
Theorem C06_send_count_exact : forall senders subscribers sched,
  let s := run (init senders subscribers) sched in
  (sp s = S9 -> v s sent = v s rcv /\ v s sent = v s b1) /\
  (sp s = S10 -> v s sent = v s rcv /\ v s pongN = v s b1).
Proof. exact Proofs.PubSubC06.send_count_is_receipts. Qed.
Print Assumptions C06_send_count_exact.

(* Concurrent Sends are serialised: the model has a single sender pc — the holder of sendMu (this is structural: `sq`
   counts the Sends queued on sendMu, and only PSendLock, enabled only when nobody holds it, makes one of them the running
   Send); nothing but the sender's own steps moves it.  Hence rounds are totally ordered, and this order extends every
   sender's program order because a sender's next Send is invoked after its previous one returned. *)
Theorem C06_sends_serialised : forall s s', step s PSendLock = Some s' ->
  sp s = SNone /\ sp s' = S2 /\ v s' sq = v s sq - 1 /\ 0 < v s sq.
Proof. exact Proofs.PubSubC06.sends_serialised. Qed.
Print Assumptions C06_sends_serialised.

Theorem C06_running_send_moves_only_by_itself : forall s p s', step s p = Some s' ->
  p <> PS -> p <> PSendLock -> sp s' = sp s.
Proof. exact Proofs.PubSubC06.sender_pc_changes_only_by_sender. Qed.
Print Assumptions C06_running_send_moves_only_by_itself.

(* Send returns 0 without blocking when nobody is subscribed: on the fast path it is a single always-enabled step that
   touches neither sendMu nor sendingMu nor the caster; on the slow path (the last subscriber left between the test and the
   write lock) it reads 0 under the lock and returns, again without touching the caster or pongN.  (That the write lock is
   obtained at all is C07_deadlock_free.) *)
Theorem C06_zero_fast : forall s, 0 < v s nsend -> v s subs = 0 ->
  exists s', step s PSendStart = Some s' /\ sp s' = sp s /\ v s' sq = v s sq /\ v s' nsend = v s nsend - 1 /\
             v s' w = v s w /\ v s' wp = v s wp /\ v s' cnt = v s cnt /\ v s' pongN = v s pongN.
Proof. exact Proofs.PubSubC06.zero_fast_return. Qed.
Print Assumptions C06_zero_fast.

Theorem C06_zero_slow : forall s, sp s = S4 -> v s subs = 0 ->
  exists s', step s PS = Some s' /\ sp s' = SNone /\ v s' w = 0 /\ v s' cnt = v s cnt /\ v s' armed = v s armed /\
             v s' pongN = v s pongN.
Proof. exact Proofs.PubSubC06.zero_slow_return. Qed.
Print Assumptions C06_zero_slow.

(* Mutation: if Send does not exclude subscribes while it counts and delivers (same step function, flag fl_wlock = false),
   a subscriber that joined after the count takes a copy. *)
Theorem C06_send_without_write_lock_refuted : exists sched,
  v (run_gen Proofs.PubSubAbs.no_wlock_flags (init 1 2) sched) steal = 1.
Proof. exact Proofs.PubSubAbs.no_wlock_refuted. Qed.
Print Assumptions C06_send_without_write_lock_refuted.

(* ---- identity clauses, on the tagged extension ------------------------------------------------------------------------ *)

(* The base of every tagged run is a run of the counter abstraction (so all theorems above and those of C07 hold of it), and
   tagging restricts nothing: whenever the counter abstraction can take a pick, an anonymous thread or the tagged one can. *)
Theorem C06_tagged_run_is_abstract_run : forall sched t,
  exists sched', base (trun t sched) = run (base t) sched'.
Proof. exact Proofs.PubSubTag.tagged_base_is_abstract_run. Qed.
Print Assumptions C06_tagged_run_is_abstract_run.

Theorem C06_tagging_loses_no_behaviour : forall t p b', step (base t) p = Some b' ->
  exists q t', pick_of q = p /\ tstep t q = Some t' /\ base t' = b'.
Proof. exact Proofs.PubSubTag.tagging_is_complete. Qed.
Print Assumptions C06_tagging_loses_no_behaviour.

(* All subscriptions observe ONE order (the rounds, numbered in sendMu order), each seeing a CONTIGUOUS run of it: the rounds
   a subscription received, oldest first, are consecutive numbers a, a+1, ..., a+m-1. *)
Theorem C06_contiguous_run_of_one_order : forall senders others sched,
  let t := trun (tinit senders others) sched in
  exists a, rev (tlog t) = seq a (length (tlog t)).
Proof. exact Proofs.PubSubTag.receipts_are_contiguous_run. Qed.
Print Assumptions C06_contiguous_run_of_one_order.

(* No subscription receives a message twice. *)
Theorem C06_no_duplicate : forall senders others sched,
  NoDup (tlog (trun (tinit senders others) sched)).
Proof. exact Proofs.PubSubTag.receipts_no_duplicate. Qed.
Print Assumptions C06_no_duplicate.

(* No subscription receives a message whose Send had already returned when the subscription was made: it receives only
   rounds counted AFTER it incremented `subscribers` (tsub < n), and only rounds that exist (n <= round). *)
Theorem C06_no_stale : forall senders others sched,
  let t := trun (tinit senders others) sched in
  Forall (fun n => tsub t < n <= round t) (tlog t).
Proof. exact Proofs.PubSubTag.receipts_not_stale. Qed.
Print Assumptions C06_no_stale.

(* Every receipt is a receipt of the RUNNING round, by a subscription that this Send counted, while Send is delivering. *)
Theorem C06_receipt_only_when_counted : forall senders others sched p t',
  let t := trun (tinit senders others) sched in
  tstep t (Tag p) = Some t' -> is_recv p = true ->
  towed t = true /\ tp t = b0o /\ sp (base t) = S6 /\ tlog t' = round t :: tlog t.
Proof. exact Proofs.PubSubTag.receipt_only_when_counted. Qed.
Print Assumptions C06_receipt_only_when_counted.

(* Every subscription established before the Send counted (hence before any Send that began later) and not withdrawn when
   the Send is past delivery is among the receivers: counted + still subscribed (Add(-1) not invoked) at S8/S9/S10 implies
   the newest receipt is this round. *)
Theorem C06_standing_included : forall senders others sched,
  let t := trun (tinit senders others) sched in
  (sp (base t) = S8 \/ sp (base t) = S9 \/ sp (base t) = S10) ->
  towed t = true -> standing (tp t) = true ->
  hd_error (tlog t) = Some (round t).
Proof. exact Proofs.PubSubTag.standing_included. Qed.
Print Assumptions C06_standing_included.

Theorem C06_counted_during_delivery : forall senders others sched,
  let t := trun (tinit senders others) sched in
  (sp (base t) = S5 \/ sp (base t) = S6 \/ sp (base t) = S7) -> standing (tp t) = true ->
  towed t = true /\ (tp t = b0o \/ (tp t = b1 /\ hd_error (tlog t) = Some (round t))).
Proof. exact Proofs.PubSubTag.counted_during_delivery. Qed.
Print Assumptions C06_counted_during_delivery.

(* Mutation on the tagged model: without the write lock, Send is about to return 1 although the subscription it counted,
   still idle and subscribed, has received nothing (a late joiner took its copy). *)
Theorem C06_standing_included_without_write_lock_refuted : exists sched,
  let t := trun_gen Proofs.PubSubAbs.no_wlock_flags (tinit 1 1) sched in
  sp (base t) = S9 /\ v (base t) sent = 1 /\ towed t = true /\ standing (tp t) = true /\ tlog t = [].
Proof. exact Proofs.PubSubTag.standing_included_without_wlock_refuted. Qed.
Print Assumptions C06_standing_included_without_write_lock_refuted.

(* ---- "established before the Send" without a ghost hypothesis ---------------------------------------------------------------- *)

(* C06_standing_included assumes [towed t = true] (a ghost flag: "the running Send counted this subscription").  That flag is
   derived here from the two history counters of the model: [tsub t] = value of [round] when the subscription incremented
   `subscribers`, [round t] = number of Sends that have taken their count.  A subscription whose increment precedes the latest
   count and which has not invoked Add(-1) WAS counted by it ... *)
Theorem C06_established_is_counted : forall senders others sched,
  let t := trun (tinit senders others) sched in
  standing (tp t) = true -> tsub t < round t -> towed t = true.
Proof. exact Proofs.PubSubMore.established_is_counted. Qed.
Print Assumptions C06_established_is_counted.

(* ... hence: every subscription established before the Send took its count (a fortiori before a Send that began later) and
   not withdrawn when that Send is past delivery has this Send's message as its newest receipt. *)
Theorem C06_established_included : forall senders others sched,
  let t := trun (tinit senders others) sched in
  (sp (base t) = S8 \/ sp (base t) = S9 \/ sp (base t) = S10) ->
  standing (tp t) = true -> tsub t < round t ->
  hd_error (tlog t) = Some (round t).
Proof. exact Proofs.PubSubMore.established_included. Qed.
Print Assumptions C06_established_included.

(* The same with no ghost at all in the hypotheses, over a schedule cut in two: after [pre] the subscription is established
   (Add(+1) returned, Add(-1) not invoked); in [post] at least one Send takes its count; at the end that Send is past delivery
   and the subscription has still not invoked Add(-1).  Then its newest receipt is that Send's message. *)
Theorem C06_established_before_count_included : forall senders others pre post,
  let t1 := trun (tinit senders others) pre in
  let t2 := trun t1 post in
  standing (tp t1) = true ->
  round t1 < round t2 ->
  (sp (base t2) = S8 \/ sp (base t2) = S9 \/ sp (base t2) = S10) ->
  standing (tp t2) = true ->
  hd_error (tlog t2) = Some (round t2).
Proof. exact Proofs.PubSubMore.established_before_count_included. Qed.
Print Assumptions C06_established_before_count_included.

(* During delivery every standing subscription was established before this count, and is waiting for its copy or inside Wait
   with it. *)
Theorem C06_established_counted_during_delivery : forall senders others sched,
  let t := trun (tinit senders others) sched in
  (sp (base t) = S5 \/ sp (base t) = S6 \/ sp (base t) = S7) -> standing (tp t) = true ->
  tsub t < round t /\ (tp t = b0o \/ (tp t = b1 /\ hd_error (tlog t) = Some (round t))).
Proof. exact Proofs.PubSubMore.established_counted_during_delivery. Qed.
Print Assumptions C06_established_counted_during_delivery.

(* The fast path is correct: when `subscribers` reads 0 nobody is subscribed — no goroutine is between its increment and its
   decrement of `subscribers`, so a Send that returns 0 on that reading misses no standing subscription. *)
Theorem C06_zero_subscribers_nobody_subscribed : forall s, Proofs.PubSubAbs.Inv s -> v s subs = 0 ->
  v s u2 = 0 /\ v s b0o = 0 /\ v s b0n = 0 /\ v s b1 = 0 /\ v s n1o = 0 /\ v s n1n = 0 /\
  v s n2ko = 0 /\ v s n2kn = 0 /\ v s n2fo = 0 /\ v s n2fn = 0.
Proof. exact Proofs.PubSubMore.zero_subscribers_nobody_subscribed. Qed.
Print Assumptions C06_zero_subscribers_nobody_subscribed.

Theorem C06_zero_subscribers_no_standing_subscriber : forall senders subscribers sched,
  let s := run (init senders subscribers) sched in
  v s subs = 0 -> v s b0o = 0 /\ v s b0n = 0 /\ v s b1 = 0.
Proof. exact Proofs.PubSubMore.zero_subscribers_nobody_subscribed_run. Qed.
Print Assumptions C06_zero_subscribers_no_standing_subscriber.

Theorem C06_zero_subscribers_not_standing : forall senders others sched,
  let t := trun (tinit senders others) sched in
  v (base t) subs = 0 -> standing (tp t) = false.
Proof. exact Proofs.PubSubMore.zero_subscribers_not_standing. Qed.
Print Assumptions C06_zero_subscribers_not_standing.

(* ---- finer granularity (Model/PubSubSplit.v: subscribers.Load / ping.Add, arming Load / CAS, final Load / CAS split) -------- *)

(* From the Load of `subscribers` (X4b) until the caster word is reset there is no subscribed-but-not-counted subscriber, and
   the step "a not-counted subscriber receives" is never enabled: the count read at X4a is still exact when it is used. *)
Theorem C06_split_delivery_only_to_counted : forall senders subscribers sched,
  let s := xrun (xinit senders subscribers) sched in
  Proofs.PubSubSplit.delivering (xp s) = true -> xv s b0n = 0 /\ xv s n1n = 0.
Proof. exact Proofs.PubSubSplit.split_delivery_only_to_counted. Qed.
Print Assumptions C06_split_delivery_only_to_counted.

Theorem C06_split_uncounted_receive_never_enabled : forall senders subscribers sched,
  xstep (xrun (xinit senders subscribers) sched) PRecvN = None.
Proof. exact Proofs.PubSubSplit.split_uncounted_receive_never_enabled. Qed.
Print Assumptions C06_split_uncounted_receive_never_enabled.

Theorem C06_split_send_count_exact : forall senders subscribers sched,
  let s := xrun (xinit senders subscribers) sched in
  (xp s = X9 -> xv s sent = xv s rcv /\ xv s sent = xv s b1) /\
  (xp s = X10 -> xv s sent = xv s rcv /\ xv s pongN = xv s b1).
Proof. exact Proofs.PubSubSplit.split_send_count_is_receipts. Qed.
Print Assumptions C06_split_send_count_exact.

(* The Load/Add window is real: without the write lock a subscriber joins between subscribers.Load and ping.Add, the count
   added to the caster is stale (l4 = 1, subscribers = 2) and the newcomer takes the counted subscriber's copy. *)
Theorem C06_split_count_window_without_write_lock_refuted : exists sched,
  let s := xrun_gen Proofs.PubSubAbs.no_wlock_flags (xinit 1 2) sched in
  xv s steal = 1 /\ l4 s = 1 /\ xv s subs = 2.
Proof. exact Proofs.PubSubSplit.split_count_window_without_wlock_refuted. Qed.
Print Assumptions C06_split_count_window_without_write_lock_refuted.

(* ---- n DISTINCT subscriptions: the indexed model (Model/PubSubIdx.v) ---------------------------------------------------------- *)

(* THE SYMMETRY STEP AS A THEOREM.  In the indexed model every subscriber i has its own program point and receipt log.  For
   every index i < S others, the view of an indexed run (any schedule) from i is a run of the tagged model with i as the tagged
   subscriber and the other subscribers anonymous; the PubSubAbs counters count the indices.  Hence every C06 theorem about
   "the tagged subscription" holds of each subscription (the C06_idx_* instances below). *)
Theorem C06_every_index_is_a_tagged_run : forall senders others sched i, i < S others ->
  Proofs.PubSubIdx.CountInv (nrun (ninit senders (S others)) sched) /\
  length (nsubs (nrun (ninit senders (S others)) sched)) = S others /\
  exists tsched, view i (nrun (ninit senders (S others)) sched) = Some (trun (tinit senders others) tsched).
Proof. exact Proofs.PubSubIdx.every_index_is_a_tagged_run. Qed.
Print Assumptions C06_every_index_is_a_tagged_run.

(* The indexed model is the counter abstraction with names: its base runs are PubSubAbs runs, and from a state whose counters
   count the indices every PubSubAbs step is the step of some index or of the sender. *)
Theorem C06_indexed_run_is_abstract_run : forall sched s,
  exists sched', nbase (nrun s sched) = run (nbase s) sched'.
Proof. exact Proofs.PubSubIdx.indexed_base_is_abstract_run. Qed.
Print Assumptions C06_indexed_run_is_abstract_run.

Theorem C06_indexing_loses_no_behaviour : forall s p b', Proofs.PubSubIdx.CountInv s -> step (nbase s) p = Some b' ->
  exists q s', nstep s q = Some s' /\ nbase s' = b' /\ p = match q with Sender p | Sub _ p => p end.
Proof. exact Proofs.PubSubIdx.indexing_is_complete. Qed.
Print Assumptions C06_indexing_loses_no_behaviour.

(* For every Send that returns n: when it is about to publish the pong count (S9) and while it waits for the pongs (S10, after
   which it returns n), exactly n DISTINCT subscriber indices hold a receipt of this Send's round ... *)
Theorem C06_send_returns_number_of_distinct_receivers : forall senders n sched,
  let s := nrun (ninit senders n) sched in
  (sp (nbase s) = S9 \/ sp (nbase s) = S10) ->
  length (receivers_of_round s) = v (nbase s) sent.
Proof. exact Proofs.PubSubIdx.idx_send_returns_number_of_distinct_receivers. Qed.
Print Assumptions C06_send_returns_number_of_distinct_receivers.

(* ... and the message was received exactly n times in all (the receipts of the round summed over ALL subscribers). *)
Theorem C06_message_received_exactly_n_times : forall senders n sched,
  let s := nrun (ninit senders n) sched in
  (sp (nbase s) = S9 \/ sp (nbase s) = S10) ->
  Proofs.PubSubIdx.receipts_of_round s = v (nbase s) sent.
Proof. exact Proofs.PubSubIdx.idx_message_received_exactly_n_times. Qed.
Print Assumptions C06_message_received_exactly_n_times.

(* Instances of the tagged theorems for EVERY subscription x (at any index i) of an indexed run. *)
Theorem C06_idx_contiguous_run_of_one_order : forall senders others sched i x,
  nth_error (nsubs (nrun (ninit senders (S others)) sched)) i = Some x ->
  exists a, rev (slog x) = seq a (length (slog x)).
Proof. exact Proofs.PubSubIdx.idx_contiguous. Qed.
Print Assumptions C06_idx_contiguous_run_of_one_order.

Theorem C06_idx_no_duplicate : forall senders others sched i x,
  nth_error (nsubs (nrun (ninit senders (S others)) sched)) i = Some x -> NoDup (slog x).
Proof. exact Proofs.PubSubIdx.idx_no_duplicate. Qed.
Print Assumptions C06_idx_no_duplicate.

Theorem C06_idx_no_stale : forall senders others sched i x,
  let s := nrun (ninit senders (S others)) sched in
  nth_error (nsubs s) i = Some x -> Forall (fun n => subat x < n <= nround s) (slog x).
Proof. exact Proofs.PubSubIdx.idx_no_stale. Qed.
Print Assumptions C06_idx_no_stale.

Theorem C06_idx_established_included : forall senders others sched i x,
  let s := nrun (ninit senders (S others)) sched in
  nth_error (nsubs s) i = Some x ->
  (sp (nbase s) = S8 \/ sp (nbase s) = S9 \/ sp (nbase s) = S10) ->
  standing (pc x) = true -> subat x < nround s -> hd_error (slog x) = Some (nround s).
Proof. exact Proofs.PubSubIdx.idx_established_included. Qed.
Print Assumptions C06_idx_established_included.
