(* C06 — ChanPubSub: each message reaches every standing subscriber once, in one order.

   Model: Model/PubSubAbs.v (see Properties/C07.v for its description).  Subscribers are ANONYMOUS there (the state holds
   the number of subscriber goroutines at each program point, with the ghost split "owed a copy of the running round / not
   owed"), so the clauses about counts, about WHO may take a copy (only a subscriber counted by the running Send), about the
   acknowledgement barrier, serialisation and the zero-subscriber return are proved in full, for any number of Sends and
   subscribers and every schedule.  The clauses that need subscriber identities are stated on the tagged extension
   Model/PubSubTag.v when present; otherwise they are named `_partial` with the full statement in a comment.
   Statements only. *)
From Coq Require Import List Arith Bool.
From BB.Model Require Import PubSubAbs PubSubTag.
From BB.Proofs Require PubSubAbs PubSubC06 PubSubTag.
Import ListNotations.

(* No copy of a message is ever taken by a subscriber that the running Send did not count when it read `subscribers`
   under the write lock (a late joiner cannot steal a slow subscriber's copy) ... *)
Theorem C06_no_steal : forall senders subscribers sched,
  v (run (init senders subscribers) sched) steal = 0.
Proof. exact Proofs.PubSubC06.no_steal_run. Qed.
Print Assumptions C06_no_steal.

(* ... because the step "a not-counted subscriber receives" is not enabled in any reachable state: from the moment Send has
   counted until it has collected the caster (pcs S5..S7) there is NO subscribed-but-not-counted idle subscriber, nor one
   spinning in Add(-1): new subscriptions are excluded by the write lock. *)
Theorem C06_uncounted_receive_never_enabled : forall senders subscribers sched,
  step (run (init senders subscribers) sched) PRecvN = None.
Proof. exact Proofs.PubSubC06.uncounted_receive_disabled. Qed.
Print Assumptions C06_uncounted_receive_never_enabled.

Theorem C06_delivery_only_to_counted : forall senders subscribers sched,
  let s := run (init senders subscribers) sched in
  (sp s = S5 \/ sp s = S6 \/ sp s = S7) -> v s b0n = 0 /\ v s n1n = 0.
Proof. exact Proofs.PubSubC06.delivery_no_unowed_run. Qed.
Print Assumptions C06_delivery_only_to_counted.

(* Exact count and acknowledgement barrier: when Send is about to return n (S9), exactly n copies were taken in this round
   (ghost rcv) and the n receivers are all inside Wait; it then publishes pongN = n and (S10) returns only when each of
   them has consumed its pong (pongN = number still inside Wait).
   "... by n DISTINCT subscriptions": the n receipts of the round are by n different subscriptions because no subscription
   holds two receipts of one round (C06_no_duplicate below, for an arbitrary subscription). *)
Theorem C06_send_count_exact : forall senders subscribers sched,
  let s := run (init senders subscribers) sched in
  (sp s = S9 -> v s sent = v s rcv /\ v s sent = v s b1) /\
  (sp s = S10 -> v s sent = v s rcv /\ v s pongN = v s b1).
Proof. exact Proofs.PubSubC06.send_count_is_receipts. Qed.
Print Assumptions C06_send_count_exact.

(* Concurrent Sends are serialised: the model has a single sender pc — the holder of sendMu (this is structural: `sq`
   counts the Sends queued on sendMu, and only PSendLock, enabled only when nobody holds it, makes one of them the running
   Send); nothing but the sender's own steps moves it.  Hence rounds are totally ordered, and this order extends every
   sender's program order because a sender's next Send is invoked after its previous one returned. *)
Theorem C06_sends_serialised : forall s s', step s PSendLock = Some s' ->
  sp s = SNone /\ sp s' = S2 /\ v s' sq = v s sq - 1 /\ 0 < v s sq.
Proof. exact Proofs.PubSubC06.sends_serialised. Qed.
Print Assumptions C06_sends_serialised.

Theorem C06_running_send_moves_only_by_itself : forall s p s', step s p = Some s' ->
  p <> PS -> p <> PSendLock -> sp s' = sp s.
Proof. exact Proofs.PubSubC06.sender_pc_changes_only_by_sender. Qed.
Print Assumptions C06_running_send_moves_only_by_itself.

(* Send returns 0 without blocking when nobody is subscribed: on the fast path it is a single always-enabled step that
   touches neither sendMu nor sendingMu nor the caster; on the slow path (the last subscriber left between the test and the
   write lock) it reads 0 under the lock and returns, again without touching the caster or pongN.  (That the write lock is
   obtained at all is C07_deadlock_free.) *)
Theorem C06_zero_fast : forall s, 0 < v s nsend -> v s subs = 0 ->
  exists s', step s PSendStart = Some s' /\ sp s' = sp s /\ v s' sq = v s sq /\ v s' nsend = v s nsend - 1 /\
             v s' w = v s w /\ v s' wp = v s wp /\ v s' cnt = v s cnt /\ v s' pongN = v s pongN.
Proof. exact Proofs.PubSubC06.zero_fast_return. Qed.
Print Assumptions C06_zero_fast.

Theorem C06_zero_slow : forall s, sp s = S4 -> v s subs = 0 ->
  exists s', step s PS = Some s' /\ sp s' = SNone /\ v s' w = 0 /\ v s' cnt = v s cnt /\ v s' armed = v s armed /\
             v s' pongN = v s pongN.
Proof. exact Proofs.PubSubC06.zero_slow_return. Qed.
Print Assumptions C06_zero_slow.

(* Mutation: if Send does not exclude subscribes while it counts and delivers (same step function, flag fl_wlock = false),
   a subscriber that joined after the count takes a copy. *)
Theorem C06_send_without_write_lock_refuted : exists sched,
  v (run_gen Proofs.PubSubAbs.no_wlock_flags (init 1 2) sched) steal = 1.
Proof. exact Proofs.PubSubAbs.no_wlock_refuted. Qed.
Print Assumptions C06_send_without_write_lock_refuted.

(* ---- identity clauses, on the tagged extension ------------------------------------------------------------------------ *)

(* The base of every tagged run is a run of the counter abstraction (so all theorems above and those of C07 hold of it), and
   tagging restricts nothing: whenever the counter abstraction can take a pick, an anonymous thread or the tagged one can. *)
Theorem C06_tagged_run_is_abstract_run : forall sched t,
  exists sched', base (trun t sched) = run (base t) sched'.
Proof. exact Proofs.PubSubTag.tagged_base_is_abstract_run. Qed.
Print Assumptions C06_tagged_run_is_abstract_run.

Theorem C06_tagging_loses_no_behaviour : forall t p b', step (base t) p = Some b' ->
  exists q t', pick_of q = p /\ tstep t q = Some t' /\ base t' = b'.
Proof. exact Proofs.PubSubTag.tagging_is_complete. Qed.
Print Assumptions C06_tagging_loses_no_behaviour.

(* All subscriptions observe ONE order (the rounds, numbered in sendMu order), each seeing a CONTIGUOUS run of it: the rounds
   a subscription received, oldest first, are consecutive numbers a, a+1, ..., a+m-1. *)
Theorem C06_contiguous_run_of_one_order : forall senders others sched,
  let t := trun (tinit senders others) sched in
  exists a, rev (tlog t) = seq a (length (tlog t)).
Proof. exact Proofs.PubSubTag.receipts_are_contiguous_run. Qed.
Print Assumptions C06_contiguous_run_of_one_order.

(* No subscription receives a message twice. *)
Theorem C06_no_duplicate : forall senders others sched,
  NoDup (tlog (trun (tinit senders others) sched)).
Proof. exact Proofs.PubSubTag.receipts_no_duplicate. Qed.
Print Assumptions C06_no_duplicate.

(* No subscription receives a message whose Send had already returned when the subscription was made: it receives only
   rounds counted AFTER it incremented `subscribers` (tsub < n), and only rounds that exist (n <= round). *)
Theorem C06_no_stale : forall senders others sched,
  let t := trun (tinit senders others) sched in
  Forall (fun n => tsub t < n <= round t) (tlog t).
Proof. exact Proofs.PubSubTag.receipts_not_stale. Qed.
Print Assumptions C06_no_stale.

(* Every receipt is a receipt of the RUNNING round, by a subscription that this Send counted, while Send is delivering. *)
Theorem C06_receipt_only_when_counted : forall senders others sched p t',
  let t := trun (tinit senders others) sched in
  tstep t (Tag p) = Some t' -> is_recv p = true ->
  towed t = true /\ tp t = b0o /\ sp (base t) = S6 /\ tlog t' = round t :: tlog t.
Proof. exact Proofs.PubSubTag.receipt_only_when_counted. Qed.
Print Assumptions C06_receipt_only_when_counted.

(* Every subscription established before the Send counted (hence before any Send that began later) and not withdrawn when
   the Send is past delivery is among the receivers: counted + still subscribed (Add(-1) not invoked) at S8/S9/S10 implies
   the newest receipt is this round. *)
Theorem C06_standing_included : forall senders others sched,
  let t := trun (tinit senders others) sched in
  (sp (base t) = S8 \/ sp (base t) = S9 \/ sp (base t) = S10) ->
  towed t = true -> standing (tp t) = true ->
  hd_error (tlog t) = Some (round t).
Proof. exact Proofs.PubSubTag.standing_included. Qed.
Print Assumptions C06_standing_included.

Theorem C06_counted_during_delivery : forall senders others sched,
  let t := trun (tinit senders others) sched in
  (sp (base t) = S5 \/ sp (base t) = S6 \/ sp (base t) = S7) -> standing (tp t) = true ->
  towed t = true /\ (tp t = b0o \/ (tp t = b1 /\ hd_error (tlog t) = Some (round t))).
Proof. exact Proofs.PubSubTag.counted_during_delivery. Qed.
Print Assumptions C06_counted_during_delivery.

(* Mutation on the tagged model: without the write lock, Send is about to return 1 although the subscription it counted,
   still idle and subscribed, has received nothing (a late joiner took its copy). *)
Theorem C06_standing_included_without_write_lock_refuted : exists sched,
  let t := trun_gen Proofs.PubSubAbs.no_wlock_flags (tinit 1 1) sched in
  sp (base t) = S9 /\ v (base t) sent = 1 /\ towed t = true /\ standing (tp t) = true /\ tlog t = [].
Proof. exact Proofs.PubSubTag.standing_included_without_wlock_refuted. Qed.
Print Assumptions C06_standing_included_without_write_lock_refuted.
