(* C08 — ChanCaster: Send reaches exactly the registered receivers, once, and counts them.
   Models: Model/Caster.v (the uint64 state word with explicit 2^32 / 2^64 wrap-around; Add, and the two halves of
   Send, transcribed operation by operation; sequential) and Model/CasterAbs.v (the concurrent protocol of an
   unbuffered caster used per its contract, at the granularity of the individual lock / atomic / channel
   operations; counter abstraction + one individually tracked receiver).  Statements only; every proof is `exact`
   of a lemma of Proofs/Caster.v or Proofs/CasterAbs.v.

   The parenthetical "(and every later call panics too)" of the property is FALSE of the code (finding F4):
   C08_sticky_refuted; what is true instead is C08_sticky_until_compensated_partial / C08_running_sum_spec. *)
From Coq Require Import List ZArith Bool Arith.
From BB.Model Require Caster CasterAbs.
From BB.Proofs Require Caster CasterAbs.
Import ListNotations.

(* ================================================================================================== *)
(* Part 1: the state word (every 64-bit word, every delta of the int range and beyond)                 *)
(* ================================================================================================== *)
Section Word.
Import BB.Model.Caster.
Local Open Scope Z_scope.

(* The FuzzChanCaster_Add oracle, for ALL inputs.  For every pair of 32-bit halves (h = receivers, l = tracker)
   and every delta: Add returns normally iff the word is valid (l = h, or armed l = h + MaxInt32 with delta <= 0),
   delta is within +-MaxInt32 and the new count stays in [0, MaxInt32]; it then returns the new count, performs
   -delta receives iff the word is armed, and leaves both halves moved by delta.  Otherwise it panics. *)
Theorem C08_add_spec : forall h l delta, 0 <= h < two32 -> 0 <= l < two32 ->
  (Proofs.Caster.good h l delta ->
     add (mkword h l) delta
     = (mkword (h + delta) (l + delta), AddRet (h + delta) (if l =? h then 0 else - delta)))
  /\ (~ Proofs.Caster.good h l delta -> snd (add (mkword h l) delta) = AddPanic).
Proof. exact Proofs.Caster.add_spec. Qed.
Print Assumptions C08_add_spec.

(* the same on words *)
Theorem C08_add_spec_word : forall w delta, 0 <= w < two64 ->
  (Proofs.Caster.good_word w delta ->
     add w delta = (mkword (hi w + delta) (lo w + delta),
                    AddRet (hi w + delta) (if lo w =? hi w then 0 else - delta)))
  /\ (~ Proofs.Caster.good_word w delta -> snd (add w delta) = AddPanic).
Proof. exact Proofs.Caster.add_spec_word. Qed.
Print Assumptions C08_add_spec_word.

(* the atomic add precedes the validation: the word moves whenever delta is in range, even if the call panics *)
Theorem C08_add_word : forall w delta, 0 <= w < two64 ->
  fst (add w delta)
  = if (- maxi <=? delta) && (delta <=? maxi) then (w + delta * (two32 + 1)) mod two64 else w.
Proof. exact Proofs.Caster.add_word. Qed.
Print Assumptions C08_add_word.

(* a normal return pins down everything about the call *)
Theorem C08_add_return_inversion : forall w delta n a, 0 <= w < two64 -> snd (add w delta) = AddRet n a ->
  Proofs.Caster.valid w /\ Proofs.Caster.valid (fst (add w delta)) /\ - maxi <= delta <= maxi /\
  n = hi w + delta /\ 0 <= n <= maxi /\
  a = (if lo w =? hi w then 0 else - delta) /\
  fst (add w delta) = mkword n (lo w + delta) /\
  (Proofs.Caster.armed w <-> Proofs.Caster.armed (fst (add w delta))).
Proof. exact Proofs.Caster.add_ret_inv. Qed.
Print Assumptions C08_add_return_inversion.

(* "out-of-range or unbalanced Adds are reported by a panic": a delta outside +-MaxInt32, or one that would take
   the count outside [0, MaxInt32], panics on every word; *)
Theorem C08_oob_panics : forall w delta, 0 <= w < two64 ->
  delta < - maxi \/ maxi < delta \/ hi w + delta < 0 \/ maxi < hi w + delta ->
  snd (add w delta) = AddPanic.
Proof. exact Proofs.Caster.add_oob_panics. Qed.
Print Assumptions C08_oob_panics.

(* every Add on an invalid word panics, whatever its delta; *)
Theorem C08_invalid_word_panics : forall w delta, 0 <= w < two64 -> ~ Proofs.Caster.valid w ->
  snd (add w delta) = AddPanic.
Proof. exact Proofs.Caster.add_invalid_panics. Qed.
Print Assumptions C08_invalid_word_panics.

(* and, for an unarmed caster and any sequence of in-range Adds (balanced or not), an Add panics iff the true
   running count is outside [0, MaxInt32] before it or after it, and otherwise returns the running count. *)
Theorem C08_running_sum_spec : forall ds x, - two32 < x < two32 -> Proofs.Caster.sums_bounded x ds ->
  Proofs.Caster.run_adds (Proofs.Caster.diag x) ds = Proofs.Caster.sum_oracle x ds.
Proof. exact Proofs.Caster.running_sum_spec. Qed.
Print Assumptions C08_running_sum_spec.

(* Send up to and including the arming CAS *)
Theorem C08_send_begin_spec : forall w, 0 <= w < two64 ->
  (w = 0 -> send_begin w = (0, SbZero))
  /\ (w <> 0 -> lo w = hi w -> hi w <= maxi ->
      send_begin w = (mkword (hi w) (hi w + maxi), SbArmed (hi w)))
  /\ (w <> 0 -> ~ (lo w = hi w /\ hi w <= maxi) -> send_begin w = (w, SbPanic)).
Proof. exact Proofs.Caster.send_begin_spec. Qed.
Print Assumptions C08_send_begin_spec.

(* Send's final load / validate / CAS to 0, for the `receivers` arming can produce *)
Theorem C08_send_end_spec : forall r w, 0 <= r <= maxi -> 0 <= w < two64 ->
  (hi w <= r /\ lo w = hi w + maxi -> send_end r w = (0, SeRet (hi w)))
  /\ (~ (hi w <= r /\ lo w = hi w + maxi) -> send_end r w = (w, SePanic)).
Proof. exact Proofs.Caster.send_end_spec. Qed.
Print Assumptions C08_send_end_spec.

(* the same with the load and the CAS kept apart (wl loaded, wc found by the CAS): Send returns iff the loaded word
   validates and the word has not changed in between; otherwise it panics and leaves the word as found *)
Theorem C08_send_end_cas_spec : forall r wl wc, 0 <= r <= maxi -> 0 <= wl < two64 ->
  (hi wl <= r /\ lo wl = hi wl + maxi /\ wc = wl -> send_end_cas r wl wc = (0, SeRet (hi wl)))
  /\ (~ (hi wl <= r /\ lo wl = hi wl + maxi /\ wc = wl) -> send_end_cas r wl wc = (wc, SePanic)).
Proof. exact Proofs.Caster.send_end_cas_spec. Qed.
Print Assumptions C08_send_end_cas_spec.

(* a whole Send on the word: arm r, d racing deregistrations, return r - d, word 0 *)
Theorem C08_send_roundtrip : forall r d, 0 < r <= maxi -> 0 <= d <= r ->
  exists w1, send_begin (mkword r r) = (w1, SbArmed r)
          /\ send_end r (fst (add w1 (- d))) = (0, SeRet (r - d)).
Proof. exact Proofs.Caster.send_roundtrip. Qed.
Print Assumptions C08_send_roundtrip.

(* "(and every later call panics too)" is FALSE of the code — finding F4.  Add(-1) on a fresh caster panics and
   corrupts the word; Add(+1) panics too but (the atomic add precedes validation) restores the word to 0; after
   that Add(0) and Send succeed as if nothing had happened. *)
Theorem C08_sticky_refuted :
  exists w1 w2 w3, add 0 (-1) = (w1, AddPanic) /\ add w1 1 = (w2, AddPanic) /\ w2 = 0
                   /\ add w2 0 = (w3, AddRet 0 0) /\ w3 = 0 /\ send_begin w3 = (0, SbZero).
Proof. exact Proofs.Caster.sticky_refuted. Qed.
Print Assumptions C08_sticky_refuted.

(* What is true instead (full clause: "after a panicking Add every later Add/Send panics" — refuted above).
   From an invalid word, along ANY sequence of Adds and Sends, every call panics up to AND INCLUDING the first one
   after which the word is valid again: an Add never repairs the word without itself panicking. *)
Theorem C08_sticky_until_compensated_partial : forall ops w, 0 <= w < two64 -> ~ Proofs.Caster.valid w ->
  Proofs.Caster.panics_until_valid w ops.
Proof. exact Proofs.Caster.sticky_until_compensated_partial. Qed.
Print Assumptions C08_sticky_until_compensated_partial.

Theorem C08_sticky_while_invalid : forall w, 0 <= w < two64 -> ~ Proofs.Caster.valid w ->
  (forall delta, snd (add w delta) = AddPanic) /\ send_begin w = (w, SbPanic).
Proof. exact Proofs.Caster.sticky_while_invalid. Qed.
Print Assumptions C08_sticky_while_invalid.

End Word.

(* ================================================================================================== *)
(* Part 2: the concurrent protocol (any number of senders and receivers, every schedule)               *)
(* ================================================================================================== *)
Section Protocol.
Import BB.Model.CasterAbs.

(* under the contract none of the code's panics fires, and nobody the running Send did not count takes a copy *)
Theorem C08_no_false_panic_no_steal : forall senders receivers sched,
  let s := run (init senders receivers) sched in v s bad = 0 /\ v s stolen = 0.
Proof. exact Proofs.CasterAbs.no_false_panic_no_steal. Qed.
Print Assumptions C08_no_false_panic_no_steal.

(* return accounting and "after Send returns the registered count is zero": when a Send is about to unlock and
   return (S8), ret = copies taken by receivers, ret + copies absorbed by racing Add(-1)s = the count it armed
   with, the word is 0 and nobody is registered. *)
Theorem C08_send_return_exact_zero_after_send : forall senders receivers sched,
  let s := run (init senders receivers) sched in
  sp s = S8 ->
  v s ret = v s dlv /\ v s ret + v s absd = v s reg0 /\
  v s cnt = 0 /\ v s armed = 0 /\ v s u2 = 0 /\ v s b0o = 0 /\ v s b0n = 0 /\ v s n5 = 0.
Proof. exact Proofs.CasterAbs.send_return_exact. Qed.
Print Assumptions C08_send_return_exact_zero_after_send.

(* over the whole run the values received are exactly the sum of the Sends' return values *)
Theorem C08_total_delivery : forall senders receivers sched,
  let s := run (init senders receivers) sched in
  sp s = SNone -> v s got = v s retsum.
Proof. exact Proofs.CasterAbs.total_delivery. Qed.
Print Assumptions C08_total_delivery.

(* exact delivery, per receiver: [tow] is set by the arming step iff the tagged receiver is registered and idle at
   that instant.  When the Send returns, a receiver it counted has received exactly one value from it unless it
   deregistered, in which case its Add(-1) absorbed exactly one; a receiver it did not count got nothing from it. *)
Theorem C08_exact_delivery : forall senders receivers sched,
  let s := run (init senders receivers) sched in
  sp s = S8 ->
  if tow (tg s)
  then (tpc (tg s) = TGot /\ trs (tg s) = 1 /\ tas (tg s) = 0) \/
       (tpc (tg s) = TFin /\ trs (tg s) = 0 /\ tas (tg s) = 1)
  else trs (tg s) = 0 /\ tas (tg s) = 0.
Proof. exact Proofs.CasterAbs.tagged_exact_delivery. Qed.
Print Assumptions C08_exact_delivery.

Theorem C08_at_most_once : forall senders receivers sched,
  let s := run (init senders receivers) sched in
  trcv (tg s) + tabs (tg s) <= 1 /\ (trcv (tg s) = 1 <-> tpc (tg s) = TGot).
Proof. exact Proofs.CasterAbs.tagged_at_most_once. Qed.
Print Assumptions C08_at_most_once.

(* late registration: from the moment a Send has announced itself on the mutex until it unlocks no Add(+1) passes
   RLock; *)
Theorem C08_late_registration_blocked : forall s, Proofs.CasterAbs.Inv s -> sp s <> SNone ->
  step s (PB PU0) = None /\ step s (PT TU0) = None.
Proof. exact Proofs.CasterAbs.rlock_blocked. Qed.
Print Assumptions C08_late_registration_blocked.

(* while copies are handed out nobody is registered un-owed, and a receiver the Send did not count is not
   registered at all (before RLock, or done) and receives nothing from it; *)
Theorem C08_late_registration_gets_nothing : forall s, Proofs.CasterAbs.Inv s ->
  Proofs.CasterAbs.counted (sp s) = true ->
  v s b0n = 0 /\ step s (PB PRecvN) = None /\
  (tow (tg s) = false ->
     trs (tg s) = 0 /\ tas (tg s) = 0 /\
     (tpc (tg s) = TA0 \/ tpc (tg s) = TGot \/ tpc (tg s) = TFin) /\ step s (PT TRecv) = None).
Proof. exact Proofs.CasterAbs.uncounted_gets_nothing. Qed.
Print Assumptions C08_late_registration_gets_nothing.

(* and it stays before RLock for as long as that Send has not unlocked: it takes effect only for a later Send. *)
Theorem C08_late_registration_stable : forall s p s', Proofs.CasterAbs.Inv s ->
  Proofs.CasterAbs.locked (sp s) = true -> tpc (tg s) = TA0 ->
  step s p = Some s' -> tpc (tg s') = TA0.
Proof. exact Proofs.CasterAbs.late_registration_stable. Qed.
Print Assumptions C08_late_registration_stable.

(* the invariant these three are stated on holds in every reachable state *)
Theorem C08_invariant_reachable : forall senders receivers sched,
  Proofs.CasterAbs.Inv (run (init senders receivers) sched).
Proof. exact Proofs.CasterAbs.Inv_run. Qed.
Print Assumptions C08_invariant_reachable.

(* racing deregistration: an Add(-1) by a receiver the running Send did not count sees an unarmed word outside the
   delivery phase and returns without touching the channel (removed before it is counted); *)
Theorem C08_racing_deregistration_uncounted : forall c f e c' f',
  Proofs.CasterAbs.CInv c f -> cstep good c f PDeregN = Some (e, c', f') ->
  e = ENone /\ Proofs.CasterAbs.counted c = false /\ f armed = 0 /\ c' = c /\ 1 <= f cnt /\ f' cnt = f cnt - 1 /\
  f' b0n = f b0n - 1 /\ f' fin = S (f fin) /\ f' n5 = f n5 /\ f' k = f k /\ f' absd = f absd.
Proof. exact Proofs.CasterAbs.dereg_uncounted. Qed.
Print Assumptions C08_racing_deregistration_uncounted.

(* an Add(-1) by a counted receiver happens while armed: the count drops, the copy stays pending and the Add owes
   exactly one receive, *)
Theorem C08_racing_deregistration_counted : forall c f e c' f',
  Proofs.CasterAbs.CInv c f -> cstep good c f PDeregO = Some (e, c', f') ->
  e = ENone /\ c = S6 /\ c' = S6 /\ f armed = 1 /\ 1 <= f cnt /\ f' cnt = f cnt - 1 /\
  f' b0o = f b0o - 1 /\ f' n5 = S (f n5) /\ f' fin = f fin /\ f' k = f k /\ f' reg0 = f reg0.
Proof. exact Proofs.CasterAbs.dereg_counted. Qed.
Print Assumptions C08_racing_deregistration_counted.

(* which takes exactly one of the k copies. *)
Theorem C08_racing_deregistration_absorbs_one : forall c f e c' f',
  cstep good c f PAbsorb = Some (e, c', f') ->
  e = ENone /\ c = S6 /\ c' = S6 /\ 1 <= f n5 /\ 1 <= f k /\ f' n5 = f n5 - 1 /\ f' k = f k - 1 /\
  f' absd = S (f absd) /\ f' fin = S (f fin) /\ f' cnt = f cnt.
Proof. exact Proofs.CasterAbs.absorb_exactly_one. Qed.
Print Assumptions C08_racing_deregistration_absorbs_one.

(* "neither call can block forever": in any reachable state where nothing can move except idle receivers that
   might still choose to deregister, no Send is in progress or pending, no Add is in progress or pending, nobody
   owes a receive and nobody is owed a copy; *)
Theorem C08_no_deadlock : forall senders receivers sched,
  let s := run (init senders receivers) sched in
  quiescentb s = true ->
  sp s = SNone /\ v s nsend = 0 /\ v s sq = 0 /\ v s a0 = 0 /\ v s u1 = 0 /\ v s u2 = 0 /\
  v s n5 = 0 /\ v s b0o = 0 /\ v s cnt = v s b0n /\ v s armed = 0 /\
  (tpc (tg s) = TB0 \/ tpc (tg s) = TGot \/ tpc (tg s) = TFin).
Proof. exact Proofs.CasterAbs.run_quiescent_all_returned. Qed.
Print Assumptions C08_no_deadlock.

(* and every step of every schedule strictly decreases a measure that starts at 8 * senders + 5 * (receivers + 1),
   so such a state is reached after at most that many effective steps. *)
Theorem C08_terminates_measure : forall fl s p s',
  step_gen fl s p = Some s' -> Proofs.CasterAbs.measure s' < Proofs.CasterAbs.measure s.
Proof. exact Proofs.CasterAbs.step_decreases. Qed.
Print Assumptions C08_terminates_measure.

(* Mutation sensitivity (same transition function, one mechanism removed).
   A negative Add that does not receive when it sees the armed word: the Send hangs in `x.C <- value` for ever. *)
Theorem C08_no_absorb_deadlock_refuted :
  exists sched, let s := run_gen Proofs.CasterAbs.no_absorb (init 1 0) sched in
  terminalb_gen Proofs.CasterAbs.no_absorb s = true /\ sp s = S6 /\ v s k = 1 /\ v s bad = 0.
Proof. exact Proofs.CasterAbs.no_absorb_deadlock_refuted. Qed.
Print Assumptions C08_no_absorb_deadlock_refuted.

(* A positive Add that does not take the read lock can add to an armed word: a panic fires. *)
Theorem C08_no_rlock_refuted :
  exists sched, let s := run_gen Proofs.CasterAbs.no_rlock (init 1 1) sched in v s bad = 1.
Proof. exact Proofs.CasterAbs.no_rlock_refuted. Qed.
Print Assumptions C08_no_rlock_refuted.

End Protocol.
