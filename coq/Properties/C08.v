(* C08 — ChanCaster: Send reaches exactly the registered receivers, once, and counts them.
   Models: Model/Caster.v (the uint64 state word with explicit 2^32 / 2^64 wrap-around; Add, and the two halves of
   Send, transcribed operation by operation; sequential) and Model/CasterAbs.v (the concurrent protocol of an
   unbuffered caster used per its contract, at the granularity of the individual lock / atomic / channel
   operations; counter abstraction + one individually tracked receiver).  Statements only; every proof is `exact`
   of a lemma of Proofs/Caster.v or Proofs/CasterAbs.v.

   The parenthetical "(and every later call panics too)" of the property is FALSE of the code (finding F4):
   C08_sticky_refuted; what is true instead is C08_sticky_until_compensated_partial / C08_running_sum_spec.

   Parts 3-6 (added): 3 = the bridge between the two models (Model/CasterBridge.v: the protocol's (cnt, armed) is
   the abstraction of the real word along every step and every run); 4 = deltas other than +-1; 5 = late
   registration on reachable states, with its positive half; 6 = BUFFERED channels (Model/CasterBuf.v, capacity
   cbuf; cbuf = 0 is the protocol of Part 2).  The quantifier of the property says "buffered or unbuffered channels
   where the contract allows"; the doc comments of chancaster.go say nothing about buffering.  With a buffer the
   documented usage of Add (register with Add(+1); receive, or call Add(-1) if the select took another case) can
   make Add(-1) panic, make Send panic, and deliver a Send's value to a receiver registered after it returned:
   C08_buffered_giveup_panics_refuted, C08_buffered_send_cas_panics_refuted, C08_buffered_misdelivery_refuted
   (reproduced on the real code).  What is true with a buffer: C08_buffered_regimes_* (cbuf = 0 with give-ups; any
   cbuf when nobody gives up) and C08_buffered_disciplined_recipients. *)
From Coq Require Import List ZArith Bool Arith.
From BB.Model Require Caster CasterAbs CasterBridge CasterBuf.
From BB.Proofs Require Caster CasterAbs CasterBridge CasterDelta CasterLate CasterBuf CasterBufSafe CasterBufSim
                       CasterBufRefute.
Import ListNotations.

(* ================================================================================================== *)
(* Part 1: the state word (every 64-bit word, every delta of the int range and beyond)                 *)
(* ================================================================================================== *)
Section Word.
Import BB.Model.Caster.
Local Open Scope Z_scope.

(* The FuzzChanCaster_Add oracle, for ALL inputs.  For every pair of 32-bit halves (h = receivers, l = tracker)
   and every delta: Add returns normally iff the word is valid (l = h, or armed l = h + MaxInt32 with delta <= 0),
   delta is within +-MaxInt32 and the new count stays in [0, MaxInt32]; it then returns the new count, performs
   -delta receives iff the word is armed, and leaves both halves moved by delta.  Otherwise it panics. *)
Theorem C08_add_spec : forall h l delta, 0 <= h < two32 -> 0 <= l < two32 ->
  (Proofs.Caster.good h l delta ->
     add (mkword h l) delta
     = (mkword (h + delta) (l + delta), AddRet (h + delta) (if l =? h then 0 else - delta)))
  /\ (~ Proofs.Caster.good h l delta -> snd (add (mkword h l) delta) = AddPanic).
Proof. exact Proofs.Caster.add_spec. Qed.
Print Assumptions C08_add_spec.

(* the same on words *)
Theorem C08_add_spec_word : forall w delta, 0 <= w < two64 ->
  (Proofs.Caster.good_word w delta ->
     add w delta = (mkword (hi w + delta) (lo w + delta),
                    AddRet (hi w + delta) (if lo w =? hi w then 0 else - delta)))
  /\ (~ Proofs.Caster.good_word w delta -> snd (add w delta) = AddPanic).
Proof. exact Proofs.Caster.add_spec_word. Qed.
Print Assumptions C08_add_spec_word.

(* the atomic add precedes the validation: the word moves whenever delta is in range, even if the call panics *)
Theorem C08_add_word : forall w delta, 0 <= w < two64 ->
  fst (add w delta)
  = if (- maxi <=? delta) && (delta <=? maxi) then (w + delta * (two32 + 1)) mod two64 else w.
Proof. exact Proofs.Caster.add_word. Qed.
Print Assumptions C08_add_word.

(* a normal return pins down everything about the call *)
Theorem C08_add_return_inversion : forall w delta n a, 0 <= w < two64 -> snd (add w delta) = AddRet n a ->
  Proofs.Caster.valid w /\ Proofs.Caster.valid (fst (add w delta)) /\ - maxi <= delta <= maxi /\
  n = hi w + delta /\ 0 <= n <= maxi /\
  a = (if lo w =? hi w then 0 else - delta) /\
  fst (add w delta) = mkword n (lo w + delta) /\
  (Proofs.Caster.armed w <-> Proofs.Caster.armed (fst (add w delta))).
Proof. exact Proofs.Caster.add_ret_inv. Qed.
Print Assumptions C08_add_return_inversion.

(* "out-of-range or unbalanced Adds are reported by a panic": a delta outside +-MaxInt32, or one that would take
   the count outside [0, MaxInt32], panics on every word; *)
Theorem C08_oob_panics : forall w delta, 0 <= w < two64 ->
  delta < - maxi \/ maxi < delta \/ hi w + delta < 0 \/ maxi < hi w + delta ->
  snd (add w delta) = AddPanic.
Proof. exact Proofs.Caster.add_oob_panics. Qed.
Print Assumptions C08_oob_panics.

(* every Add on an invalid word panics, whatever its delta; *)
Theorem C08_invalid_word_panics : forall w delta, 0 <= w < two64 -> ~ Proofs.Caster.valid w ->
  snd (add w delta) = AddPanic.
Proof. exact Proofs.Caster.add_invalid_panics. Qed.
Print Assumptions C08_invalid_word_panics.

(* and, for an unarmed caster and any sequence of in-range Adds (balanced or not), an Add panics iff the true
   running count is outside [0, MaxInt32] before it or after it, and otherwise returns the running count. *)
Theorem C08_running_sum_spec : forall ds x, - two32 < x < two32 -> Proofs.Caster.sums_bounded x ds ->
  Proofs.Caster.run_adds (Proofs.Caster.diag x) ds = Proofs.Caster.sum_oracle x ds.
Proof. exact Proofs.Caster.running_sum_spec. Qed.
Print Assumptions C08_running_sum_spec.

(* Send up to and including the arming CAS *)
Theorem C08_send_begin_spec : forall w, 0 <= w < two64 ->
  (w = 0 -> send_begin w = (0, SbZero))
  /\ (w <> 0 -> lo w = hi w -> hi w <= maxi ->
      send_begin w = (mkword (hi w) (hi w + maxi), SbArmed (hi w)))
  /\ (w <> 0 -> ~ (lo w = hi w /\ hi w <= maxi) -> send_begin w = (w, SbPanic)).
Proof. exact Proofs.Caster.send_begin_spec. Qed.
Print Assumptions C08_send_begin_spec.

(* Send's final load / validate / CAS to 0, for the `receivers` arming can produce *)
Theorem C08_send_end_spec : forall r w, 0 <= r <= maxi -> 0 <= w < two64 ->
  (hi w <= r /\ lo w = hi w + maxi -> send_end r w = (0, SeRet (hi w)))
  /\ (~ (hi w <= r /\ lo w = hi w + maxi) -> send_end r w = (w, SePanic)).
Proof. exact Proofs.Caster.send_end_spec. Qed.
Print Assumptions C08_send_end_spec.

(* the same with the load and the CAS kept apart (wl loaded, wc found by the CAS): Send returns iff the loaded word
   validates and the word has not changed in between; otherwise it panics and leaves the word as found *)
Theorem C08_send_end_cas_spec : forall r wl wc, 0 <= r <= maxi -> 0 <= wl < two64 ->
  (hi wl <= r /\ lo wl = hi wl + maxi /\ wc = wl -> send_end_cas r wl wc = (0, SeRet (hi wl)))
  /\ (~ (hi wl <= r /\ lo wl = hi wl + maxi /\ wc = wl) -> send_end_cas r wl wc = (wc, SePanic)).
Proof. exact Proofs.Caster.send_end_cas_spec. Qed.
Print Assumptions C08_send_end_cas_spec.

(* a whole Send on the word: arm r, d racing deregistrations, return r - d, word 0 *)
Theorem C08_send_roundtrip : forall r d, 0 < r <= maxi -> 0 <= d <= r ->
  exists w1, send_begin (mkword r r) = (w1, SbArmed r)
          /\ send_end r (fst (add w1 (- d))) = (0, SeRet (r - d)).
Proof. exact Proofs.Caster.send_roundtrip. Qed.
Print Assumptions C08_send_roundtrip.

(* "(and every later call panics too)" is FALSE of the code — finding F4.  Add(-1) on a fresh caster panics and
   corrupts the word; Add(+1) panics too but (the atomic add precedes validation) restores the word to 0; after
   that Add(0) and Send succeed as if nothing had happened. *)
Theorem C08_sticky_refuted :
  exists w1 w2 w3, add 0 (-1) = (w1, AddPanic) /\ add w1 1 = (w2, AddPanic) /\ w2 = 0
                   /\ add w2 0 = (w3, AddRet 0 0) /\ w3 = 0 /\ send_begin w3 = (0, SbZero).
Proof. exact Proofs.Caster.sticky_refuted. Qed.
Print Assumptions C08_sticky_refuted.

(* What is true instead (full clause: "after a panicking Add every later Add/Send panics" — refuted above).
   From an invalid word, along ANY sequence of Adds and Sends, every call panics up to AND INCLUDING the first one
   after which the word is valid again: an Add never repairs the word without itself panicking. *)
Theorem C08_sticky_until_compensated_partial : forall ops w, 0 <= w < two64 -> ~ Proofs.Caster.valid w ->
  Proofs.Caster.panics_until_valid w ops.
Proof. exact Proofs.Caster.sticky_until_compensated_partial. Qed.
Print Assumptions C08_sticky_until_compensated_partial.

Theorem C08_sticky_while_invalid : forall w, 0 <= w < two64 -> ~ Proofs.Caster.valid w ->
  (forall delta, snd (add w delta) = AddPanic) /\ send_begin w = (w, SbPanic).
Proof. exact Proofs.Caster.sticky_while_invalid. Qed.
Print Assumptions C08_sticky_while_invalid.

End Word.

(* ================================================================================================== *)
(* Part 2: the concurrent protocol (any number of senders and receivers, every schedule)               *)
(* ================================================================================================== *)
Section Protocol.
Import BB.Model.CasterAbs.

(* under the contract none of the code's panics fires, and nobody the running Send did not count takes a copy *)
Theorem C08_no_false_panic_no_steal : forall senders receivers sched,
  let s := run (init senders receivers) sched in v s bad = 0 /\ v s stolen = 0.
Proof. exact Proofs.CasterAbs.no_false_panic_no_steal. Qed.
Print Assumptions C08_no_false_panic_no_steal.

(* return accounting and "after Send returns the registered count is zero": when a Send is about to unlock and
   return (S8), ret = copies taken by receivers, ret + copies absorbed by racing Add(-1)s = the count it armed
   with, the word is 0 and nobody is registered. *)
Theorem C08_send_return_exact_zero_after_send : forall senders receivers sched,
  let s := run (init senders receivers) sched in
  sp s = S8 ->
  v s ret = v s dlv /\ v s ret + v s absd = v s reg0 /\
  v s cnt = 0 /\ v s armed = 0 /\ v s u2 = 0 /\ v s b0o = 0 /\ v s b0n = 0 /\ v s n5 = 0.
Proof. exact Proofs.CasterAbs.send_return_exact. Qed.
Print Assumptions C08_send_return_exact_zero_after_send.

(* over the whole run the values received are exactly the sum of the Sends' return values *)
Theorem C08_total_delivery : forall senders receivers sched,
  let s := run (init senders receivers) sched in
  sp s = SNone -> v s got = v s retsum.
Proof. exact Proofs.CasterAbs.total_delivery. Qed.
Print Assumptions C08_total_delivery.

(* exact delivery, per receiver: [tow] is set by the arming step iff the tagged receiver is registered and idle at
   that instant.  When the Send returns, a receiver it counted has received exactly one value from it unless it
   deregistered, in which case its Add(-1) absorbed exactly one; a receiver it did not count got nothing from it. *)
Theorem C08_exact_delivery : forall senders receivers sched,
  let s := run (init senders receivers) sched in
  sp s = S8 ->
  if tow (tg s)
  then (tpc (tg s) = TGot /\ trs (tg s) = 1 /\ tas (tg s) = 0) \/
       (tpc (tg s) = TFin /\ trs (tg s) = 0 /\ tas (tg s) = 1)
  else trs (tg s) = 0 /\ tas (tg s) = 0.
Proof. exact Proofs.CasterAbs.tagged_exact_delivery. Qed.
Print Assumptions C08_exact_delivery.

Theorem C08_at_most_once : forall senders receivers sched,
  let s := run (init senders receivers) sched in
  trcv (tg s) + tabs (tg s) <= 1 /\ (trcv (tg s) = 1 <-> tpc (tg s) = TGot).
Proof. exact Proofs.CasterAbs.tagged_at_most_once. Qed.
Print Assumptions C08_at_most_once.

(* late registration: from the moment a Send has announced itself on the mutex until it unlocks no Add(+1) passes
   RLock; *)
Theorem C08_late_registration_blocked : forall s, Proofs.CasterAbs.Inv s -> sp s <> SNone ->
  step s (PB PU0) = None /\ step s (PT TU0) = None.
Proof. exact Proofs.CasterAbs.rlock_blocked. Qed.
Print Assumptions C08_late_registration_blocked.

(* while copies are handed out nobody is registered un-owed, and a receiver the Send did not count is not
   registered at all (before RLock, or done) and receives nothing from it; *)
Theorem C08_late_registration_gets_nothing : forall s, Proofs.CasterAbs.Inv s ->
  Proofs.CasterAbs.counted (sp s) = true ->
  v s b0n = 0 /\ step s (PB PRecvN) = None /\
  (tow (tg s) = false ->
     trs (tg s) = 0 /\ tas (tg s) = 0 /\
     (tpc (tg s) = TA0 \/ tpc (tg s) = TGot \/ tpc (tg s) = TFin) /\ step s (PT TRecv) = None).
Proof. exact Proofs.CasterAbs.uncounted_gets_nothing. Qed.
Print Assumptions C08_late_registration_gets_nothing.

(* and it stays before RLock for as long as that Send has not unlocked: it takes effect only for a later Send. *)
Theorem C08_late_registration_stable : forall s p s', Proofs.CasterAbs.Inv s ->
  Proofs.CasterAbs.locked (sp s) = true -> tpc (tg s) = TA0 ->
  step s p = Some s' -> tpc (tg s') = TA0.
Proof. exact Proofs.CasterAbs.late_registration_stable. Qed.
Print Assumptions C08_late_registration_stable.

(* the invariant these three are stated on holds in every reachable state *)
Theorem C08_invariant_reachable : forall senders receivers sched,
  Proofs.CasterAbs.Inv (run (init senders receivers) sched).
Proof. exact Proofs.CasterAbs.Inv_run. Qed.
Print Assumptions C08_invariant_reachable.

(* racing deregistration: an Add(-1) by a receiver the running Send did not count sees an unarmed word outside the
   delivery phase and returns without touching the channel (removed before it is counted); *)
Theorem C08_racing_deregistration_uncounted : forall c f e c' f',
  Proofs.CasterAbs.CInv c f -> cstep good c f PDeregN = Some (e, c', f') ->
  e = ENone /\ Proofs.CasterAbs.counted c = false /\ f armed = 0 /\ c' = c /\ 1 <= f cnt /\ f' cnt = f cnt - 1 /\
  f' b0n = f b0n - 1 /\ f' fin = S (f fin) /\ f' n5 = f n5 /\ f' k = f k /\ f' absd = f absd.
Proof. exact Proofs.CasterAbs.dereg_uncounted. Qed.
Print Assumptions C08_racing_deregistration_uncounted.

(* an Add(-1) by a counted receiver happens while armed: the count drops, the copy stays pending and the Add owes
   exactly one receive, *)
Theorem C08_racing_deregistration_counted : forall c f e c' f',
  Proofs.CasterAbs.CInv c f -> cstep good c f PDeregO = Some (e, c', f') ->
  e = ENone /\ c = S6 /\ c' = S6 /\ f armed = 1 /\ 1 <= f cnt /\ f' cnt = f cnt - 1 /\
  f' b0o = f b0o - 1 /\ f' n5 = S (f n5) /\ f' fin = f fin /\ f' k = f k /\ f' reg0 = f reg0.
Proof. exact Proofs.CasterAbs.dereg_counted. Qed.
Print Assumptions C08_racing_deregistration_counted.

(* which takes exactly one of the k copies. *)
Theorem C08_racing_deregistration_absorbs_one : forall c f e c' f',
  cstep good c f PAbsorb = Some (e, c', f') ->
  e = ENone /\ c = S6 /\ c' = S6 /\ 1 <= f n5 /\ 1 <= f k /\ f' n5 = f n5 - 1 /\ f' k = f k - 1 /\
  f' absd = S (f absd) /\ f' fin = S (f fin) /\ f' cnt = f cnt.
Proof. exact Proofs.CasterAbs.absorb_exactly_one. Qed.
Print Assumptions C08_racing_deregistration_absorbs_one.

(* "neither call can block forever": in any reachable state where nothing can move except idle receivers that
   might still choose to deregister, no Send is in progress or pending, no Add is in progress or pending, nobody
   owes a receive and nobody is owed a copy; *)
Theorem C08_no_deadlock : forall senders receivers sched,
  let s := run (init senders receivers) sched in
  quiescentb s = true ->
  sp s = SNone /\ v s nsend = 0 /\ v s sq = 0 /\ v s a0 = 0 /\ v s u1 = 0 /\ v s u2 = 0 /\
  v s n5 = 0 /\ v s b0o = 0 /\ v s cnt = v s b0n /\ v s armed = 0 /\
  (tpc (tg s) = TB0 \/ tpc (tg s) = TGot \/ tpc (tg s) = TFin).
Proof. exact Proofs.CasterAbs.run_quiescent_all_returned. Qed.
Print Assumptions C08_no_deadlock.

(* and every step of every schedule strictly decreases a measure that starts at 8 * senders + 5 * (receivers + 1),
   so such a state is reached after at most that many effective steps. *)
Theorem C08_terminates_measure : forall fl s p s',
  step_gen fl s p = Some s' -> Proofs.CasterAbs.measure s' < Proofs.CasterAbs.measure s.
Proof. exact Proofs.CasterAbs.step_decreases. Qed.
Print Assumptions C08_terminates_measure.

(* Mutation sensitivity (same transition function, one mechanism removed).
   A negative Add that does not receive when it sees the armed word: the Send hangs in `x.C <- value` for ever. *)
Theorem C08_no_absorb_deadlock_refuted :
  exists sched, let s := run_gen Proofs.CasterAbs.no_absorb (init 1 0) sched in
  terminalb_gen Proofs.CasterAbs.no_absorb s = true /\ sp s = S6 /\ v s k = 1 /\ v s bad = 0.
Proof. exact Proofs.CasterAbs.no_absorb_deadlock_refuted. Qed.
Print Assumptions C08_no_absorb_deadlock_refuted.

(* A positive Add that does not take the read lock can add to an armed word: a panic fires. *)
Theorem C08_no_rlock_refuted :
  exists sched, let s := run_gen Proofs.CasterAbs.no_rlock (init 1 1) sched in v s bad = 1.
Proof. exact Proofs.CasterAbs.no_rlock_refuted. Qed.
Print Assumptions C08_no_rlock_refuted.

End Protocol.

(* ================================================================================================== *)
(* Part 3: the bridge between the word (Part 1) and the protocol's (cnt, armed) (Part 2)                *)
(* ================================================================================================== *)
Section Bridge.
Import BB.Model.Caster BB.Model.CasterBridge.
Local Open Scope Z_scope.

(* the protocol state (cnt = n, armed = a) stands for the word word_of n a, and absw reads it back; *)
Theorem C08_bridge_abstraction : forall n a, (a <= 1)%nat -> Z.of_nat n <= maxi -> absw (word_of n a) = (n, a).
Proof. exact Proofs.CasterBridge.absw_word_of. Qed.
Print Assumptions C08_bridge_abstraction.

(* every valid 64-bit word is the word of its abstraction (so the abstraction loses nothing on valid words); *)
Theorem C08_bridge_concretisation : forall x, 0 <= x < two64 -> Proofs.Caster.valid x ->
  word_of (fst (absw x)) (snd (absw x)) = x.
Proof. exact Proofs.CasterBridge.word_of_absw. Qed.
Print Assumptions C08_bridge_concretisation.

(* Send's fast path `x.state.Load() == 0` is the protocol's test (cnt = 0) && (armed = 0). *)
Theorem C08_bridge_fast_path : forall n a, Z.of_nat n <= maxi -> (word_of n a = 0 <-> n = 0%nat /\ a = 0%nat).
Proof. exact Proofs.CasterBridge.word_of_zero. Qed.
Print Assumptions C08_bridge_fast_path.

(* Add(delta), ANY delta, on a word the protocol can be in: the count moves by delta, armedness is kept, the new
   count is returned and -delta receives are performed iff armed. *)
Theorem C08_bridge_add : forall n a d, (a <= 1)%nat -> Z.of_nat n <= maxi -> - maxi <= d <= maxi ->
  0 <= Z.of_nat n + d <= maxi -> (a = 1%nat -> d <= 0) ->
  add (word_of n a) d
  = (word_of (Z.to_nat (Z.of_nat n + d)) a, AddRet (Z.of_nat n + d) (if Nat.eqb a 0 then 0 else - d)).
Proof. exact Proofs.CasterBridge.wadd_ok. Qed.
Print Assumptions C08_bridge_add.

(* Read from the word's side, for every valid word x.  Add(-1) panics iff hi x = 0; otherwise it returns hi x - 1,
   the new word has that count and the same armedness, and exactly one receive is owed iff x is armed - which is
   what the protocol's deregistration step assumes. *)
Theorem C08_bridge_add_minus1 : forall x, 0 <= x < two64 -> Proofs.Caster.valid x ->
  (hi x = 0 -> snd (add x (-1)) = AddPanic) /\
  (0 < hi x -> add x (-1) = (word_of (fst (absw x) - 1) (snd (absw x)),
                              AddRet (hi x - 1) (Z.of_nat (snd (absw x))))).
Proof. exact Proofs.CasterBridge.add_minus1_on_valid. Qed.
Print Assumptions C08_bridge_add_minus1.

(* Add(+1) below MaxInt32: unarmed, the count grows by one and is returned; armed, the Add panics after having
   moved the word (the protocol's step PU1, both branches). *)
Theorem C08_bridge_add_plus1 : forall x, 0 <= x < two64 -> Proofs.Caster.valid x -> hi x < maxi ->
  (snd (absw x) = 0%nat -> add x 1 = (word_of (S (fst (absw x))) 0, AddRet (hi x + 1) 0)) /\
  (snd (absw x) = 1%nat -> add x 1 = (word_of (S (fst (absw x))) 1, AddPanic)).
Proof. exact Proofs.CasterBridge.add_plus1_on_valid. Qed.
Print Assumptions C08_bridge_add_plus1.

(* Send up to its arming CAS on a valid word: 0 on count 0 / unarmed; an unarmed word with count > 0 becomes exactly
   the armed word with the same count, `receivers` = that count; an armed word panics (the protocol's step S4). *)
Theorem C08_bridge_send_begin : forall x, 0 <= x < two64 -> Proofs.Caster.valid x ->
  (fst (absw x) = 0%nat -> snd (absw x) = 0%nat -> send_begin x = (x, SbZero)) /\
  ((0 < fst (absw x))%nat -> snd (absw x) = 0%nat ->
     send_begin x = (word_of (fst (absw x)) 1, SbArmed (hi x))) /\
  (snd (absw x) = 1%nat -> send_begin x = (x, SbPanic)).
Proof. exact Proofs.CasterBridge.send_begin_on_valid. Qed.
Print Assumptions C08_bridge_send_begin.

(* Send's final load / validation / CAS on valid words (xl loaded, xc found by the CAS, r = `receivers`): it succeeds
   exactly when the protocol's S7 test (armed, count <= r) and S7c test (count unchanged, still armed) say so. *)
Theorem C08_bridge_send_end : forall r xl xc, 0 <= r <= maxi -> 0 <= xl < two64 -> Proofs.Caster.valid xl ->
  0 <= xc < two64 -> Proofs.Caster.valid xc ->
  send_end_cas r xl xc =
  if ((fst (absw xl) <=? Z.to_nat r)%nat && Nat.eqb (snd (absw xl)) 1 &&
      Nat.eqb (fst (absw xc)) (fst (absw xl)) && Nat.eqb (snd (absw xc)) 1)%bool
  then (0, SeRet (hi xl)) else (xc, SePanic).
Proof. exact Proofs.CasterBridge.send_end_on_valid. Qed.
Print Assumptions C08_bridge_send_end.

(* EVERY step of the protocol commutes with the word: running the operation of Model/Caster.v that the step stands
   for (wop_of) on the word of the pre-state panics iff the step raises the protocol's [bad] flag, and otherwise
   yields exactly the word of the post-state. *)
Theorem C08_bridge_step : forall c f p e c' f',
  BB.Model.CasterAbs.cstep BB.Model.CasterAbs.good c f p = Some (e, c', f') ->
  f BB.Model.CasterAbs.bad = 0%nat -> (f BB.Model.CasterAbs.armed <= 1)%nat ->
  Z.of_nat (f BB.Model.CasterAbs.cnt) < maxi ->
  (c = BB.Model.CasterAbs.S7 \/ c = BB.Model.CasterAbs.S7c -> Z.of_nat (f BB.Model.CasterAbs.reg0) <= maxi) ->
  (c = BB.Model.CasterAbs.S7c -> (f BB.Model.CasterAbs.ret <= f BB.Model.CasterAbs.reg0)%nat) ->
  let r := wexec (wop_of c f p) (word_of (f BB.Model.CasterAbs.cnt) (f BB.Model.CasterAbs.armed)) in
  snd r = Proofs.CasterBridge.panicked_of f' /\
  (f' BB.Model.CasterAbs.bad = 0%nat ->
   fst r = word_of (f' BB.Model.CasterAbs.cnt) (f' BB.Model.CasterAbs.armed)).
Proof. exact Proofs.CasterBridge.cstep_word_refines. Qed.
Print Assumptions C08_bridge_step.

(* Along EVERY schedule (fewer than MaxInt32 receivers): the real word, starting at 0 and driven only by the
   operations of Model/Caster.v (wrun), is at every point the packing of the protocol's (cnt, armed), and none of
   those operations panics. *)
Theorem C08_bridge_run : forall senders receivers sched, Z.of_nat (S receivers) < maxi ->
  wrun (BB.Model.CasterAbs.init senders receivers) 0 false sched
  = (BB.Model.CasterAbs.run (BB.Model.CasterAbs.init senders receivers) sched,
     Proofs.CasterBridge.word_of_st (BB.Model.CasterAbs.run (BB.Model.CasterAbs.init senders receivers) sched),
     false).
Proof. exact Proofs.CasterBridge.word_tracks_run. Qed.
Print Assumptions C08_bridge_run.

Theorem C08_bridge_reachable_word : forall senders receivers sched, Z.of_nat (S receivers) < maxi ->
  let s := BB.Model.CasterAbs.run (BB.Model.CasterAbs.init senders receivers) sched in
  Proofs.Caster.valid (Proofs.CasterBridge.word_of_st s) /\
  absw (Proofs.CasterBridge.word_of_st s)
  = (BB.Model.CasterAbs.v s BB.Model.CasterAbs.cnt, BB.Model.CasterAbs.v s BB.Model.CasterAbs.armed) /\
  (Proofs.CasterBridge.word_of_st s = 0 <->
   BB.Model.CasterAbs.v s BB.Model.CasterAbs.cnt = 0%nat /\ BB.Model.CasterAbs.v s BB.Model.CasterAbs.armed = 0%nat).
Proof. exact Proofs.CasterBridge.reachable_word_valid. Qed.
Print Assumptions C08_bridge_reachable_word.

End Bridge.

(* ================================================================================================== *)
(* Part 4: "every delta in the int range": a delta of +-n is n deltas of +-1, back to back              *)
(* ================================================================================================== *)
Section Deltas.
Import BB.Model.Caster BB.Model.CasterBridge.
Local Open Scope Z_scope.

(* on every word, Add(a) then Add(b) leaves the word Add(a+b) leaves (in-range deltas); *)
Theorem C08_delta_word_additive : forall x a b, 0 <= x < two64 ->
  Proofs.CasterDelta.inr_delta a -> Proofs.CasterDelta.inr_delta b -> Proofs.CasterDelta.inr_delta (a + b) ->
  fst (add (fst (add x a)) b) = fst (add x (a + b)).
Proof. exact Proofs.CasterDelta.add_fst_additive. Qed.
Print Assumptions C08_delta_word_additive.

(* for deltas of the same sign, Add(a+b) returns normally iff Add(a) and then Add(b) do, *)
Theorem C08_delta_split_iff : forall x a b, 0 <= x < two64 -> Proofs.CasterDelta.same_sign a b ->
  (Proofs.Caster.good_word x (a + b) <->
   Proofs.Caster.good_word x a /\ Proofs.Caster.good_word (fst (add x a)) b).
Proof. exact Proofs.CasterDelta.good_word_split. Qed.
Print Assumptions C08_delta_split_iff.

(* and then the final word, the final count and the receives performed agree; *)
Theorem C08_delta_split : forall x a b, 0 <= x < two64 -> Proofs.CasterDelta.same_sign a b ->
  Proofs.Caster.good_word x (a + b) ->
  let x1 := fst (add x a) in
  add x a = (x1, AddRet (hi x + a) (Proofs.CasterDelta.absorb1 x a)) /\
  add x1 b = (fst (add x (a + b)), AddRet (hi x + a + b) (Proofs.CasterDelta.absorb1 x b)) /\
  add x (a + b) = (fst (add x (a + b)),
                   AddRet (hi x + a + b) (Proofs.CasterDelta.absorb1 x a + Proofs.CasterDelta.absorb1 x b)).
Proof. exact Proofs.CasterDelta.add_split. Qed.
Print Assumptions C08_delta_split.

(* Add(u*n), u = +-1, against n unit Adds in a row (unit_iter): same final word; it returns normally iff each of them
   does; the i-th unit Add returns hi + u*i; Add(u*n) returns hi + u*n and performs n times the receives of one; *)
Theorem C08_delta_units : forall x u n, 0 <= x < two64 -> u = 1 \/ u = -1 -> (1 <= n)%nat -> Z.of_nat n <= maxi ->
  Proofs.CasterDelta.unit_iter u n x = fst (add x (u * Z.of_nat n)) /\
  (Proofs.Caster.good_word x (u * Z.of_nat n) <->
   forall i, (i < n)%nat -> Proofs.Caster.good_word (Proofs.CasterDelta.unit_iter u i x) u) /\
  (Proofs.Caster.good_word x (u * Z.of_nat n) ->
     (forall i, (i < n)%nat ->
        add (Proofs.CasterDelta.unit_iter u i x) u
        = (Proofs.CasterDelta.unit_iter u (S i) x,
           AddRet (hi x + u * Z.of_nat (S i)) (Proofs.CasterDelta.absorb1 x u))) /\
     snd (add x (u * Z.of_nat n))
     = AddRet (hi x + u * Z.of_nat n) (Z.of_nat n * Proofs.CasterDelta.absorb1 x u)).
Proof. exact Proofs.CasterDelta.add_n_units. Qed.
Print Assumptions C08_delta_units.

(* so Add(u*n) panics iff one of the n unit Adds does (valid or invalid word alike). *)
Theorem C08_delta_panics_iff : forall x u n, 0 <= x < two64 -> u = 1 \/ u = -1 -> (1 <= n)%nat ->
  Z.of_nat n <= maxi ->
  (snd (add x (u * Z.of_nat n)) = AddPanic <->
   exists i, (i < n)%nat /\ snd (add (Proofs.CasterDelta.unit_iter u i x) u) = AddPanic).
Proof. exact Proofs.CasterDelta.add_n_panics_iff. Qed.
Print Assumptions C08_delta_panics_iff.

(* In the protocol (citer = the same counter step n times, nothing in between - an interleaving every schedule
   quantifier of Part 2 contains): ONE call Add(+n) under the read lock does to the word what n steps PU1 do to
   (cnt, armed), and returns the new count; *)
Theorem C08_delta_protocol_add_n : forall n c f, (1 <= n)%nat -> (n <= f BB.Model.CasterAbs.u1)%nat ->
  f BB.Model.CasterAbs.armed = 0%nat -> Z.of_nat (f BB.Model.CasterAbs.cnt + n) <= maxi ->
  exists f', Proofs.CasterDelta.citer c f BB.Model.CasterAbs.PU1 n = Some (c, f') /\
    add (word_of (f BB.Model.CasterAbs.cnt) (f BB.Model.CasterAbs.armed)) (Z.of_nat n)
    = (word_of (f' BB.Model.CasterAbs.cnt) (f' BB.Model.CasterAbs.armed),
       AddRet (Z.of_nat (f' BB.Model.CasterAbs.cnt)) 0).
Proof. exact Proofs.CasterDelta.add_n_is_n_steps. Qed.
Print Assumptions C08_delta_protocol_add_n.

(* ONE call Add(-n) by n idle registered receivers does what n deregistration steps do, and the number of receives
   it performs is the number of entries those steps add to n5: n while a Send is armed, none otherwise. *)
Theorem C08_delta_protocol_sub_n : forall n c f, (1 <= n)%nat -> (n <= f BB.Model.CasterAbs.cnt)%nat ->
  (f BB.Model.CasterAbs.armed <= 1)%nat -> Z.of_nat (f BB.Model.CasterAbs.cnt) <= maxi ->
  (f BB.Model.CasterAbs.armed = 1%nat -> (n <= f BB.Model.CasterAbs.b0o)%nat) ->
  (f BB.Model.CasterAbs.armed = 0%nat -> (n <= f BB.Model.CasterAbs.b0n)%nat) ->
  exists f', Proofs.CasterDelta.citer c f (if Nat.eqb (f BB.Model.CasterAbs.armed) 0
                                           then BB.Model.CasterAbs.PDeregN else BB.Model.CasterAbs.PDeregO) n
             = Some (c, f') /\
    add (word_of (f BB.Model.CasterAbs.cnt) (f BB.Model.CasterAbs.armed)) (- Z.of_nat n)
    = (word_of (f' BB.Model.CasterAbs.cnt) (f' BB.Model.CasterAbs.armed),
       AddRet (Z.of_nat (f' BB.Model.CasterAbs.cnt))
              (Z.of_nat (f' BB.Model.CasterAbs.n5 - f BB.Model.CasterAbs.n5))).
Proof. exact Proofs.CasterDelta.sub_n_is_n_steps. Qed.
Print Assumptions C08_delta_protocol_sub_n.

End Deltas.

(* ================================================================================================== *)
(* Part 5: late registration on reachable states, and its positive half                                 *)
(* ================================================================================================== *)
Section Late.
Import BB.Model.CasterAbs.

(* C08_late_registration_blocked on runs: from the moment a Send has announced itself on the mutex until it unlocks,
   in every reachable state, no Add(+1) passes RLock; *)
Theorem C08_late_registration_blocked_run : forall senders receivers sched,
  let s := run (init senders receivers) sched in
  sp s <> SNone -> step s (PB PU0) = None /\ step s (PT TU0) = None.
Proof. exact Proofs.CasterLate.late_blocked_run. Qed.
Print Assumptions C08_late_registration_blocked_run.

(* C08_late_registration_gets_nothing on runs; *)
Theorem C08_late_registration_gets_nothing_run : forall senders receivers sched,
  let s := run (init senders receivers) sched in
  Proofs.CasterAbs.counted (sp s) = true ->
  v s b0n = 0 /\ step s (PB PRecvN) = None /\
  (tow (tg s) = false ->
     trs (tg s) = 0 /\ tas (tg s) = 0 /\
     (tpc (tg s) = TA0 \/ tpc (tg s) = TGot \/ tpc (tg s) = TFin) /\ step s (PT TRecv) = None).
Proof. exact Proofs.CasterLate.late_gets_nothing_run. Qed.
Print Assumptions C08_late_registration_gets_nothing_run.

(* C08_late_registration_stable on runs, and already from the announcement (S3) on; *)
Theorem C08_late_registration_stable_run : forall senders receivers sched p s',
  let s := run (init senders receivers) sched in
  sp s <> SNone -> tpc (tg s) = TA0 -> step s p = Some s' -> tpc (tg s') = TA0.
Proof. exact Proofs.CasterLate.late_stable_run. Qed.
Print Assumptions C08_late_registration_stable_run.

(* over the whole Send: a receiver that is before RLock when a Send is announced or running stays there - having
   received and absorbed nothing, its RLock still refused - along ANY continuation of the schedule during which
   that Send does not unlock ("takes effect only for a later Send", negative half). *)
Theorem C08_late_registration_whole_send : forall senders receivers sched1 sched2,
  let s1 := run (init senders receivers) sched1 in
  tpc (tg s1) = TA0 ->
  (forall j, sp (run s1 (firstn j sched2)) <> SNone) ->
  let s2 := run s1 sched2 in
  tpc (tg s2) = TA0 /\ trcv (tg s2) = 0 /\ tabs (tg s2) = 0 /\ step s2 (PT TU0) = None.
Proof. exact Proofs.CasterLate.late_whole_send. Qed.
Print Assumptions C08_late_registration_whole_send.

(* Positive half.  Once registered and idle the receiver is in the count, so a Send called meanwhile cannot return 0
   on the fast path: it queues on the mutex; *)
Theorem C08_registered_send_takes_slow_path : forall senders receivers sched,
  let s := run (init senders receivers) sched in
  tpc (tg s) = TB0 ->
  1 <= v s cnt /\
  (forall s', step s (PB PSendStart) = Some s' -> v s' nzero = v s nzero /\ v s' sq = S (v s sq)).
Proof. exact Proofs.CasterLate.registered_is_counted. Qed.
Print Assumptions C08_registered_send_takes_slow_path.

(* and it is served by a LATER Send: if, along any continuation, some Send completes (unlocks: nret grows), then by
   that time the receiver has received exactly one value, or it has deregistered and received none (fairness is
   the hypothesis "a later Send completes"; that a Send which started does complete is C08_no_deadlock); *)
Theorem C08_late_registration_served : forall senders receivers sched1 sched2,
  let s1 := run (init senders receivers) sched1 in
  let s2 := run s1 sched2 in
  tpc (tg s1) = TB0 -> v s1 nret < v s2 nret ->
  (tpc (tg s2) = TGot /\ trcv (tg s2) = 1 /\ tabs (tg s2) = 0) \/
  (tpc (tg s2) = TFin /\ trcv (tg s2) = 0).
Proof. exact Proofs.CasterLate.late_served. Qed.
Print Assumptions C08_late_registration_served.

(* if it does not give up, it has received exactly one value. *)
Theorem C08_late_registration_served_no_giveup : forall senders receivers sched1 sched2,
  let s1 := run (init senders receivers) sched1 in
  let s2 := run s1 sched2 in
  tpc (tg s1) = TB0 -> ~ In (PT TDereg) sched2 -> v s1 nret < v s2 nret ->
  tpc (tg s2) = TGot /\ trcv (tg s2) = 1 /\ tabs (tg s2) = 0.
Proof. exact Proofs.CasterLate.late_served_no_giveup. Qed.
Print Assumptions C08_late_registration_served_no_giveup.

End Late.

(* ================================================================================================== *)
(* Part 6: buffered channels (Model/CasterBuf.v: capacity cbuf; dg = idle receivers may give up)       *)
(* ================================================================================================== *)
Section Buffered.
Import BB.Model.CasterAbs BB.Model.CasterBuf.

(* DEFECT (reproduced on the real code).  Capacity 1, one receiver following the documented usage: it registers; the
   Send puts its copy into the buffer, resets the word to 0 and returns 1; the receiver's select takes another case
   and it calls Add(-1) as the documentation of Add tells it to ("has not and will not receive a value"): no panic
   so far, the step is enabled, and it panics. *)
Theorem C08_buffered_giveup_panics_refuted :
  exists sched, let s := brun 1 good true (binit 1 1) sched in
  bv s bad = 0 /\ bstep_st 1 good true s QDeregS <> None /\
  bv (brun 1 good true s [QDeregS]) bad = 1.
Proof. exact Proofs.CasterBufRefute.buffered_giveup_panics_refuted. Qed.
Print Assumptions C08_buffered_giveup_panics_refuted.

(* The same give-up between Send's final load and its CAS to 0 (possible only with copies in a buffer): the Add(-1)
   returns normally and absorbs the buffered copy, the SEND panics and leaves the word armed (also reproduced on the
   real code, by a stress test). *)
Theorem C08_buffered_send_cas_panics_refuted :
  exists sched, let s := brun 1 good true (binit 1 1) sched in
  bsp s = S7c /\ bv s bad = 0 /\ bv s n5 = 1 /\
  let s' := brun 1 good true s [QBase PS] in bsp s' = S8 /\ bv s' bad = 1 /\ bv s' armed = 1.
Proof. exact Proofs.CasterBufRefute.buffered_send_cas_panics_refuted. Qed.
Print Assumptions C08_buffered_send_cas_panics_refuted.

(* Nobody gives up (dg = false), capacity 1, two receivers, two Sends: a receiver registered after Send#1 returned
   receives Send#1's value (stolen), and Send#2's value goes to the receiver Send#1 had counted (misd): "to each
   receiver registered before the Send began ... and to nobody else" fails, although all counts are right. *)
Theorem C08_buffered_misdelivery_refuted :
  exists sched, let s := brun 1 good false (binit 2 2) sched in
  bv s bad = 0 /\ bv s stolen = 1 /\ misd (bx s) = 1 /\ bsp s = SNone /\ bv s nret = 2 /\ bv s retsum = 2 /\
  bv s got = 2.
Proof. exact Proofs.CasterBufRefute.buffered_misdelivery_refuted. Qed.
Print Assumptions C08_buffered_misdelivery_refuted.

(* What holds with a buffer.  The two safe regimes: cbuf = 0 (receivers may give up - Part 2), or any capacity when
   no receiver ever gives up.  In both, on every schedule: no panic of the code fires; *)
Theorem C08_buffered_regimes_no_panic : forall cbuf dg senders receivers sched,
  cbuf = 0 \/ dg = false ->
  bv (brun cbuf good dg (binit senders receivers) sched) bad = 0.
Proof. exact Proofs.CasterBufSafe.safe_no_panic. Qed.
Print Assumptions C08_buffered_regimes_no_panic.

(* a Send about to return: return value + copies absorbed by racing Add(-1)s = the count it armed with; the word is
   0; no Add(-1) still owes a receive; every value left in the buffer has a registered receiver waiting for it; *)
Theorem C08_buffered_regimes_send_return : forall cbuf dg senders receivers sched,
  cbuf = 0 \/ dg = false ->
  let s := brun cbuf good dg (binit senders receivers) sched in
  bsp s = S8 ->
  bv s ret + bv s absd = bv s reg0 /\ bv s cnt = 0 /\ bv s armed = 0 /\ bv s n5 = 0 /\
  qc (bx s) = 0 /\ qo (bx s) = b0s (bx s) /\ bv s got + qo (bx s) = bv s retsum + bv s ret.
Proof. exact Proofs.CasterBufSafe.safe_send_return. Qed.
Print Assumptions C08_buffered_regimes_send_return.

(* between Sends: values received + values still buffered = the sum of the Sends' return values, and each buffered
   value (or value taken early) is matched by a waiting receiver whose registration a finished Send has used up; *)
Theorem C08_buffered_regimes_conservation : forall cbuf dg senders receivers sched,
  cbuf = 0 \/ dg = false ->
  let s := brun cbuf good dg (binit senders receivers) sched in
  bsp s = SNone ->
  bv s got + qo (bx s) = bv s retsum /\ qc (bx s) = 0 /\ qo (bx s) + pre (bx s) = b0s (bx s) /\
  bv s cnt = bv s u2 + bv s b0n + pre (bx s) /\ bv s armed = 0.
Proof. exact Proofs.CasterBufSafe.safe_conservation. Qed.
Print Assumptions C08_buffered_regimes_conservation.

(* nobody gives up, any capacity: every Send returns exactly the count it armed with; *)
Theorem C08_buffered_nogiveup_send_return_exact : forall cbuf senders receivers sched,
  let s := brun cbuf good false (binit senders receivers) sched in
  bv s bad = 0 /\ (bsp s = S8 -> bv s ret = bv s reg0 /\ bv s cnt = 0 /\ bv s armed = 0).
Proof. exact Proofs.CasterBufSafe.nogiveup_send_return_exact. Qed.
Print Assumptions C08_buffered_nogiveup_send_return_exact.

(* capacity 0 with give-ups: nothing is ever buffered, nobody is stale, no value reaches a wrong taker, and the
   statements of Part 2 hold of this model too; *)
Theorem C08_unbuffered_clean : forall dg senders receivers sched,
  let s := brun 0 good dg (binit senders receivers) sched in
  bv s bad = 0 /\ bv s stolen = 0 /\ misd (bx s) = 0 /\
  qo (bx s) = 0 /\ qc (bx s) = 0 /\ b0s (bx s) = 0 /\ pre (bx s) = 0 /\
  (bsp s = S8 -> bv s ret = bv s dlv /\ bv s ret + bv s absd = bv s reg0 /\ bv s cnt = 0 /\ bv s armed = 0) /\
  (bsp s = SNone -> bv s got = bv s retsum).
Proof. exact Proofs.CasterBufSafe.unbuffered_clean. Qed.
Print Assumptions C08_unbuffered_clean.

(* in both regimes no call blocks for ever: when nothing can move except idle receivers that might still give up, no
   Send or Add is in progress or pending, the buffer is empty and the count is the number of idle receivers; *)
Theorem C08_buffered_regimes_no_deadlock : forall cbuf dg senders receivers sched,
  cbuf = 0 \/ dg = false ->
  let s := brun cbuf good dg (binit senders receivers) sched in
  bquiescentb cbuf good dg s = true ->
  bsp s = SNone /\ bv s nsend = 0 /\ bv s sq = 0 /\ bv s a0 = 0 /\ bv s u1 = 0 /\ bv s u2 = 0 /\
  bv s n5 = 0 /\ bv s b0o = 0 /\ qo (bx s) = 0 /\ qc (bx s) = 0 /\
  bv s cnt = bv s b0n + b0s (bx s) /\ bv s armed = 0.
Proof. exact Proofs.CasterBufSafe.brun_quiescent_all_returned. Qed.
Print Assumptions C08_buffered_regimes_no_deadlock.

(* and the RECIPIENTS are right as well (nobody gives up, any capacity) on every schedule in which a value is taken
   only while no receiver counted by a finished Send still waits for its own - or by such a receiver, from the
   buffer (Proofs.CasterBufSafe.disciplined; the schedule of C08_buffered_misdelivery_refuted is not). *)
Theorem C08_buffered_disciplined_recipients : forall cbuf senders receivers sched,
  Proofs.CasterBufSafe.disciplined cbuf false (binit senders receivers) sched ->
  let s := brun cbuf good false (binit senders receivers) sched in bv s stolen = 0 /\ misd (bx s) = 0.
Proof. exact Proofs.CasterBufSafe.disciplined_clean. Qed.
Print Assumptions C08_buffered_disciplined_recipients.

(* The buffered model at capacity 0 IS the protocol of Part 2, step for step (in every state satisfying its
   invariant, hence every reachable one): the buffer steps are dead, *)
Theorem C08_buffer0_extra_steps_disabled : forall dg c f x p, Proofs.CasterBuf.CInvB 0 dg c f x ->
  (forall b, p <> QBase b) -> bstep 0 good dg c f x p = None.
Proof. exact Proofs.CasterBufSim.buf0_extra_disabled. Qed.
Print Assumptions C08_buffer0_extra_steps_disabled.

(* each of its steps is a step of CasterAbs.cstep with the same successor, *)
Theorem C08_buffer0_forward : forall dg c f x b c' f' x', Proofs.CasterBuf.CInvB 0 dg c f x ->
  bstep 0 good dg c f x (QBase b) = Some (c', f', x') ->
  exists e f'', cstep good c f b = Some (e, c', f'') /\ (forall y, f' y = f'' y) /\ x' = x.
Proof. exact Proofs.CasterBufSim.buf0_forward. Qed.
Print Assumptions C08_buffer0_forward.

(* and conversely. *)
Theorem C08_buffer0_backward : forall c f x b e c' f'', Proofs.CasterBuf.CInvB 0 true c f x ->
  cstep good c f b = Some (e, c', f'') ->
  exists f', bstep 0 good true c f x (QBase b) = Some (c', f', x) /\ (forall y, f' y = f'' y).
Proof. exact Proofs.CasterBufSim.buf0_backward. Qed.
Print Assumptions C08_buffer0_backward.

Theorem C08_buffer0_invariant_reachable : forall dg senders receivers sched,
  let s := brun 0 good dg (binit senders receivers) sched in Proofs.CasterBuf.CInvB 0 dg (bsp s) (bv s) (bx s).
Proof. exact Proofs.CasterBufSim.buf0_invariant_reachable. Qed.
Print Assumptions C08_buffer0_invariant_reachable.

End Buffered.
