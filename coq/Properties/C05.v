(* C05 — Blocked Get / WaitCond always wakes; a failed Get consumes nothing.
   Models: Model/WaitCond.v (waiter, watcher goroutine, n notifier critical sections, a canceller; one step per
   lock/cond operation, notify-list condition variable) and Model/Buffer.v (third clause). Statements only. *)
From Coq Require Import List Bool Arith.
From BB.Model Require WaitCond Buffer.
From BB.Proofs Require WaitCond Buffer.
Import ListNotations.

Section WaitCondClauses.
Import BB.Model.WaitCond.

(* No lost wake-up: in every reachable terminal state, if the predicate holds or the context is cancelled the waiter has
   returned (and released the lock); and once it has returned its watcher goroutine has exited. For every number of
   notifiers, initial predicate value, context mode and schedule. *)
Theorem C05_waitcond_returns : forall n p0 cm sched,
  let s := run true true (init n p0 cm) sched in
  is_terminal true true s = true ->
  ((pred s = true \/ cancelled s = true) -> w s = WReleased /\ lk s = Nobody) /\
  (returned s = true -> watcher_done s = true).
Proof. exact Proofs.WaitCond.waitcond_returns. Qed.
Print Assumptions C05_waitcond_returns.

(* nil is returned only after the predicate returned true with the lock held by the waiter *)
Theorem C05_nil_only_after_true_under_lock : forall wl rc n p0 cm sched,
  let s := run wl rc (init n p0 cm) sched in
  (retv s = Some true -> last_fn_true_holding s = true) /\
  (w s = WRetNil -> retv s = Some true /\ pred s = true /\ lk s = OW).
Proof. exact Proofs.WaitCond.nil_only_after_true_under_lock. Qed.
Print Assumptions C05_nil_only_after_true_under_lock.

(* otherwise the context's error, and only if the context really is cancelled — even if nobody ever broadcasts *)
Theorem C05_err_only_if_cancelled : forall wl rc n p0 cm sched,
  let s := run wl rc (init n p0 cm) sched in
  (retv s = Some false -> cancelled s = true) /\ (w s = WRetErr -> retv s = Some false).
Proof. exact Proofs.WaitCond.err_only_if_cancelled. Qed.
Print Assumptions C05_err_only_if_cancelled.

Theorem C05_returns_even_without_notifiers : forall p0 sched,
  let s := run true true (init 0 p0 CtxCancellable) sched in
  is_terminal true true s = true -> w s = WReleased /\ lk s = Nobody /\ watcher_done s = true.
Proof. exact Proofs.WaitCond.returns_even_without_notifiers. Qed.
Print Assumptions C05_returns_even_without_notifiers.

Theorem C05_terminates : forall wl rc s pre, exists post, is_terminal wl rc (run wl rc s (pre ++ post)) = true.
Proof. exact Proofs.WaitCond.terminates. Qed.
Print Assumptions C05_terminates.

(* every schedule makes at most mu(s) moves (a number that depends on the start state only): parking for ever while a wake-up
   is due is impossible, the terminal states above cannot be avoided *)
Theorem C05_every_schedule_bounded : forall wl rc sched s, moves wl rc s sched <= Proofs.WaitCond.mu s.
Proof. exact Proofs.WaitCond.moves_bounded. Qed.
Print Assumptions C05_every_schedule_bounded.

(* sensitivity: without the watcher taking the lock, or without the context re-check in the loop, the wake-up CAN be lost *)
Theorem C05_needs_lock_refuted :
  exists sched, let s := run false true (init 0 false CtxCancellable) sched in
  is_terminal false true s = true /\ cancelled s = true /\ returned s = false /\ w s = WParked.
Proof. exact Proofs.WaitCond.needs_lock_refuted. Qed.
Print Assumptions C05_needs_lock_refuted.
Theorem C05_needs_recheck_refuted :
  exists sched, let s := run true false (init 0 false CtxCancellable) sched in
    is_terminal true false s = true /\ cancelled s = true /\ pred s = false /\ returned s = false /\
    w s = WParked /\ watcher_done s = true.
Proof. exact Proofs.WaitCond.needs_recheck_refuted. Qed.
Print Assumptions C05_needs_recheck_refuted.
End WaitCondClauses.

Section BufferClause.
Import BB.Model.Buffer.
(* A Get that does not return a value (error, or would park) changes nothing: the value it would have returned is
   returned by the next successful Get. *)
Theorem C05_failed_get_consumes_nothing : forall s c s' r,
  step s (OGet c) = (s', r) -> (forall v, r <> RVal v) -> s' = s /\ (r = REmpty \/ r = RErr).
Proof. exact Proofs.Buffer.step_get_fail. Qed.
Print Assumptions C05_failed_get_consumes_nothing.
End BufferClause.

(* C05 (part: Buffer + WaitCond composed) — a blocked consumer.Get always wakes.
   Model: Model/ShutdownProto.v (see Properties/C12_part_shutdown.v for the reading of [reachable_upto] and
   [quiescent]): Get's synchronous check under the read lock, its getAsync goroutine running WaitCond on b.cond under
   the write lock with the combined context, WaitCond's watcher, CombineContext's AfterFunc, against Put, cancellation of
   the caller's context, Buffer.Close, consumer.Close, Commit/Rollback and Diff, one step per lock/cond/context/channel
   operation.  Statements only. *)
From Coq Require Import NArith.
From BB.Model Require ShutdownProto.
From BB.Proofs Require ShutdownProto.

Section GetWakes.
Import BB.Model.ShutdownProto.
Import BB.Model.ShutdownProto.

(* No lost wake-up: in every quiescent state in which Get has been called and a value is available, or the consumer's,
   the buffer's or the caller's context is cancelled — wherever the Put / cancel / Close fell relative to Get's check,
   its goroutine's check and its parking — Get has returned with a result, its goroutines are gone, the locks free. *)
Theorem C05_parked_get_wakes : forall s, Proofs.ShutdownProto.reachable_upto 2 s ->
  quiescent faithful s = true -> get_called s = true ->
  avail s = true \/ ccan s = true \/ bcan s = true \/ ucan s = true ->
  get_returned s = true /\ gres s <> RNone /\ get_goroutines_gone s = true /\ locks_free s = true.
Proof. exact Proofs.ShutdownProto.parked_get_wakes2. Qed.
Print Assumptions C05_parked_get_wakes.

(* ... and a Get that is still blocked when nothing can move is blocked legitimately: no value, nothing cancelled, nothing
   closed; it holds c.mutex, so at most a Diff, a Commit/Rollback and a consumer.Close wait behind it. *)
Theorem C05_blocked_get_is_legitimate : forall s, Proofs.ShutdownProto.reachable_upto 2 s ->
  quiescent faithful s = true -> get_called s = true -> get_returned s = false ->
  get_parked s = true /\ avail s = false /\ ccan s = false /\ bcan s = false /\ ucan s = false /\
  bclose_called s = false /\ consumer_open s = true /\ cm s = CG /\
  (df s = DIdle \/ df s = DLockC) /\ (cr s = CRIdle \/ cr s = CRLockC) /\
  (cclose_called s = true -> cc s = CCBody /\ cl s = ClLockC).
Proof. exact Proofs.ShutdownProto.blocked_get_is_legitimate2. Qed.
Print Assumptions C05_blocked_get_is_legitimate.

(* "promptly": every step decreases the measure, so the quiescent states above cannot be postponed for ever *)
Theorem C05_every_step_decreases_mu : forall s pk s', Proofs.ShutdownProto.reachable_upto 2 s ->
  step faithful s pk = Some s' -> (mu s' < mu s)%N.
Proof. exact Proofs.ShutdownProto.every_step_decreases_mu2. Qed.
Print Assumptions C05_every_step_decreases_mu.

(* the result is the right one: a value only if there was one, an error only on a cancelled context; a Get begun after
   the consumer's context was cancelled fails without read-locking the buffer, spawning or parking *)
Theorem C05_get_result_meaning : forall s, Proofs.ShutdownProto.reachable_upto 2 s ->
  (gres s = RVal -> avail s = true) /\
  (gres s = RErr -> ccan s = true \/ ucan s = true) /\
  (gafter s = true -> gres s <> RVal /\ ga s = GANone /\ gr s = false).
Proof. exact Proofs.ShutdownProto.get_result_meaning2. Qed.
Print Assumptions C05_get_result_meaning.

(* sensitivity, same step function: the watcher broadcasting without b.mutex, or WaitCond not re-checking the context
   after a wake-up, loses the wake-up of a cancelled Get *)
Theorem C05_get_watcher_needs_lock_refuted :
  exists sched, let s := run Proofs.ShutdownProto.var_watcher_no_lock (init false false true 1 0 0 0) sched in
    quiescent Proofs.ShutdownProto.var_watcher_no_lock s = true /\ get_called s = true /\ ucan s = true /\
    get_returned s = false /\ get_parked s = true /\ gw s = TExit.
Proof. exact Proofs.ShutdownProto.watcher_needs_lock_refuted. Qed.
Print Assumptions C05_get_watcher_needs_lock_refuted.

Theorem C05_get_recheck_ctx_refuted :
  exists sched, let s := run Proofs.ShutdownProto.var_no_recheck (init false false true 1 0 0 0) sched in
    quiescent Proofs.ShutdownProto.var_no_recheck s = true /\ ucan s = true /\ get_returned s = false /\
    get_parked s = true /\ gw s = TExit.
Proof. exact Proofs.ShutdownProto.recheck_ctx_refuted. Qed.
Print Assumptions C05_get_recheck_ctx_refuted.
End GetWakes.

