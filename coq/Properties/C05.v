(* C05 — Blocked Get / WaitCond always wakes; a failed Get consumes nothing.
   Models: Model/WaitCond.v (waiter, watcher goroutine, n notifier critical sections, a canceller; one step per
   lock/cond operation, notify-list condition variable) and Model/Buffer.v (third clause). Statements only. *)
From Coq Require Import List Bool Arith.
From BB.Model Require WaitCond Buffer.
From BB.Proofs Require WaitCond Buffer.
Import ListNotations.

Section WaitCondClauses.
Import BB.Model.WaitCond.

(* No lost wake-up: in every reachable terminal state, if the predicate holds or the context is cancelled the waiter has
   returned (and released the lock); and once it has returned its watcher goroutine has exited. For every number of
   notifiers, initial predicate value, context mode and schedule. *)
Theorem C05_waitcond_returns : forall n p0 cm sched,
  let s := run true true (init n p0 cm) sched in
  is_terminal true true s = true ->
  ((pred s = true \/ cancelled s = true) -> w s = WReleased /\ lk s = Nobody) /\
  (returned s = true -> watcher_done s = true).
Proof. exact Proofs.WaitCond.waitcond_returns. Qed.
Print Assumptions C05_waitcond_returns.

(* nil is returned only after the predicate returned true with the lock held by the waiter *)
Theorem C05_nil_only_after_true_under_lock : forall wl rc n p0 cm sched,
  let s := run wl rc (init n p0 cm) sched in
  (retv s = Some true -> last_fn_true_holding s = true) /\
  (w s = WRetNil -> retv s = Some true /\ pred s = true /\ lk s = OW).
Proof. exact Proofs.WaitCond.nil_only_after_true_under_lock. Qed.
Print Assumptions C05_nil_only_after_true_under_lock.

(* otherwise the context's error, and only if the context really is cancelled — even if nobody ever broadcasts *)
Theorem C05_err_only_if_cancelled : forall wl rc n p0 cm sched,
  let s := run wl rc (init n p0 cm) sched in
  (retv s = Some false -> cancelled s = true) /\ (w s = WRetErr -> retv s = Some false).
Proof. exact Proofs.WaitCond.err_only_if_cancelled. Qed.
Print Assumptions C05_err_only_if_cancelled.

Theorem C05_returns_even_without_notifiers : forall p0 sched,
  let s := run true true (init 0 p0 CtxCancellable) sched in
  is_terminal true true s = true -> w s = WReleased /\ lk s = Nobody /\ watcher_done s = true.
Proof. exact Proofs.WaitCond.returns_even_without_notifiers. Qed.
Print Assumptions C05_returns_even_without_notifiers.

Theorem C05_terminates : forall wl rc s pre, exists post, is_terminal wl rc (run wl rc s (pre ++ post)) = true.
Proof. exact Proofs.WaitCond.terminates. Qed.
Print Assumptions C05_terminates.

(* every schedule makes at most mu(s) moves (a number that depends on the start state only): parking for ever while a wake-up
   is due is impossible, the terminal states above cannot be avoided *)
Theorem C05_every_schedule_bounded : forall wl rc sched s, moves wl rc s sched <= Proofs.WaitCond.mu s.
Proof. exact Proofs.WaitCond.moves_bounded. Qed.
Print Assumptions C05_every_schedule_bounded.

(* sensitivity: without the watcher taking the lock, or without the context re-check in the loop, the wake-up CAN be lost *)
Theorem C05_needs_lock_refuted :
  exists sched, let s := run false true (init 0 false CtxCancellable) sched in
  is_terminal false true s = true /\ cancelled s = true /\ returned s = false /\ w s = WParked.
Proof. exact Proofs.WaitCond.needs_lock_refuted. Qed.
Print Assumptions C05_needs_lock_refuted.
Theorem C05_needs_recheck_refuted :
  exists sched, let s := run true false (init 0 false CtxCancellable) sched in
    is_terminal true false s = true /\ cancelled s = true /\ pred s = false /\ returned s = false /\
    w s = WParked /\ watcher_done s = true.
Proof. exact Proofs.WaitCond.needs_recheck_refuted. Qed.
Print Assumptions C05_needs_recheck_refuted.
End WaitCondClauses.

Section BufferClause.
Import BB.Model.Buffer.
(* A Get that does not return a value (error, or would park) changes nothing: the value it would have returned is
   returned by the next successful Get. *)
Theorem C05_failed_get_consumes_nothing : forall s c s' r,
  step s (OGet c) = (s', r) -> (forall v, r <> RVal v) -> s' = s /\ (r = REmpty \/ r = RErr).
Proof. exact Proofs.Buffer.step_get_fail. Qed.
Print Assumptions C05_failed_get_consumes_nothing.
End BufferClause.
