(* C16 — Context combinators cancel exactly when specified and run hooks exactly once.
   Statements only; every proof is `exact` of a lemma of Proofs/Context.v.

   Model (Model/Context.v): the std `context` package as a forest of nodes (cancel marks a node and all its descendants
   and fires every pending AfterFunc registration on them in one atomic step; a fired registration is a goroutine `Run f`
   that runs at arbitrary later steps; stop() atomically moves Pending -> Stopped), and the three functions of
   context.go as program-counter machines, one step per std/WaitGroup call.  A schedule is a list of labels:
   LMain (the library function's own goroutine), LHook r (goroutine of fired registration r), LCancel n (the environment
   cancels input context n, at any time — before, during or after the call), LUser (the caller invokes the returned
   CancelFunc), LWaiter (ConflatedContext's waiter goroutine).  `run step init sched` is total (a disabled label is a
   stutter), so `forall sched` is "every interleaving"; `forall ns` is "every forest of input contexts, related or not,
   with every subset already cancelled" (ns is an arbitrary list of nodes); `forall others/inputs` is every number of
   inputs, nil others included.  Two contexts cancelled "simultaneously" are (a) two LCancel steps in either order with
   hook steps interleaved arbitrarily, or (b) one LCancel of a common ancestor.

   Vocabulary (definitions in Proofs/Context.v, all executable or first-order):
     src primary others ns  := the primary is non-nil and cancelled in ns, or some non-nil other is cancelled in ns
     wfc primary others n   := every non-nil context among primary/others is one of the n input nodes
     wfi inputs n           := every input is one of the n input nodes
     kR s                   := is_canc (nodes (fw s)) (fR s)      (ConflatedContext's result is cancelled)
     hasR pc                := the result context exists at pc (context.go:51 has been executed)
     lexlt / lexle          := strict / weak lexicographic order on nat * nat

   TWO MODELS OF CANCELLATION.  Part I (theorems C16_chain_.., C16_combine_.., C16_conflated_..) is about the ATOMIC model above: one cancel
   step marks all descendants and fires all their registrations.  The real package does less per step
   (go1.23 context.go: cancelCtx.cancel sets err, closes done, then walks the children; afterFuncCtx.cancel does
   once.Do(go f()); stop() does once.Do(stopped = true); for a parent that is not a std cancelCtx propagateCancel starts a
   goroutine that cancels the child after <-parent.Done()).  So really (1) a parent can be observed cancelled while a
   child is still live, (2) stop() can return true on a registration whose context is already cancelled, (3) callbacks
   start at arbitrary later times, (4) children of non-std parents are cancelled by another goroutine, arbitrarily later.
   The atomic invariants "a pending registration sits on a live node" and "parent cancelled => child cancelled" are then
   false.  Part II (theorems C16_split_..) re-proves EVERY theorem of Part I for the SPLIT model (Model/ContextSplit.v), whose schedules have
   labels  SCancel n (the owner of input n calls its CancelFunc: node n ALONE becomes cancelled), SPropg c (node c, whose
   parent -- the second entry of its ancestor list -- is cancelled, becomes cancelled: the parent's child loop, or the
   propagation goroutine), SFire r (registration r, Pending on a cancelled node, wins its once: Pending -> Run f),
   SHook r (a step of a callback goroutine; its stop_k() moves k Pending -> Stopped and returns true WHATEVER the state of
   k's node; its CancelFunc call marks one node), SMain/SWaiter/SUser (the library's own code is literally the code of the
   atomic model -- chain_step .. LMain, combine_main, confl_main -- except that each CancelFunc call marks the result node
   only).  A split state is quiescent when the function has returned and no SHook, SFire, SPropg (and waiter) step is
   enabled.  No theorem of Part I fails in the split model; the statements are the same with `grun (s.._step ..)` for
   `run (.._step ..)`, with two changes: (a) quiescence additionally means "every once decided, propagation complete";
   (b) the two CombineContext theorems that relate the result to the PRIMARY's cancellation need the primary's node to be
   a well-formed forest node (its ancestor list starts with itself, as build_env / w_child construct them):
   `Proofs.ContextSplitCombine.HdP primary ns`.  Part III: quiescence is reached, in both models.

   WHICH INPUT CONTEXTS ARE COVERED.  An input context is a node with one monotone bit ("Done is closed / Err() != nil"),
   fixed values, and a parent.  The split theorems quantify over every schedule, so they cover every context.Context
   implementation that obeys the documented Context contract (Done always returns the same channel, closed at most once
   and never reopened; Err() is nil before Done is closed and non-nil after; Value is stable): std cancelCtx/timerCtx/
   valueCtx/withoutCancelCtx chains (children cancelled inside the parent's cancel = SPropg steps taken at once) AND
   custom types, for which the std package propagates by a goroutine (WithCancel(custom) / AfterFunc(custom, f): the child
   is cancelled / f is started some time after custom.Done() is closed = a later SPropg / SFire step; theorems
   C16_split_propagation_can_be_delayed and C16_split_once_can_be_delayed say such a step stays enabled until it is
   taken).  An input that is cancelled through its own parent is an SPropg step or, equally, an SCancel step of that
   input (the schedule is universally quantified, related inputs need no special treatment).  NOT covered: Context
   implementations that violate the contract (Err() != nil while Done() is still open, or the converse; Done() returning
   different channels), and implementations with an `AfterFunc(func()) func() bool` method of their own (the std package
   delegates registration to that method; whatever it does is outside the model).  The atomic theorems of Part I cover
   only executions in which each cancel's cascade is not interleaved with other steps. *)
From Coq Require Import List Arith Bool.
From BB.Model Require Import Context ContextSplit.
From BB.Proofs Require Context ContextSplit ContextSplitCombine ContextSplitConfl ContextMore.
Import ListNotations.

(* ================================================================================================================ *)
(* PART I: the atomic model                                                                                         *)
(* ================================================================================================================ *)

(* ---------------------------------------------------------------------------------------------------------------- *)
(* ChainAfterFunc                                                                                                   *)
(* ---------------------------------------------------------------------------------------------------------------- *)

(* never twice: in every reachable state, under every schedule, f has run at most once *)
Theorem C16_chain_never_twice : forall (cx other nenv : nat) (ns : list node) (sched : list lbl),
  calls (cw (run (chain_step true cx other nenv) (chain_init ns) sched)) <= 1.
Proof. exact Proofs.Context.chain_never_twice. Qed.
Print Assumptions C16_chain_never_twice.

(* never if neither context is cancelled *)
Theorem C16_chain_never_if_neither : forall (cx other nenv : nat) (ns : list node) (sched : list lbl),
  let s := run (chain_step true cx other nenv) (chain_init ns) sched in
  calls (cw s) <> 0 -> is_canc (nodes (cw s)) cx = true \/ is_canc (nodes (cw s)) other = true.
Proof. exact Proofs.Context.chain_never_if_neither. Qed.
Print Assumptions C16_chain_never_if_neither.

(* exactly once if either is ever cancelled: every quiescent state (ChainAfterFunc returned, no hook goroutine left to
   run) in which ctx or other is cancelled has calls = 1 *)
Theorem C16_chain_exactly_once : forall (cx other nenv : nat) (ns : list node) (sched : list lbl),
  let s := run (chain_step true cx other nenv) (chain_init ns) sched in
  chain_quiescent s = true ->
  is_canc (nodes (cw s)) cx = true \/ is_canc (nodes (cw s)) other = true ->
  calls (cw s) = 1.
Proof. exact Proofs.Context.chain_exactly_once. Qed.
Print Assumptions C16_chain_exactly_once.

(* "resource cleanup hinges on ctx": once ctx is cancelled and the hooks have run, neither registration is pending *)
Theorem C16_chain_registrations_final : forall (cx other nenv : nat) (ns : list node) (sched : list lbl),
  let s := run (chain_step true cx other nenv) (chain_init ns) sched in
  chain_quiescent s = true -> is_canc (nodes (cw s)) cx = true ->
  forall i x, nth_error (regs (cw s)) i = Some x -> rst x = Stopped \/ rst x = Done.
Proof. exact Proofs.Context.chain_registrations_final. Qed.
Print Assumptions C16_chain_registrations_final.

(* quiescence is reached: (steps left in ChainAfterFunc, work left in hook goroutines) decreases strictly on every
   library/hook step and never increases when the environment cancels *)
Theorem C16_chain_progress : forall consult cx other nenv s l s',
  chain_step consult cx other nenv s l = Some s' ->
  match l with
  | LCancel _ => Proofs.Context.lexle (Proofs.Context.chain_mu s') (Proofs.Context.chain_mu s)
  | _ => Proofs.Context.lexlt (Proofs.Context.chain_mu s') (Proofs.Context.chain_mu s)
  end.
Proof. exact Proofs.Context.chain_progress. Qed.
Print Assumptions C16_chain_progress.

(* sensitivity: if the primary's hook called f without consulting stop() (consult = false), f runs twice *)
Theorem C16_chain_noconsult_refuted :
  exists ns sched, calls (cw (run (chain_step false 0 1 2) (chain_init ns) sched)) = 2.
Proof. exact Proofs.Context.chain_noconsult_refuted. Qed.
Print Assumptions C16_chain_noconsult_refuted.

(* ---------------------------------------------------------------------------------------------------------------- *)
(* CombineContext                                                                                                   *)
(* ---------------------------------------------------------------------------------------------------------------- *)

(* only if: whenever the returned context is cancelled, the primary or some non-nil other is *)
Theorem C16_combine_cancelled_only_if : forall (primary : option nat) (others : list (option nat)) (ns : list node) (sched : list lbl),
  Proofs.Context.wfc primary others (length ns) ->
  let s := run (combine_step true primary others (length ns)) (combine_init ns) sched in
  forall r, combine_ret s = Some r -> is_canc (nodes (bw s)) r = true ->
  Proofs.Context.src primary others (nodes (bw s)).
Proof. exact Proofs.Context.combine_cancelled_only_if. Qed.
Print Assumptions C16_combine_cancelled_only_if.

(* exactly when: in every quiescent state (CombineContext returned, every hook goroutine has run) the returned context
   is cancelled IFF the primary or some non-nil other is — promptness is "as soon as the hook goroutine has run" *)
Theorem C16_combine_cancelled_iff_quiescent : forall (primary : option nat) (others : list (option nat)) (ns : list node) (sched : list lbl),
  Proofs.Context.wfc primary others (length ns) ->
  let s := run (combine_step true primary others (length ns)) (combine_init ns) sched in
  combine_quiescent s = true ->
  exists r, combine_ret s = Some r /\
            (is_canc (nodes (bw s)) r = true <-> Proofs.Context.src primary others (nodes (bw s))).
Proof. exact Proofs.Context.combine_quiescent_iff. Qed.
Print Assumptions C16_combine_cancelled_iff_quiescent.

(* already cancelled if any input already is: at the very moment of return, without waiting for any goroutine *)
Theorem C16_combine_already_cancelled : forall (primary : option nat) (others : list (option nat)) (ns : list node) (sched : list lbl),
  Proofs.Context.wfc primary others (length ns) ->
  Proofs.Context.src primary others ns ->
  let s := run (combine_step true primary others (length ns)) (combine_init ns) sched in
  forall r, combine_ret s = Some r -> is_canc (nodes (bw s)) r = true.
Proof. exact Proofs.Context.combine_already_cancelled. Qed.
Print Assumptions C16_combine_already_cancelled.

(* carries the primary's values (Background's, i.e. none, for a nil primary) *)
Theorem C16_combine_values : forall (primary : option nat) (others : list (option nat)) (ns : list node) (sched : list lbl),
  Proofs.Context.wfc primary others (length ns) ->
  let s := run (combine_step true primary others (length ns)) (combine_init ns) sched in
  forall r, combine_ret s = Some r ->
  vals_of (nodes (bw s)) r = match primary with Some p => vals_of ns p | None => [] end.
Proof. exact Proofs.Context.combine_values. Qed.
Print Assumptions C16_combine_values.

(* hooks are deregistered when the result is cancelled: no registration on any context is left pending (feeds C12) *)
Theorem C16_combine_no_leak : forall (primary : option nat) (others : list (option nat)) (ns : list node) (sched : list lbl),
  Proofs.Context.wfc primary others (length ns) ->
  let s := run (combine_step true primary others (length ns)) (combine_init ns) sched in
  combine_quiescent s = true ->
  forall r, combine_ret s = Some r -> is_canc (nodes (bw s)) r = true ->
  forall k x, nth_error (regs (bw s)) k = Some x -> rst x = Stopped \/ rst x = Done.
Proof. exact Proofs.Context.combine_no_leak. Qed.
Print Assumptions C16_combine_no_leak.

Theorem C16_combine_progress : forall regstop primary others nenv s l s',
  combine_step regstop primary others nenv s l = Some s' ->
  match l with
  | LCancel _ => Proofs.Context.lexle (Proofs.Context.combine_mu (length others) s') (Proofs.Context.combine_mu (length others) s)
  | _ => Proofs.Context.lexlt (Proofs.Context.combine_mu (length others) s') (Proofs.Context.combine_mu (length others) s)
  end.
Proof. exact Proofs.Context.combine_progress. Qed.
Print Assumptions C16_combine_progress.

(* sensitivity: without `context.AfterFunc(ctx, stops.Stop)` the registration on the other context leaks *)
Theorem C16_combine_nostop_refuted :
  exists ns sched,
    let s := run (combine_step false (Some 0) [Some 1] 2) (combine_init ns) sched in
    combine_quiescent s = true /\ combine_ret s = Some 2 /\ is_canc (nodes (bw s)) 2 = true /\
    exists x, nth_error (regs (bw s)) 0 = Some x /\ rst x = Pending.
Proof. exact Proofs.Context.combine_nostop_refuted. Qed.
Print Assumptions C16_combine_nostop_refuted.

(* ---------------------------------------------------------------------------------------------------------------- *)
(* ConflatedContext                                                                                                 *)
(* ---------------------------------------------------------------------------------------------------------------- *)

(* stays live while at least one input is live: if the result is cancelled then ConflatedContext has returned and either
   the returned cancel function was called or every input is cancelled (in particular: never cancelled during
   construction, and an input that dies between its Err() check and its AfterFunc registration changes nothing) *)
Theorem C16_conflated_live_while_any_live : forall (ns0 : list node) (inputs : list nat) (sched : list lbl),
  Proofs.Context.wfi inputs (length ns0) ->
  let s := run (confl_step true true inputs (length ns0)) (confl_init ns0) sched in
  Proofs.Context.hasR (fpcv s) = true -> Proofs.Context.kR s = true ->
  fpcv s = FRet /\ (fucancel s = true \/ forall x, In x inputs -> is_canc (nodes (fw s)) x = true).
Proof. exact Proofs.Context.confl_live_while_any_live. Qed.
Print Assumptions C16_conflated_live_while_any_live.

(* cancelled once all inputs are cancelled or cancel() is called: every quiescent state (returned, no hook goroutine
   runnable, waiter not runnable) with that condition has the result cancelled *)
Theorem C16_conflated_cancelled_when_all_dead : forall (ns0 : list node) (inputs : list nat) (sched : list lbl),
  Proofs.Context.wfi inputs (length ns0) ->
  let s := run (confl_step true true inputs (length ns0)) (confl_init ns0) sched in
  confl_quiescent s = true ->
  (fucancel s = true \/ forall x, In x inputs -> is_canc (nodes (fw s)) x = true) ->
  Proofs.Context.kR s = true.
Proof. exact Proofs.Context.confl_cancelled_when_all_dead. Qed.
Print Assumptions C16_conflated_cancelled_when_all_dead.

(* the waiter goroutine always exits once the result is cancelled (also when cancel() is called while inputs are live:
   the primary-side hooks of ChainAfterFunc release the WaitGroup), or was never started (no input live at construction) *)
Theorem C16_conflated_waiter_exits : forall (ns0 : list node) (inputs : list nat) (sched : list lbl),
  Proofs.Context.wfi inputs (length ns0) ->
  let s := run (confl_step true true inputs (length ns0)) (confl_init ns0) sched in
  confl_quiescent s = true -> Proofs.Context.kR s = true ->
  (fok s = true /\ fwait s = WExit) \/ (fok s = false /\ fwait s = WNone).
Proof. exact Proofs.Context.confl_waiter_exits. Qed.
Print Assumptions C16_conflated_waiter_exits.

(* wg.Done is called at most once per wg.Add in every schedule: the counter never goes negative (Go would panic) *)
Theorem C16_conflated_wg_never_negative : forall (ns0 : list node) (inputs : list nat) (sched : list lbl),
  Proofs.Context.wfi inputs (length ns0) ->
  wgneg (fw (run (confl_step true true inputs (length ns0)) (confl_init ns0) sched)) = false.
Proof. exact Proofs.Context.confl_wg_never_negative. Qed.
Print Assumptions C16_conflated_wg_never_negative.

(* carries only the first input's values *)
Theorem C16_conflated_values : forall (ns0 : list node) (inputs : list nat) (sched : list lbl),
  Proofs.Context.wfi inputs (length ns0) ->
  let s := run (confl_step true true inputs (length ns0)) (confl_init ns0) sched in
  fpcv s = FRet -> forall c0, hd_error inputs = Some c0 -> vals_of (nodes (fw s)) (fR s) = vals_of ns0 c0.
Proof. exact Proofs.Context.confl_values. Qed.
Print Assumptions C16_conflated_values.

Theorem C16_conflated_progress : forall detach consult inputs nenv s l s',
  confl_step detach consult inputs nenv s l = Some s' ->
  match l with
  | LCancel _ | LUser => Proofs.Context.lexle (Proofs.Context.confl_mu (length inputs) s') (Proofs.Context.confl_mu (length inputs) s)
  | _ => Proofs.Context.lexlt (Proofs.Context.confl_mu (length inputs) s') (Proofs.Context.confl_mu (length inputs) s)
  end.
Proof. exact Proofs.Context.confl_progress. Qed.
Print Assumptions C16_conflated_progress.

(* sensitivity: WithCancel(contexts[0]) instead of WithCancel(WithoutCancel(contexts[0])): dies with the first input *)
Theorem C16_conflated_nodetach_refuted :
  exists sched,
    let s := run (confl_step false true [0; 1] 2) (confl_init Proofs.Context.two_roots) sched in
    fpcv s = FRet /\ Proofs.Context.kR s = true /\ fucancel s = false /\ In 1 (flives s) /\
    is_canc (nodes (fw s)) 1 = false.
Proof. exact Proofs.Context.confl_nodetach_refuted. Qed.
Print Assumptions C16_conflated_nodetach_refuted.

(* sensitivity: a ChainAfterFunc that ignores stop() makes ConflatedContext call wg.Done twice: negative counter panic *)
Theorem C16_conflated_noconsult_refuted :
  exists sched, wgneg (fw (run (confl_step true false [0] 2) (confl_init Proofs.Context.two_roots) sched)) = true.
Proof. exact Proofs.Context.confl_noconsult_refuted. Qed.
Print Assumptions C16_conflated_noconsult_refuted.

(* ---------------------------------------------------------------------------------------------------------------- *)
(* the hypotheses are satisfiable and the interesting cases occur                                                   *)
(* ---------------------------------------------------------------------------------------------------------------- *)
Example ex_chain_both_cancelled_once :
  let s := run (chain_step true 0 1 2) (chain_init (build_env [ {| eparent := None; ekv := None |}; {| eparent := None; ekv := None |} ] []))
               [LMain; LMain; LCancel 0; LCancel 1; LHook 1; LHook 0; LHook 1] in
  chain_quiescent s = true /\ is_canc (nodes (cw s)) 0 = true /\ is_canc (nodes (cw s)) 1 = true /\ calls (cw s) = 1.
Proof. exact Proofs.Context.chain_both_cancelled_once. Qed.

Example ex_chain_same_instant_once :
  let s := run (chain_step true 0 1 2) (chain_init (build_env [ {| eparent := None; ekv := None |}; {| eparent := Some 0; ekv := None |} ] []))
               [LMain; LMain; LCancel 0; LHook 1; LHook 0; LHook 1] in
  chain_quiescent s = true /\ is_canc (nodes (cw s)) 0 = true /\ is_canc (nodes (cw s)) 1 = true /\ calls (cw s) = 1.
Proof. exact Proofs.Context.chain_same_instant_once. Qed.

Example ex_wfc : Proofs.Context.wfc (Some 0) [None; Some 1; Some 2] 3.
Proof. exact Proofs.Context.wfc_example. Qed.

Example ex_combine_cancel_during_construction :
  let ns := build_env [ {| eparent := None; ekv := None |}; {| eparent := None; ekv := None |} ] [] in
  let step := combine_step true (Some 0) [Some 1] 2 in
  let s := combine_settle true (Some 0) [Some 1] 2 50 (run step (combine_init ns) [LMain; LMain; LMain; LCancel 1]) in
  combine_quiescent s = true /\ combine_ret s = Some 2 /\ is_canc (nodes (bw s)) 2 = true.
Proof. exact Proofs.Context.combine_cancel_during_construction. Qed.

Example ex_wfi : Proofs.Context.wfi [0; 1] (length Proofs.Context.two_roots).
Proof. exact Proofs.Context.wfi_example. Qed.

Example ex_conflated_stays_live_then_dies :
  let step := confl_step true true [0; 1] 2 in
  let s0 := confl_settle true true [0; 1] 2 60 (confl_init Proofs.Context.two_roots) in
  let s1 := confl_settle true true [0; 1] 2 60 (run step s0 [LCancel 0]) in
  let s2 := confl_settle true true [0; 1] 2 60 (run step s1 [LCancel 1]) in
  confl_quiescent s0 = true /\ Proofs.Context.kR s0 = false /\ confl_quiescent s1 = true /\ Proofs.Context.kR s1 = false /\
  confl_quiescent s2 = true /\ Proofs.Context.kR s2 = true /\ fwait s2 = WExit /\ wg (fw s2) = 0 /\
  lookup (vals_of (nodes (fw s2)) (fR s2)) 1 = Some 10.
Proof. exact Proofs.Context.confl_stays_live_then_dies. Qed.

Example ex_conflated_user_cancel_releases_waiter :
  let step := confl_step true true [0; 1] 2 in
  let s0 := confl_settle true true [0; 1] 2 60 (confl_init Proofs.Context.two_roots) in
  let s1 := confl_settle true true [0; 1] 2 60 (run step s0 [LUser]) in
  Proofs.Context.kR s1 = true /\ confl_quiescent s1 = true /\ fwait s1 = WExit /\
  map rst (regs (fw s1)) = [Stopped; Done; Stopped; Done].
Proof. exact Proofs.Context.confl_user_cancel_releases_waiter. Qed.

(* ================================================================================================================ *)
(* PART II: the split model (non-atomic cancellation): every theorem of Part I again                                *)
(* ================================================================================================================ *)

(* ---------------------------------------------------------------------------------------------------------------- *)
(* ChainAfterFunc                                                                                                   *)
(* ---------------------------------------------------------------------------------------------------------------- *)

(* never twice, under every split schedule *)
Theorem C16_split_chain_never_twice : forall (cx other nenv : nat) (ns : list node) (sched : list slbl),
  calls (cw (grun (schain_step true cx other nenv) (chain_init ns) sched)) <= 1.
Proof. exact Proofs.ContextSplit.schain_never_twice. Qed.
Print Assumptions C16_split_chain_never_twice.

(* never if neither context is cancelled *)
Theorem C16_split_chain_never_if_neither : forall (cx other nenv : nat) (ns : list node) (sched : list slbl),
  let s := grun (schain_step true cx other nenv) (chain_init ns) sched in
  calls (cw s) <> 0 -> is_canc (nodes (cw s)) cx = true \/ is_canc (nodes (cw s)) other = true.
Proof. exact Proofs.ContextSplit.schain_never_if_neither. Qed.
Print Assumptions C16_split_chain_never_if_neither.

(* exactly once if either is ever cancelled: every quiescent state (returned, no callback goroutine left, no once
   undecided on a cancelled context, propagation complete) in which ctx or other is cancelled has calls = 1 *)
Theorem C16_split_chain_exactly_once : forall (cx other nenv : nat) (ns : list node) (sched : list slbl),
  let s := grun (schain_step true cx other nenv) (chain_init ns) sched in
  schain_quiescent s = true ->
  is_canc (nodes (cw s)) cx = true \/ is_canc (nodes (cw s)) other = true ->
  calls (cw s) = 1.
Proof. exact Proofs.ContextSplit.schain_exactly_once. Qed.
Print Assumptions C16_split_chain_exactly_once.

(* resource cleanup hinges on ctx *)
Theorem C16_split_chain_registrations_final : forall (cx other nenv : nat) (ns : list node) (sched : list slbl),
  let s := grun (schain_step true cx other nenv) (chain_init ns) sched in
  schain_quiescent s = true -> is_canc (nodes (cw s)) cx = true ->
  forall i x, nth_error (regs (cw s)) i = Some x -> rst x = Stopped \/ rst x = Done.
Proof. exact Proofs.ContextSplit.schain_registrations_final. Qed.
Print Assumptions C16_split_chain_registrations_final.

(* progress: every internal step (main, callback goroutine, once, propagation) strictly decreases
   (steps left in ChainAfterFunc, work left in goroutines + undecided onces + live nodes); environment steps never increase it *)
Theorem C16_split_chain_progress : forall consult cx other nenv s l s',
  schain_step consult cx other nenv s l = Some s' ->
  match l with
  | SCancel _ | SUser => Proofs.Context.lexle (Proofs.ContextSplit.schain_mu s') (Proofs.ContextSplit.schain_mu s)
  | _ => Proofs.Context.lexlt (Proofs.ContextSplit.schain_mu s') (Proofs.ContextSplit.schain_mu s)
  end.
Proof. exact Proofs.ContextSplit.schain_progress. Qed.
Print Assumptions C16_split_chain_progress.

(* sensitivity *)
Theorem C16_split_chain_noconsult_refuted :
  exists ns sched, calls (cw (grun (schain_step false 0 1 2) (chain_init ns) sched)) = 2.
Proof. exact Proofs.ContextSplit.schain_noconsult_refuted. Qed.
Print Assumptions C16_split_chain_noconsult_refuted.

(* ---------------------------------------------------------------------------------------------------------------- *)
(* CombineContext                                                                                                   *)
(* ---------------------------------------------------------------------------------------------------------------- *)

(* only if: whenever the returned context is cancelled, the primary or some non-nil other is (itself: a cancelled
   grand-parent of the primary that has not reached the primary yet does not cancel the result either) *)
Theorem C16_split_combine_cancelled_only_if : forall (primary : option nat) (others : list (option nat)) (ns : list node) (sched : list slbl),
  Proofs.Context.wfc primary others (length ns) -> Proofs.ContextSplitCombine.HdP primary ns ->
  let s := grun (scombine_step true primary others (length ns)) (combine_init ns) sched in
  forall r, combine_ret s = Some r -> is_canc (nodes (bw s)) r = true ->
  Proofs.Context.src primary others (nodes (bw s)).
Proof. exact Proofs.ContextSplitCombine.scombine_cancelled_only_if. Qed.
Print Assumptions C16_split_combine_cancelled_only_if.

(* exactly when, at quiescence *)
Theorem C16_split_combine_cancelled_iff_quiescent : forall (primary : option nat) (others : list (option nat)) (ns : list node) (sched : list slbl),
  Proofs.Context.wfc primary others (length ns) -> Proofs.ContextSplitCombine.HdP primary ns ->
  let s := grun (scombine_step true primary others (length ns)) (combine_init ns) sched in
  scombine_quiescent s = true ->
  exists r, combine_ret s = Some r /\
            (is_canc (nodes (bw s)) r = true <-> Proofs.Context.src primary others (nodes (bw s))).
Proof. exact Proofs.ContextSplitCombine.scombine_quiescent_iff. Qed.
Print Assumptions C16_split_combine_cancelled_iff_quiescent.

(* already cancelled if any input already is, at the moment of return *)
Theorem C16_split_combine_already_cancelled : forall (primary : option nat) (others : list (option nat)) (ns : list node) (sched : list slbl),
  Proofs.Context.wfc primary others (length ns) ->
  Proofs.Context.src primary others ns ->
  let s := grun (scombine_step true primary others (length ns)) (combine_init ns) sched in
  forall r, combine_ret s = Some r -> is_canc (nodes (bw s)) r = true.
Proof. exact Proofs.ContextSplitCombine.scombine_already_cancelled. Qed.
Print Assumptions C16_split_combine_already_cancelled.

(* carries the primary's values *)
Theorem C16_split_combine_values : forall (primary : option nat) (others : list (option nat)) (ns : list node) (sched : list slbl),
  Proofs.Context.wfc primary others (length ns) ->
  let s := grun (scombine_step true primary others (length ns)) (combine_init ns) sched in
  forall r, combine_ret s = Some r ->
  vals_of (nodes (bw s)) r = match primary with Some p => vals_of ns p | None => [] end.
Proof. exact Proofs.ContextSplitCombine.scombine_values. Qed.
Print Assumptions C16_split_combine_values.

(* no leak: once the result is cancelled and everything has run, no registration is left pending -- also those on
   other contexts that were cancelled but had not won their once when they were stopped *)
Theorem C16_split_combine_no_leak : forall (primary : option nat) (others : list (option nat)) (ns : list node) (sched : list slbl),
  Proofs.Context.wfc primary others (length ns) ->
  let s := grun (scombine_step true primary others (length ns)) (combine_init ns) sched in
  scombine_quiescent s = true ->
  forall r, combine_ret s = Some r -> is_canc (nodes (bw s)) r = true ->
  forall k x, nth_error (regs (bw s)) k = Some x -> rst x = Stopped \/ rst x = Done.
Proof. exact Proofs.ContextSplitCombine.scombine_no_leak. Qed.
Print Assumptions C16_split_combine_no_leak.

Theorem C16_split_combine_progress : forall regstop primary others nenv s l s',
  scombine_step regstop primary others nenv s l = Some s' ->
  match l with
  | SCancel _ | SUser => Proofs.Context.lexle (Proofs.ContextSplitCombine.scombine_mu (length others) s') (Proofs.ContextSplitCombine.scombine_mu (length others) s)
  | _ => Proofs.Context.lexlt (Proofs.ContextSplitCombine.scombine_mu (length others) s') (Proofs.ContextSplitCombine.scombine_mu (length others) s)
  end.
Proof. exact Proofs.ContextSplitCombine.scombine_progress. Qed.
Print Assumptions C16_split_combine_progress.

Theorem C16_split_combine_nostop_refuted :
  exists ns sched,
    let s := grun (scombine_step false (Some 0) [Some 1] 2) (combine_init ns) sched in
    scombine_quiescent s = true /\ combine_ret s = Some 2 /\ is_canc (nodes (bw s)) 2 = true /\
    exists x, nth_error (regs (bw s)) 0 = Some x /\ rst x = Pending.
Proof. exact Proofs.ContextSplitCombine.scombine_nostop_refuted. Qed.
Print Assumptions C16_split_combine_nostop_refuted.

(* ---------------------------------------------------------------------------------------------------------------- *)
(* ConflatedContext                                                                                                 *)
(* ---------------------------------------------------------------------------------------------------------------- *)

(* stays live while at least one input is live *)
Theorem C16_split_conflated_live_while_any_live : forall (ns0 : list node) (inputs : list nat) (sched : list slbl),
  Proofs.Context.wfi inputs (length ns0) ->
  let s := grun (sconfl_step true true inputs (length ns0)) (confl_init ns0) sched in
  Proofs.Context.hasR (fpcv s) = true -> Proofs.Context.kR s = true ->
  fpcv s = FRet /\ (fucancel s = true \/ forall x, In x inputs -> is_canc (nodes (fw s)) x = true).
Proof. exact Proofs.ContextSplitConfl.sconfl_live_while_any_live. Qed.
Print Assumptions C16_split_conflated_live_while_any_live.

(* cancelled once all inputs are cancelled or cancel() is called, at quiescence *)
Theorem C16_split_conflated_cancelled_when_all_dead : forall (ns0 : list node) (inputs : list nat) (sched : list slbl),
  Proofs.Context.wfi inputs (length ns0) ->
  let s := grun (sconfl_step true true inputs (length ns0)) (confl_init ns0) sched in
  sconfl_quiescent s = true ->
  (fucancel s = true \/ forall x, In x inputs -> is_canc (nodes (fw s)) x = true) ->
  Proofs.Context.kR s = true.
Proof. exact Proofs.ContextSplitConfl.sconfl_cancelled_when_all_dead. Qed.
Print Assumptions C16_split_conflated_cancelled_when_all_dead.

(* the waiter goroutine exits *)
Theorem C16_split_conflated_waiter_exits : forall (ns0 : list node) (inputs : list nat) (sched : list slbl),
  Proofs.Context.wfi inputs (length ns0) ->
  let s := grun (sconfl_step true true inputs (length ns0)) (confl_init ns0) sched in
  sconfl_quiescent s = true -> Proofs.Context.kR s = true ->
  (fok s = true /\ fwait s = WExit) \/ (fok s = false /\ fwait s = WNone).
Proof. exact Proofs.ContextSplitConfl.sconfl_waiter_exits. Qed.
Print Assumptions C16_split_conflated_waiter_exits.

(* the WaitGroup counter never goes negative: also when stop() wins on an already cancelled input *)
Theorem C16_split_conflated_wg_never_negative : forall (ns0 : list node) (inputs : list nat) (sched : list slbl),
  Proofs.Context.wfi inputs (length ns0) ->
  wgneg (fw (grun (sconfl_step true true inputs (length ns0)) (confl_init ns0) sched)) = false.
Proof. exact Proofs.ContextSplitConfl.sconfl_wg_never_negative. Qed.
Print Assumptions C16_split_conflated_wg_never_negative.

(* carries only the first input's values *)
Theorem C16_split_conflated_values : forall (ns0 : list node) (inputs : list nat) (sched : list slbl),
  Proofs.Context.wfi inputs (length ns0) ->
  let s := grun (sconfl_step true true inputs (length ns0)) (confl_init ns0) sched in
  fpcv s = FRet -> forall c0, hd_error inputs = Some c0 -> vals_of (nodes (fw s)) (fR s) = vals_of ns0 c0.
Proof. exact Proofs.ContextSplitConfl.sconfl_values. Qed.
Print Assumptions C16_split_conflated_values.

Theorem C16_split_conflated_progress : forall detach consult inputs nenv s l s',
  sconfl_step detach consult inputs nenv s l = Some s' ->
  match l with
  | SCancel _ | SUser => Proofs.Context.lexle (Proofs.ContextSplitConfl.sconfl_mu (length inputs) s') (Proofs.ContextSplitConfl.sconfl_mu (length inputs) s)
  | _ => Proofs.Context.lexlt (Proofs.ContextSplitConfl.sconfl_mu (length inputs) s') (Proofs.ContextSplitConfl.sconfl_mu (length inputs) s)
  end.
Proof. exact Proofs.ContextSplitConfl.sconfl_progress. Qed.
Print Assumptions C16_split_conflated_progress.

Theorem C16_split_conflated_nodetach_refuted :
  exists sched,
    let s := grun (sconfl_step false true [0; 1] 2) (confl_init Proofs.Context.two_roots) sched in
    fpcv s = FRet /\ Proofs.Context.kR s = true /\ fucancel s = false /\ In 1 (flives s) /\
    is_canc (nodes (fw s)) 1 = false.
Proof. exact Proofs.ContextSplitConfl.sconfl_nodetach_refuted. Qed.
Print Assumptions C16_split_conflated_nodetach_refuted.

Theorem C16_split_conflated_noconsult_refuted :
  exists sched, wgneg (fw (grun (sconfl_step true false [0] 2) (confl_init Proofs.Context.two_roots) sched)) = true.
Proof. exact Proofs.ContextSplitConfl.sconfl_noconsult_refuted. Qed.
Print Assumptions C16_split_conflated_noconsult_refuted.

(* ---------------------------------------------------------------------------------------------------------------- *)
(* delayed work (covers the goroutine-based propagation of the std package for non-std parent contexts)             *)
(* ---------------------------------------------------------------------------------------------------------------- *)

(* a propagation that is due stays due, whatever else happens to the forest (marks, new nodes), until node c is cancelled *)
Theorem C16_split_propagation_can_be_delayed : forall (ns ns' : list node) (c : nat),
  Proofs.ContextSplit.sevol ns ns' -> prop_enabled ns c = true -> prop_enabled ns' c = true \/ is_canc ns' c = true.
Proof. exact Proofs.ContextMore.prop_persistent. Qed.
Print Assumptions C16_split_propagation_can_be_delayed.

(* a registration that can win its once keeps that possibility across every system step until it fires or is stopped *)
Theorem C16_split_once_can_be_delayed : forall (nenv : nat) (w : world) (l : slbl) (w' : world) (r : nat) (x : reg),
  s_sys nenv w l = Some w' -> nth_error (regs w) r = Some x -> fire_enabled (nodes w) x = true ->
  exists x', nth_error (regs w') r = Some x' /\ rnode x' = rnode x /\
             (fire_enabled (nodes w') x' = true \/ rst x' = Run (rfn x) \/ rst x' = Stopped).
Proof. exact Proofs.ContextMore.fire_persistent. Qed.
Print Assumptions C16_split_once_can_be_delayed.

(* ================================================================================================================ *)
(* PART III: quiescence is reached.  The liveness halves above are stated at quiescent states; here: (a) no infinite   *)
(* run of internal steps exists, from any state; (b) a reachable state without an enabled internal step is quiescent;  *)
(* (c) hence settling (running the first enabled internal label, repeatedly) reaches a quiescent state after finitely  *)
(* many steps, from every reachable state; (d) a quiescent state has no internal step.  The only other stuck state is  *)
(* the panic of ConflatedContext() with no inputs, which is reached exactly when inputs = [].                          *)
(* ================================================================================================================ *)

(* ----- split model ----- *)
Theorem C16_split_chain_internal_runs_finite : forall consult cx other nenv s,
  Acc (Proofs.ContextMore.int_rel (schain_step consult cx other nenv) is_internal) s.
Proof. exact Proofs.ContextMore.schain_internal_terminates. Qed.
Print Assumptions C16_split_chain_internal_runs_finite.

Theorem C16_split_chain_stuck_is_quiescent : forall consult cx other nenv ns sched,
  let s := grun (schain_step consult cx other nenv) (chain_init ns) sched in
  (forall l, is_internal l = true -> schain_step consult cx other nenv s l = None) -> schain_quiescent s = true.
Proof. exact Proofs.ContextMore.schain_stuck_is_quiescent. Qed.
Print Assumptions C16_split_chain_stuck_is_quiescent.

Theorem C16_split_chain_quiescence_reached : forall consult cx other nenv ns sched,
  let s := grun (schain_step consult cx other nenv) (chain_init ns) sched in
  exists fuel, schain_quiescent (schain_settle consult cx other nenv fuel s) = true.
Proof. exact Proofs.ContextSplit.schain_quiescence_reached. Qed.
Print Assumptions C16_split_chain_quiescence_reached.

Theorem C16_split_chain_quiescent_is_stuck : forall consult cx other nenv s l,
  schain_quiescent s = true -> is_internal l = true -> schain_step consult cx other nenv s l = None.
Proof. exact Proofs.ContextSplit.schain_quiescent_stuck. Qed.
Print Assumptions C16_split_chain_quiescent_is_stuck.

Theorem C16_split_combine_internal_runs_finite : forall regstop primary others nenv s,
  Acc (Proofs.ContextMore.int_rel (scombine_step regstop primary others nenv) is_internal) s.
Proof. exact Proofs.ContextMore.scombine_internal_terminates. Qed.
Print Assumptions C16_split_combine_internal_runs_finite.

(* CombineContext: from EVERY state, reachable or not *)
Theorem C16_split_combine_stuck_is_quiescent : forall regstop primary others nenv s,
  (forall l, is_internal l = true -> scombine_step regstop primary others nenv s l = None) -> scombine_quiescent s = true.
Proof. exact Proofs.ContextMore.scombine_stuck_is_quiescent. Qed.
Print Assumptions C16_split_combine_stuck_is_quiescent.

Theorem C16_split_combine_quiescence_reached : forall regstop primary others nenv s,
  exists fuel, scombine_quiescent (scombine_settle regstop primary others nenv fuel s) = true.
Proof. exact Proofs.ContextSplitCombine.scombine_quiescence_reached. Qed.
Print Assumptions C16_split_combine_quiescence_reached.

Theorem C16_split_combine_quiescent_is_stuck : forall regstop primary others nenv s l,
  scombine_quiescent s = true -> is_internal l = true -> scombine_step regstop primary others nenv s l = None.
Proof. exact Proofs.ContextSplitCombine.scombine_quiescent_stuck. Qed.
Print Assumptions C16_split_combine_quiescent_is_stuck.

Theorem C16_split_conflated_internal_runs_finite : forall detach consult inputs nenv s,
  Acc (Proofs.ContextMore.int_rel (sconfl_step detach consult inputs nenv) is_internal) s.
Proof. exact Proofs.ContextMore.sconfl_internal_terminates. Qed.
Print Assumptions C16_split_conflated_internal_runs_finite.

Theorem C16_split_conflated_stuck_is_quiescent : forall detach consult inputs nenv ns0 sched,
  let s := grun (sconfl_step detach consult inputs nenv) (confl_init ns0) sched in
  (forall l, is_internal l = true -> sconfl_step detach consult inputs nenv s l = None) ->
  sconfl_quiescent s = true \/ (sconfl_panicked s = true /\ inputs = []).
Proof. exact Proofs.ContextMore.sconfl_stuck_is_quiescent. Qed.
Print Assumptions C16_split_conflated_stuck_is_quiescent.

(* the inputs = [] corner: the only final state that is not quiescent is the immediate panic, and only without inputs *)
Theorem C16_split_conflated_quiescence_reached : forall detach consult inputs nenv ns0 sched,
  let s := grun (sconfl_step detach consult inputs nenv) (confl_init ns0) sched in
  exists fuel, let s' := sconfl_settle detach consult inputs nenv fuel s in
               sconfl_quiescent s' = true \/ (sconfl_panicked s' = true /\ inputs = []).
Proof. exact Proofs.ContextSplitConfl.sconfl_quiescence_reached. Qed.
Print Assumptions C16_split_conflated_quiescence_reached.

Theorem C16_split_conflated_panics_only_without_inputs : forall detach consult nenv ns0 inputs sched,
  let s := grun (sconfl_step detach consult inputs nenv) (confl_init ns0) sched in
  sconfl_panicked s = true -> inputs = [].
Proof. exact Proofs.ContextSplitConfl.sconfl_panics_iff_no_inputs. Qed.
Print Assumptions C16_split_conflated_panics_only_without_inputs.

Theorem C16_split_conflated_quiescent_is_stuck : forall detach consult inputs nenv s l,
  sconfl_quiescent s = true -> is_internal l = true -> sconfl_step detach consult inputs nenv s l = None.
Proof. exact Proofs.ContextSplitConfl.sconfl_quiescent_stuck. Qed.
Print Assumptions C16_split_conflated_quiescent_is_stuck.

(* ----- atomic model ----- *)
Theorem C16_chain_internal_runs_finite : forall consult cx other nenv s,
  Acc (Proofs.ContextMore.int_rel (chain_step consult cx other nenv) Proofs.ContextMore.lbl_internal) s.
Proof. exact Proofs.ContextMore.chain_internal_terminates. Qed.
Print Assumptions C16_chain_internal_runs_finite.

Theorem C16_chain_quiescence_reached : forall consult cx other nenv ns sched,
  let s := run (chain_step consult cx other nenv) (chain_init ns) sched in
  exists fuel, chain_quiescent (chain_settle consult cx other nenv fuel s) = true.
Proof. exact Proofs.ContextMore.chain_quiescence_reached. Qed.
Print Assumptions C16_chain_quiescence_reached.

Theorem C16_chain_quiescent_is_stuck : forall consult cx other nenv s l,
  chain_quiescent s = true -> Proofs.ContextMore.lbl_internal l = true -> chain_step consult cx other nenv s l = None.
Proof. exact Proofs.ContextMore.chain_quiescent_stuck. Qed.
Print Assumptions C16_chain_quiescent_is_stuck.

Theorem C16_combine_internal_runs_finite : forall regstop primary others nenv s,
  Acc (Proofs.ContextMore.int_rel (combine_step regstop primary others nenv) Proofs.ContextMore.lbl_internal) s.
Proof. exact Proofs.ContextMore.combine_internal_terminates. Qed.
Print Assumptions C16_combine_internal_runs_finite.

Theorem C16_combine_quiescence_reached : forall regstop primary others nenv s,
  exists fuel, combine_quiescent (combine_settle regstop primary others nenv fuel s) = true.
Proof. exact Proofs.ContextMore.combine_quiescence_reached. Qed.
Print Assumptions C16_combine_quiescence_reached.

Theorem C16_combine_quiescent_is_stuck : forall regstop primary others nenv s l,
  combine_quiescent s = true -> Proofs.ContextMore.lbl_internal l = true -> combine_step regstop primary others nenv s l = None.
Proof. exact Proofs.ContextMore.combine_quiescent_stuck. Qed.
Print Assumptions C16_combine_quiescent_is_stuck.

Theorem C16_conflated_internal_runs_finite : forall detach consult inputs nenv s,
  Acc (Proofs.ContextMore.int_rel (confl_step detach consult inputs nenv) Proofs.ContextMore.lbl_internal) s.
Proof. exact Proofs.ContextMore.confl_internal_terminates. Qed.
Print Assumptions C16_conflated_internal_runs_finite.

Theorem C16_conflated_quiescence_reached : forall detach consult inputs nenv ns0 sched,
  let s := run (confl_step detach consult inputs nenv) (confl_init ns0) sched in
  exists fuel, let s' := confl_settle detach consult inputs nenv fuel s in
               confl_quiescent s' = true \/ (Proofs.ContextMore.confl_panicked s' = true /\ inputs = []).
Proof. exact Proofs.ContextMore.confl_quiescence_reached. Qed.
Print Assumptions C16_conflated_quiescence_reached.

Theorem C16_conflated_quiescent_is_stuck : forall detach consult inputs nenv s l,
  confl_quiescent s = true -> Proofs.ContextMore.lbl_internal l = true -> confl_step detach consult inputs nenv s l = None.
Proof. exact Proofs.ContextMore.confl_quiescent_stuck. Qed.
Print Assumptions C16_conflated_quiescent_is_stuck.

(* ---------------------------------------------------------------------------------------------------------------- *)
(* split model: the hypotheses are satisfiable and the behaviours that the atomic model cannot show do occur        *)
(* ---------------------------------------------------------------------------------------------------------------- *)
Example ex_split_HdP : Proofs.ContextSplitCombine.HdP (Some 0)
  (build_env [ {| eparent := None; ekv := None |}; {| eparent := Some 0; ekv := None |} ] []).
Proof. exact Proofs.ContextSplitCombine.HdP_example. Qed.

(* stop() returns true on a registration whose context is already cancelled; f still runs exactly once *)
Example ex_split_chain_stop_wins_on_cancelled_context :
  let ns := build_env [ {| eparent := None; ekv := None |}; {| eparent := None; ekv := None |} ] [] in
  let s1 := grun (schain_step true 0 1 2) (chain_init ns) [SMain; SMain; SCancel 1; SCancel 0; SFire 1; SHook 1] in
  let s2 := grun (schain_step true 0 1 2) s1 [SHook 1; SFire 0] in
  is_canc (nodes (cw s1)) 1 = true /\ map rst (regs (cw s1)) = [Stopped; Run (FAct ACall)] /\
  schain_quiescent s2 = true /\ calls (cw s2) = 1.
Proof. exact Proofs.ContextSplit.schain_stop_wins_on_cancelled_context. Qed.

(* parent (ctx) observed cancelled, its hook has run f, child (other) still live *)
Example ex_split_chain_parent_before_child :
  let ns := build_env [ {| eparent := None; ekv := None |}; {| eparent := Some 0; ekv := None |} ] [] in
  let s1 := grun (schain_step true 0 1 2) (chain_init ns) [SMain; SMain; SCancel 0; SFire 1; SHook 1; SHook 1] in
  let s2 := grun (schain_step true 0 1 2) s1 [SPropg 1] in
  is_canc (nodes (cw s1)) 0 = true /\ is_canc (nodes (cw s1)) 1 = false /\ calls (cw s1) = 1 /\
  schain_quiescent s1 = false /\ schain_quiescent s2 = true /\ calls (cw s2) = 1.
Proof. exact Proofs.ContextSplit.schain_parent_before_child. Qed.

(* CombineContext: the primary is cancelled, the result not yet (e.g. a non-std primary: propagation goroutine) *)
Example ex_split_combine_parent_before_child :
  let ns := build_env [ {| eparent := None; ekv := None |}; {| eparent := None; ekv := None |} ] [] in
  let step := scombine_step true (Some 0) [Some 1] 2 in
  let s1 := grun step (combine_init ns) [SMain; SMain; SMain; SMain; SMain; SMain; SMain; SCancel 0] in
  let s2 := scombine_settle true (Some 0) [Some 1] 2 50 s1 in
  combine_ret s1 = Some 2 /\ is_canc (nodes (bw s1)) 0 = true /\ is_canc (nodes (bw s1)) 2 = false /\
  scombine_quiescent s1 = false /\
  scombine_quiescent s2 = true /\ is_canc (nodes (bw s2)) 2 = true /\ map rst (regs (bw s2)) = [Stopped; Done].
Proof. exact Proofs.ContextSplitCombine.scombine_parent_before_child. Qed.

Example ex_split_combine_stop_wins_on_cancelled_other :
  let ns := build_env [ {| eparent := None; ekv := None |}; {| eparent := None; ekv := None |} ] [] in
  let step := scombine_step true (Some 0) [Some 1] 2 in
  let s := grun step (combine_init ns) [SMain; SMain; SMain; SMain; SMain; SMain; SMain; SCancel 0; SCancel 1; SPropg 2; SFire 1;
                                        SHook 1; SHook 1] in
  scombine_quiescent s = true /\ is_canc (nodes (bw s)) 1 = true /\ is_canc (nodes (bw s)) 2 = true /\
  map rst (regs (bw s)) = [Stopped; Done].
Proof. exact Proofs.ContextSplitCombine.scombine_stop_wins_on_cancelled_other. Qed.

Example ex_split_conflated_stays_live_then_dies :
  let step := sconfl_step true true [0; 1] 2 in
  let s0 := sconfl_settle true true [0; 1] 2 60 (confl_init Proofs.Context.two_roots) in
  let s1 := sconfl_settle true true [0; 1] 2 60 (grun step s0 [SCancel 0]) in
  let s2 := sconfl_settle true true [0; 1] 2 60 (grun step s1 [SCancel 1]) in
  sconfl_quiescent s0 = true /\ Proofs.Context.kR s0 = false /\ sconfl_quiescent s1 = true /\ Proofs.Context.kR s1 = false /\
  sconfl_quiescent s2 = true /\ Proofs.Context.kR s2 = true /\ fwait s2 = WExit /\ wg (fw s2) = 0 /\
  lookup (vals_of (nodes (fw s2)) (fR s2)) 1 = Some 10.
Proof. exact Proofs.ContextSplitConfl.sconfl_stays_live_then_dies. Qed.

(* cancel() while both inputs are cancelled but neither registration has fired: both stops win, the WaitGroup is
   released by the primary-side hooks, exactly one Done per Add *)
Example ex_split_conflated_user_cancel_stops_cancelled_inputs :
  let step := sconfl_step true true [0; 1] 2 in
  let s0 := sconfl_settle true true [0; 1] 2 60 (confl_init Proofs.Context.two_roots) in
  let s1 := grun step s0 [SCancel 0; SCancel 1; SUser; SFire 1; SFire 3; SHook 1; SHook 3] in
  let s2 := sconfl_settle true true [0; 1] 2 60 s1 in
  map rst (regs (fw s1)) = [Stopped; Run (FAct AWgDone); Stopped; Run (FAct AWgDone)] /\
  is_canc (nodes (fw s1)) 0 = true /\ is_canc (nodes (fw s1)) 1 = true /\
  sconfl_quiescent s2 = true /\ Proofs.Context.kR s2 = true /\ fwait s2 = WExit /\ wg (fw s2) = 0 /\ wgneg (fw s2) = false.
Proof. exact Proofs.ContextSplitConfl.sconfl_user_cancel_stops_cancelled_inputs. Qed.
