(* C16 — Context combinators cancel exactly when specified and run hooks exactly once.
   Statements only; every proof is `exact` of a lemma of Proofs/Context.v.

   Model (Model/Context.v): the std `context` package as a forest of nodes (cancel marks a node and all its descendants
   and fires every pending AfterFunc registration on them in one atomic step; a fired registration is a goroutine `Run f`
   that runs at arbitrary later steps; stop() atomically moves Pending -> Stopped), and the three functions of
   context.go as program-counter machines, one step per std/WaitGroup call.  A schedule is a list of labels:
   LMain (the library function's own goroutine), LHook r (goroutine of fired registration r), LCancel n (the environment
   cancels input context n, at any time — before, during or after the call), LUser (the caller invokes the returned
   CancelFunc), LWaiter (ConflatedContext's waiter goroutine).  `run step init sched` is total (a disabled label is a
   stutter), so `forall sched` is "every interleaving"; `forall ns` is "every forest of input contexts, related or not,
   with every subset already cancelled" (ns is an arbitrary list of nodes); `forall others/inputs` is every number of
   inputs, nil others included.  Two contexts cancelled "simultaneously" are (a) two LCancel steps in either order with
   hook steps interleaved arbitrarily, or (b) one LCancel of a common ancestor.

   Vocabulary (definitions in Proofs/Context.v, all executable or first-order):
     src primary others ns  := the primary is non-nil and cancelled in ns, or some non-nil other is cancelled in ns
     wfc primary others n   := every non-nil context among primary/others is one of the n input nodes
     wfi inputs n           := every input is one of the n input nodes
     kR s                   := is_canc (nodes (fw s)) (fR s)      (ConflatedContext's result is cancelled)
     hasR pc                := the result context exists at pc (context.go:51 has been executed)
     lexlt / lexle          := strict / weak lexicographic order on nat * nat *)
From Coq Require Import List Arith Bool.
From BB.Model Require Import Context.
From BB.Proofs Require Context.
Import ListNotations.

(* ---------------------------------------------------------------------------------------------------------------- *)
(* ChainAfterFunc                                                                                                   *)
(* ---------------------------------------------------------------------------------------------------------------- *)

(* never twice: in every reachable state, under every schedule, f has run at most once *)
Theorem C16_chain_never_twice : forall (cx other nenv : nat) (ns : list node) (sched : list lbl),
  calls (cw (run (chain_step true cx other nenv) (chain_init ns) sched)) <= 1.
Proof. exact Proofs.Context.chain_never_twice. Qed.
Print Assumptions C16_chain_never_twice.

(* never if neither context is cancelled *)
Theorem C16_chain_never_if_neither : forall (cx other nenv : nat) (ns : list node) (sched : list lbl),
  let s := run (chain_step true cx other nenv) (chain_init ns) sched in
  calls (cw s) <> 0 -> is_canc (nodes (cw s)) cx = true \/ is_canc (nodes (cw s)) other = true.
Proof. exact Proofs.Context.chain_never_if_neither. Qed.
Print Assumptions C16_chain_never_if_neither.

(* exactly once if either is ever cancelled: every quiescent state (ChainAfterFunc returned, no hook goroutine left to
   run) in which ctx or other is cancelled has calls = 1 *)
Theorem C16_chain_exactly_once : forall (cx other nenv : nat) (ns : list node) (sched : list lbl),
  let s := run (chain_step true cx other nenv) (chain_init ns) sched in
  chain_quiescent s = true ->
  is_canc (nodes (cw s)) cx = true \/ is_canc (nodes (cw s)) other = true ->
  calls (cw s) = 1.
Proof. exact Proofs.Context.chain_exactly_once. Qed.
Print Assumptions C16_chain_exactly_once.

(* "resource cleanup hinges on ctx": once ctx is cancelled and the hooks have run, neither registration is pending *)
Theorem C16_chain_registrations_final : forall (cx other nenv : nat) (ns : list node) (sched : list lbl),
  let s := run (chain_step true cx other nenv) (chain_init ns) sched in
  chain_quiescent s = true -> is_canc (nodes (cw s)) cx = true ->
  forall i x, nth_error (regs (cw s)) i = Some x -> rst x = Stopped \/ rst x = Done.
Proof. exact Proofs.Context.chain_registrations_final. Qed.
Print Assumptions C16_chain_registrations_final.

(* quiescence is reached: (steps left in ChainAfterFunc, work left in hook goroutines) decreases strictly on every
   library/hook step and never increases when the environment cancels *)
Theorem C16_chain_progress : forall consult cx other nenv s l s',
  chain_step consult cx other nenv s l = Some s' ->
  match l with
  | LCancel _ => Proofs.Context.lexle (Proofs.Context.chain_mu s') (Proofs.Context.chain_mu s)
  | _ => Proofs.Context.lexlt (Proofs.Context.chain_mu s') (Proofs.Context.chain_mu s)
  end.
Proof. exact Proofs.Context.chain_progress. Qed.
Print Assumptions C16_chain_progress.

(* sensitivity: if the primary's hook called f without consulting stop() (consult = false), f runs twice *)
Theorem C16_chain_noconsult_refuted :
  exists ns sched, calls (cw (run (chain_step false 0 1 2) (chain_init ns) sched)) = 2.
Proof. exact Proofs.Context.chain_noconsult_refuted. Qed.
Print Assumptions C16_chain_noconsult_refuted.

(* ---------------------------------------------------------------------------------------------------------------- *)
(* CombineContext                                                                                                   *)
(* ---------------------------------------------------------------------------------------------------------------- *)

(* only if: whenever the returned context is cancelled, the primary or some non-nil other is *)
Theorem C16_combine_cancelled_only_if : forall (primary : option nat) (others : list (option nat)) (ns : list node) (sched : list lbl),
  Proofs.Context.wfc primary others (length ns) ->
  let s := run (combine_step true primary others (length ns)) (combine_init ns) sched in
  forall r, combine_ret s = Some r -> is_canc (nodes (bw s)) r = true ->
  Proofs.Context.src primary others (nodes (bw s)).
Proof. exact Proofs.Context.combine_cancelled_only_if. Qed.
Print Assumptions C16_combine_cancelled_only_if.

(* exactly when: in every quiescent state (CombineContext returned, every hook goroutine has run) the returned context
   is cancelled IFF the primary or some non-nil other is — promptness is "as soon as the hook goroutine has run" *)
Theorem C16_combine_cancelled_iff_quiescent : forall (primary : option nat) (others : list (option nat)) (ns : list node) (sched : list lbl),
  Proofs.Context.wfc primary others (length ns) ->
  let s := run (combine_step true primary others (length ns)) (combine_init ns) sched in
  combine_quiescent s = true ->
  exists r, combine_ret s = Some r /\
            (is_canc (nodes (bw s)) r = true <-> Proofs.Context.src primary others (nodes (bw s))).
Proof. exact Proofs.Context.combine_quiescent_iff. Qed.
Print Assumptions C16_combine_cancelled_iff_quiescent.

(* already cancelled if any input already is: at the very moment of return, without waiting for any goroutine *)
Theorem C16_combine_already_cancelled : forall (primary : option nat) (others : list (option nat)) (ns : list node) (sched : list lbl),
  Proofs.Context.wfc primary others (length ns) ->
  Proofs.Context.src primary others ns ->
  let s := run (combine_step true primary others (length ns)) (combine_init ns) sched in
  forall r, combine_ret s = Some r -> is_canc (nodes (bw s)) r = true.
Proof. exact Proofs.Context.combine_already_cancelled. Qed.
Print Assumptions C16_combine_already_cancelled.

(* carries the primary's values (Background's, i.e. none, for a nil primary) *)
Theorem C16_combine_values : forall (primary : option nat) (others : list (option nat)) (ns : list node) (sched : list lbl),
  Proofs.Context.wfc primary others (length ns) ->
  let s := run (combine_step true primary others (length ns)) (combine_init ns) sched in
  forall r, combine_ret s = Some r ->
  vals_of (nodes (bw s)) r = match primary with Some p => vals_of ns p | None => [] end.
Proof. exact Proofs.Context.combine_values. Qed.
Print Assumptions C16_combine_values.

(* hooks are deregistered when the result is cancelled: no registration on any context is left pending (feeds C12) *)
Theorem C16_combine_no_leak : forall (primary : option nat) (others : list (option nat)) (ns : list node) (sched : list lbl),
  Proofs.Context.wfc primary others (length ns) ->
  let s := run (combine_step true primary others (length ns)) (combine_init ns) sched in
  combine_quiescent s = true ->
  forall r, combine_ret s = Some r -> is_canc (nodes (bw s)) r = true ->
  forall k x, nth_error (regs (bw s)) k = Some x -> rst x = Stopped \/ rst x = Done.
Proof. exact Proofs.Context.combine_no_leak. Qed.
Print Assumptions C16_combine_no_leak.

Theorem C16_combine_progress : forall regstop primary others nenv s l s',
  combine_step regstop primary others nenv s l = Some s' ->
  match l with
  | LCancel _ => Proofs.Context.lexle (Proofs.Context.combine_mu (length others) s') (Proofs.Context.combine_mu (length others) s)
  | _ => Proofs.Context.lexlt (Proofs.Context.combine_mu (length others) s') (Proofs.Context.combine_mu (length others) s)
  end.
Proof. exact Proofs.Context.combine_progress. Qed.
Print Assumptions C16_combine_progress.

(* sensitivity: without `context.AfterFunc(ctx, stops.Stop)` the registration on the other context leaks *)
Theorem C16_combine_nostop_refuted :
  exists ns sched,
    let s := run (combine_step false (Some 0) [Some 1] 2) (combine_init ns) sched in
    combine_quiescent s = true /\ combine_ret s = Some 2 /\ is_canc (nodes (bw s)) 2 = true /\
    exists x, nth_error (regs (bw s)) 0 = Some x /\ rst x = Pending.
Proof. exact Proofs.Context.combine_nostop_refuted. Qed.
Print Assumptions C16_combine_nostop_refuted.

(* ---------------------------------------------------------------------------------------------------------------- *)
(* ConflatedContext                                                                                                 *)
(* ---------------------------------------------------------------------------------------------------------------- *)

(* stays live while at least one input is live: if the result is cancelled then ConflatedContext has returned and either
   the returned cancel function was called or every input is cancelled (in particular: never cancelled during
   construction, and an input that dies between its Err() check and its AfterFunc registration changes nothing) *)
Theorem C16_conflated_live_while_any_live : forall (ns0 : list node) (inputs : list nat) (sched : list lbl),
  Proofs.Context.wfi inputs (length ns0) ->
  let s := run (confl_step true true inputs (length ns0)) (confl_init ns0) sched in
  Proofs.Context.hasR (fpcv s) = true -> Proofs.Context.kR s = true ->
  fpcv s = FRet /\ (fucancel s = true \/ forall x, In x inputs -> is_canc (nodes (fw s)) x = true).
Proof. exact Proofs.Context.confl_live_while_any_live. Qed.
Print Assumptions C16_conflated_live_while_any_live.

(* cancelled once all inputs are cancelled or cancel() is called: every quiescent state (returned, no hook goroutine
   runnable, waiter not runnable) with that condition has the result cancelled *)
Theorem C16_conflated_cancelled_when_all_dead : forall (ns0 : list node) (inputs : list nat) (sched : list lbl),
  Proofs.Context.wfi inputs (length ns0) ->
  let s := run (confl_step true true inputs (length ns0)) (confl_init ns0) sched in
  confl_quiescent s = true ->
  (fucancel s = true \/ forall x, In x inputs -> is_canc (nodes (fw s)) x = true) ->
  Proofs.Context.kR s = true.
Proof. exact Proofs.Context.confl_cancelled_when_all_dead. Qed.
Print Assumptions C16_conflated_cancelled_when_all_dead.

(* the waiter goroutine always exits once the result is cancelled (also when cancel() is called while inputs are live:
   the primary-side hooks of ChainAfterFunc release the WaitGroup), or was never started (no input live at construction) *)
Theorem C16_conflated_waiter_exits : forall (ns0 : list node) (inputs : list nat) (sched : list lbl),
  Proofs.Context.wfi inputs (length ns0) ->
  let s := run (confl_step true true inputs (length ns0)) (confl_init ns0) sched in
  confl_quiescent s = true -> Proofs.Context.kR s = true ->
  (fok s = true /\ fwait s = WExit) \/ (fok s = false /\ fwait s = WNone).
Proof. exact Proofs.Context.confl_waiter_exits. Qed.
Print Assumptions C16_conflated_waiter_exits.

(* wg.Done is called at most once per wg.Add in every schedule: the counter never goes negative (Go would panic) *)
Theorem C16_conflated_wg_never_negative : forall (ns0 : list node) (inputs : list nat) (sched : list lbl),
  Proofs.Context.wfi inputs (length ns0) ->
  wgneg (fw (run (confl_step true true inputs (length ns0)) (confl_init ns0) sched)) = false.
Proof. exact Proofs.Context.confl_wg_never_negative. Qed.
Print Assumptions C16_conflated_wg_never_negative.

(* carries only the first input's values *)
Theorem C16_conflated_values : forall (ns0 : list node) (inputs : list nat) (sched : list lbl),
  Proofs.Context.wfi inputs (length ns0) ->
  let s := run (confl_step true true inputs (length ns0)) (confl_init ns0) sched in
  fpcv s = FRet -> forall c0, hd_error inputs = Some c0 -> vals_of (nodes (fw s)) (fR s) = vals_of ns0 c0.
Proof. exact Proofs.Context.confl_values. Qed.
Print Assumptions C16_conflated_values.

Theorem C16_conflated_progress : forall detach consult inputs nenv s l s',
  confl_step detach consult inputs nenv s l = Some s' ->
  match l with
  | LCancel _ | LUser => Proofs.Context.lexle (Proofs.Context.confl_mu (length inputs) s') (Proofs.Context.confl_mu (length inputs) s)
  | _ => Proofs.Context.lexlt (Proofs.Context.confl_mu (length inputs) s') (Proofs.Context.confl_mu (length inputs) s)
  end.
Proof. exact Proofs.Context.confl_progress. Qed.
Print Assumptions C16_conflated_progress.

(* sensitivity: WithCancel(contexts[0]) instead of WithCancel(WithoutCancel(contexts[0])): dies with the first input *)
Theorem C16_conflated_nodetach_refuted :
  exists sched,
    let s := run (confl_step false true [0; 1] 2) (confl_init Proofs.Context.two_roots) sched in
    fpcv s = FRet /\ Proofs.Context.kR s = true /\ fucancel s = false /\ In 1 (flives s) /\
    is_canc (nodes (fw s)) 1 = false.
Proof. exact Proofs.Context.confl_nodetach_refuted. Qed.
Print Assumptions C16_conflated_nodetach_refuted.

(* sensitivity: a ChainAfterFunc that ignores stop() makes ConflatedContext call wg.Done twice: negative counter panic *)
Theorem C16_conflated_noconsult_refuted :
  exists sched, wgneg (fw (run (confl_step true false [0] 2) (confl_init Proofs.Context.two_roots) sched)) = true.
Proof. exact Proofs.Context.confl_noconsult_refuted. Qed.
Print Assumptions C16_conflated_noconsult_refuted.

(* ---------------------------------------------------------------------------------------------------------------- *)
(* the hypotheses are satisfiable and the interesting cases occur                                                   *)
(* ---------------------------------------------------------------------------------------------------------------- *)
Example ex_chain_both_cancelled_once :
  let s := run (chain_step true 0 1 2) (chain_init (build_env [ {| eparent := None; ekv := None |}; {| eparent := None; ekv := None |} ] []))
               [LMain; LMain; LCancel 0; LCancel 1; LHook 1; LHook 0; LHook 1] in
  chain_quiescent s = true /\ is_canc (nodes (cw s)) 0 = true /\ is_canc (nodes (cw s)) 1 = true /\ calls (cw s) = 1.
Proof. exact Proofs.Context.chain_both_cancelled_once. Qed.

Example ex_chain_same_instant_once :
  let s := run (chain_step true 0 1 2) (chain_init (build_env [ {| eparent := None; ekv := None |}; {| eparent := Some 0; ekv := None |} ] []))
               [LMain; LMain; LCancel 0; LHook 1; LHook 0; LHook 1] in
  chain_quiescent s = true /\ is_canc (nodes (cw s)) 0 = true /\ is_canc (nodes (cw s)) 1 = true /\ calls (cw s) = 1.
Proof. exact Proofs.Context.chain_same_instant_once. Qed.

Example ex_wfc : Proofs.Context.wfc (Some 0) [None; Some 1; Some 2] 3.
Proof. exact Proofs.Context.wfc_example. Qed.

Example ex_combine_cancel_during_construction :
  let ns := build_env [ {| eparent := None; ekv := None |}; {| eparent := None; ekv := None |} ] [] in
  let step := combine_step true (Some 0) [Some 1] 2 in
  let s := combine_settle true (Some 0) [Some 1] 2 50 (run step (combine_init ns) [LMain; LMain; LMain; LCancel 1]) in
  combine_quiescent s = true /\ combine_ret s = Some 2 /\ is_canc (nodes (bw s)) 2 = true.
Proof. exact Proofs.Context.combine_cancel_during_construction. Qed.

Example ex_wfi : Proofs.Context.wfi [0; 1] (length Proofs.Context.two_roots).
Proof. exact Proofs.Context.wfi_example. Qed.

Example ex_conflated_stays_live_then_dies :
  let step := confl_step true true [0; 1] 2 in
  let s0 := confl_settle true true [0; 1] 2 60 (confl_init Proofs.Context.two_roots) in
  let s1 := confl_settle true true [0; 1] 2 60 (run step s0 [LCancel 0]) in
  let s2 := confl_settle true true [0; 1] 2 60 (run step s1 [LCancel 1]) in
  confl_quiescent s0 = true /\ Proofs.Context.kR s0 = false /\ confl_quiescent s1 = true /\ Proofs.Context.kR s1 = false /\
  confl_quiescent s2 = true /\ Proofs.Context.kR s2 = true /\ fwait s2 = WExit /\ wg (fw s2) = 0 /\
  lookup (vals_of (nodes (fw s2)) (fR s2)) 1 = Some 10.
Proof. exact Proofs.Context.confl_stays_live_then_dies. Qed.

Example ex_conflated_user_cancel_releases_waiter :
  let step := confl_step true true [0; 1] 2 in
  let s0 := confl_settle true true [0; 1] 2 60 (confl_init Proofs.Context.two_roots) in
  let s1 := confl_settle true true [0; 1] 2 60 (run step s0 [LUser]) in
  Proofs.Context.kR s1 = true /\ confl_quiescent s1 = true /\ fwait s1 = WExit /\
  map rst (regs (fw s1)) = [Stopped; Done; Stopped; Done].
Proof. exact Proofs.Context.confl_user_cancel_releases_waiter. Qed.
