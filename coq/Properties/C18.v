(* C18 — ExponentialRetry: stops on success, fatal error or cancellation; bounded backoff.
   Statements only; every proof is `exact` of a lemma of Proofs/Retry.v.

   Vocabulary (Model/Retry.v, Proofs/Retry.v):
     run fl max_shift default_rate rnd cancel_at rate script : result
         one invocation of the closure returned by ExponentialRetry(ctx, rate, value): the k-th call of value() returns
         the k-th outcome of `script`; `cancel_at = Some t` cancels ctx at event t of the linear order
         (0 = before the first ctx.Err() check, 2k-1 = during call k, 2k = during the wait after call k);
         `rnd i n` is what rand.Int63n(n) returns for the i-th delay; fl = faithful is the code as it is.
     plain o / success o   the outcome is an error not wrapped by FatalError / a nil error
     before_cancel ca n    event n happens strictly before the cancellation (or ctx is never cancelled)
     oracle_ok rnd         forall i n, 0 < n -> 0 <= rnd i n < n        (the contract of rand.Int63n)
     calc_total calc       the function plugged into the calcExponentialRetry seam returns normally *)
From Coq Require Import List ZArith Bool Arith.
From BB.Model Require Import Retry.
From BB.Proofs Require Retry.
Import ListNotations.
Open Scope Z_scope.

(* FatalError wrappers at ANY depth >= 1 are detected on the outermost value and removed completely. *)
Theorem C18_fatal_fully_unwrapped : forall (depth : nat) (id : Z),
  (1 <= depth)%nat ->
  is_fatal (wrap depth (EBase id)) = true /\
  unpack (wrap depth (EBase id)) = EBase id /\
  is_fatal (unpack (wrap depth (EBase id))) = false.
Proof. exact Proofs.Retry.fatal_fully_unwrapped. Qed.
Print Assumptions C18_fatal_fully_unwrapped.

(* For EVERY outcome script, EVERY cancellation point, EVERY random oracle and EVERY rate, with R the run:
   (1) first success (all earlier outcomes plain failures, context not cancelled before that attempt's check):
       exactly that many calls, its result, nil error;
   (2) first fatal error: exactly that many calls, THAT call's result, the fully unwrapped error (not fatal; the base
       error whatever the nesting depth);
   (3) cancellation at event t when m calls had been started (t = 2m or t = 2m-1): never more than m calls, and if the
       first m outcomes are plain failures: exactly m calls, nil result, the context's error — when t = 2m-1 and call m
       succeeds or fails fatally, (1)/(2) apply instead (their hypothesis 2(m-1) < t holds): the in-flight call ends the loop;
   (4) the returned error is never a fatal wrapper, the delay computation never panics, there are never more delays than
       calls, and the script is only exhausted by plain failures. *)
Theorem C18_outcome : forall (max_shift default_rate : Z) (rnd : nat -> Z -> Z) (cancel_at : option nat) (rate : Z)
                             (script : list outcome),
  0 <= max_shift <= 31 ->
  let R := run faithful max_shift default_rate rnd cancel_at rate script in
  (forall pre o post, script = pre ++ o :: post -> Forall Proofs.Retry.plain pre -> Proofs.Retry.success o ->
     Proofs.Retry.before_cancel cancel_at (2 * length pre) ->
     calls R = S (length pre) /\ res R = o_res o /\ ret R = RNil) /\
  (forall pre o post e, script = pre ++ o :: post -> Forall Proofs.Retry.plain pre -> o_err o = Some e -> is_fatal e = true ->
     Proofs.Retry.before_cancel cancel_at (2 * length pre) ->
     calls R = S (length pre) /\ res R = o_res o /\ ret R = RErr (unpack e) /\ is_fatal (unpack e) = false /\
     (forall depth id, e = wrap depth (EBase id) -> ret R = RErr (EBase id))) /\
  (forall t m, cancel_at = Some t -> (t <= 2 * m)%nat -> (2 * m <= t + 1)%nat ->
     (calls R <= m)%nat /\
     (Forall Proofs.Retry.plain (firstn m script) -> (m <= length script)%nat ->
      calls R = m /\ res R = None /\ ret R = RCtx)) /\
  match ret R with RErr e => is_fatal e = false | RPanic => False | _ => True end /\
  (length (waits R) <= calls R <= length script)%nat /\
  (ret R = RExhausted -> Forall Proofs.Retry.plain script /\ calls R = length script).
Proof. exact Proofs.Retry.outcome_run. Qed.
Print Assumptions C18_outcome.

(* The same clauses hold whatever (total) function is plugged into the calcExponentialRetry seam — in particular for
   `run_seam`, the function the correspondence checker runs against the recorded implementation behaviour. *)
Theorem C18_outcome_any_delay_function : forall (max_shift : Z) (calc : nat -> Z -> Z -> option Z)
                                                (cancel_at : option nat) (rate : Z) (script : list outcome),
  Proofs.Retry.calc_total calc ->
  Proofs.Retry.outcome_spec (loop faithful max_shift calc cancel_at rate script 0 0) cancel_at script.
Proof. exact Proofs.Retry.outcome_any_seam. Qed.
Print Assumptions C18_outcome_any_delay_function.

Theorem C18_outcome_checker_entry : forall cancel_at ds rate script,
  Proofs.Retry.outcome_spec (run_seam cancel_at ds rate script) cancel_at script.
Proof. exact Proofs.Retry.outcome_run_seam. Qed.
Print Assumptions C18_outcome_checker_entry.

(* The delay before the k-th retry (the (k-1)-th entry of `waits`): calcExponentialRetry is called with the effective rate
   and c = min(k, max_shift); the oracle is consulted with exactly n = 2^min(k,max_shift), so the delay is j slots,
   0 <= j <= 2^min(k,max_shift) - 1, and EVERY such j is attainable (j is the oracle's value); the delay is j * rate
   computed in an int64, which is the exact product when the largest delay fits a Duration. *)
Theorem C18_delay_range : forall (max_shift default_rate : Z) (rnd : nat -> Z -> Z) (cancel_at : option nat) (rate : Z)
                                 (script : list outcome),
  0 <= max_shift <= 31 -> 0 < default_rate -> Proofs.Retry.oracle_ok rnd ->
  let R := run faithful max_shift default_rate rnd cancel_at rate script in
  let r := eff_rate default_rate rate in
  0 < r /\
  forall i w, nth_error (waits R) i = Some w ->
    let k := Z.of_nat (S i) in
    let slots := 2 ^ Z.min k max_shift in
    w_rate w = r /\ w_c w = Z.min k max_shift /\
    exists j, j = rnd i slots /\ 0 <= j <= slots - 1 /\
              w_d w = i64 (j * r) /\
              ((slots - 1) * r < 2 ^ 63 -> w_d w = j * r).
Proof. exact Proofs.Retry.delay_range. Qed.
Print Assumptions C18_delay_range.

(* The uint32 arithmetic of the counter and of `1 << c` never wraps under the cap 31. *)
Theorem C18_counter_and_shift_do_not_wrap : forall (max_shift : Z),
  0 <= max_shift <= 31 ->
  (forall k : nat, bump max_shift (Z.min (Z.of_nat k) max_shift) = Z.min (Z.of_nat (S k)) max_shift) /\
  (forall c, 0 <= c -> calc_n max_shift c = 2 ^ Z.min c max_shift /\ 0 < calc_n max_shift c).
Proof. exact Proofs.Retry.counter_and_shift_do_not_wrap. Qed.
Print Assumptions C18_counter_and_shift_do_not_wrap.

(* rate <= 0 behaves exactly like the default rate (300ms in retry.go); a positive rate is used as given. *)
Theorem C18_default_rate : forall fl max_shift default_rate rnd cancel_at rate script,
  rate <= 0 ->
  eff_rate default_rate rate = default_rate /\
  run fl max_shift default_rate rnd cancel_at rate script = run fl max_shift default_rate rnd cancel_at default_rate script.
Proof. exact Proofs.Retry.default_rate_used. Qed.
Print Assumptions C18_default_rate.

Theorem C18_given_rate : forall default_rate rate, 0 < rate -> eff_rate default_rate rate = rate.
Proof. exact Proofs.Retry.given_rate_used. Qed.
Print Assumptions C18_given_rate.

(* waitDuration: returns at once for d <= 0; otherwise returns as soon as the context is done OR the timer fires. *)
Theorem C18_wait_select : forall d ctx_done timer_fired,
  wait_returns d ctx_done timer_fired = true <-> (d <= 0 \/ ctx_done = true \/ timer_fired = true).
Proof. exact Proofs.Retry.wait_returns_spec. Qed.
Print Assumptions C18_wait_select.

(* Every wait of every run: no timer for d <= 0; the full delay only if the context is not cancelled by the end of the
   wait; a wait during or before which the context is cancelled (t <= 2i+2) does not run to its timer, and is the last
   thing the closure does: no further call, no further wait, nil result and the context's error. *)
Theorem C18_wait_cut_by_cancel : forall (max_shift default_rate : Z) (rnd : nat -> Z -> Z) (cancel_at : option nat)
                                        (rate : Z) (script : list outcome),
  0 <= max_shift <= 31 ->
  let R := run faithful max_shift default_rate rnd cancel_at rate script in
  forall i w, nth_error (waits R) i = Some w ->
    (w_d w <= 0 -> w_how w = WNone) /\
    (0 < w_d w -> Proofs.Retry.before_cancel cancel_at (2 * i + 2) -> w_how w = WTimer) /\
    (forall t, cancel_at = Some t -> (t <= 2 * i + 2)%nat ->
       (0 < w_d w -> w_how w = WCut) /\ w_how w <> WTimer /\
       w_done w = Nat.leb t (2 * i + 1) /\
       calls R = S i /\ length (waits R) = S i /\ res R = None /\ ret R = RCtx).
Proof. exact Proofs.Retry.wait_cut_run. Qed.
Print Assumptions C18_wait_cut_by_cancel.

(* ---- sensitivity: each clause fails for a realistic defect (variants of the same loop function) ---- *)

(* counter incremented at the end of the loop body instead of before the call: first delay computed with c = 0 *)
Theorem C18_counter_late_refuted :
  exists rnd script, Proofs.Retry.oracle_ok rnd /\
    ~ Proofs.Retry.delay_spec (run (mkF true false false false) max_shift_go default_rate_go rnd None 1000 script)
                              max_shift_go 1000 rnd.
Proof. exact Proofs.Retry.counter_late_refuted. Qed.
Print Assumptions C18_counter_late_refuted.

(* only one level of FatalError removed *)
Theorem C18_unwrap_one_level_refuted :
  exists ca script,
    ~ Proofs.Retry.outcome_spec
        (run (mkF false true false false) max_shift_go default_rate_go Proofs.Retry.rnd_zero ca 1000 script) ca script.
Proof. exact Proofs.Retry.unwrap_one_refuted. Qed.
Print Assumptions C18_unwrap_one_level_refuted.

(* fatal test applied to the unwrapped error *)
Theorem C18_fatal_test_on_unwrapped_refuted :
  exists ca script,
    ~ Proofs.Retry.outcome_spec
        (run (mkF false false true false) max_shift_go default_rate_go Proofs.Retry.rnd_zero ca 1000 script) ca script.
Proof. exact Proofs.Retry.fatal_inner_refuted. Qed.
Print Assumptions C18_fatal_test_on_unwrapped_refuted.

(* no ctx.Err() check before an attempt *)
Theorem C18_no_ctx_check_refuted :
  exists ca script,
    ~ Proofs.Retry.outcome_spec
        (run (mkF false false false true) max_shift_go default_rate_go Proofs.Retry.rnd_zero ca 1000 script) ca script.
Proof. exact Proofs.Retry.no_ctx_check_refuted. Qed.
Print Assumptions C18_no_ctx_check_refuted.

(* the side condition max_shift <= 31 is necessary: with 32 the shift wraps to 0 and rand.Int63n panics *)
Theorem C18_cap_above_31_refuted :
  exists script,
    ret (run faithful 32 default_rate_go Proofs.Retry.rnd_zero None 1 script) = RPanic /\
    ~ Proofs.Retry.outcome_spec (run faithful 32 default_rate_go Proofs.Retry.rnd_zero None 1 script) None script.
Proof. exact Proofs.Retry.cap_above_31_refuted. Qed.
Print Assumptions C18_cap_above_31_refuted.

(* the model's constants are those of retry.go:26-29 (also compared with the implementation's at run time, record
   `F retry_consts`), and they satisfy the side conditions *)
Theorem C18_constants_satisfy_side_conditions :
  max_shift_go = 31 /\ default_rate_go = 300 * 1000000 /\ 0 <= max_shift_go <= 31 /\ 0 < default_rate_go /\
  (2 ^ Z.min 40 max_shift_go - 1) * default_rate_go < 2 ^ 63.
Proof. exact Proofs.Retry.constants_satisfy_side_conditions. Qed.
Print Assumptions C18_constants_satisfy_side_conditions.
