(* C18 — ExponentialRetry: stops on success, fatal error or cancellation; bounded backoff.
   Statements only; every proof is `exact` of a lemma of Proofs/Retry.v or Proofs/RetryMore.v.

   Vocabulary (Model/Retry.v, Proofs/Retry.v):
     run fl max_shift default_rate rnd cancel_at rate script : result
         one invocation of the closure returned by ExponentialRetry(ctx, rate, value): the k-th call of value() returns
         the k-th outcome of `script`; `cancel_at = Some t` cancels ctx at event t of the linear order
         (0 = before the first ctx.Err() check, 2k-1 = during call k, 2k = during the wait after call k);
         `rnd i n` is what rand.Int63n(n) returns for the i-th delay; fl = faithful is the code as it is.
     plain o / success o   the outcome is an error not wrapped by FatalError / a nil error
     before_cancel ca n    event n happens strictly before the cancellation (or ctx is never cancelled)
     oracle_ok rnd         forall i n, 0 < n -> 0 <= rnd i n < n        (the contract of rand.Int63n)
     calc_total calc       the function plugged into the calcExponentialRetry seam returns normally
   Model/RetryMore.v (errors that may also carry NON-fatal wrappers, and waitDuration in discrete time):
     werr = WBase id | WFatal inner | WWrap inner     WWrap: any wrapping error that is not a fatalError (fmt.Errorf %w)
     wunpack / wis_fatal    unpackFatalError / isFatalError as coded (type switch on the value itself, no Unwrap)
     has_fatal e            errors.As(e, fatalError): some value of the Unwrap chain of e is a fatalError
     wrun ...               the closure of ExponentialRetry on such errors (loopG: the same loop, generic in the error type)
     first_return d cd tm now fuel   first instant >= now at which waitDuration's select can return *)
From Coq Require Import List ZArith Bool Arith.
From BB.Model Require Import Retry RetryMore.
From BB.Proofs Require Retry RetryMore.
Import ListNotations.
Open Scope Z_scope.

(* FatalError wrappers at ANY depth >= 1 are detected on the outermost value and removed completely.
   (Model/Retry.v's [err] can only nest fatalError DIRECTLY inside fatalError; for errors with a non-fatal wrapper in
   between see the section on [werr] below: there the "at any depth" reading is refuted.) *)
Theorem C18_fatal_fully_unwrapped : forall (depth : nat) (id : Z),
  (1 <= depth)%nat ->
  is_fatal (wrap depth (EBase id)) = true /\
  unpack (wrap depth (EBase id)) = EBase id /\
  is_fatal (unpack (wrap depth (EBase id))) = false.
Proof. exact Proofs.Retry.fatal_fully_unwrapped. Qed.
Print Assumptions C18_fatal_fully_unwrapped.

(* ---- "no fatal wrapper at any depth", on errors that may also carry non-fatal wrappers (Model/RetryMore.v) ---- *)

(* What unpackFatalError as coded does to ANY error: the error is `depth` consecutive fatalError layers on top of a
   value x that is not a fatalError, and the result is exactly x.  So the returned error never is a fatalError ITSELF. *)
Theorem C18_unpack_strips_the_consecutive_head : forall e : werr,
  exists depth x, e = wwrap depth x /\ wis_fatal x = false /\ wunpack e = x /\
                  (wis_fatal e = true <-> (1 <= depth)%nat).
Proof. exact Proofs.RetryMore.wunpack_strips_exactly_the_head. Qed.
Print Assumptions C18_unpack_strips_the_consecutive_head.

(* EXACTLY when a fatal wrapper survives inside the result: fatal layers on top of a NON-fatal wrapper that has a fatal
   wrapper somewhere inside.  In particular never for the errors of Model/Retry.v (C18_fatal_fully_unwrapped). *)
Theorem C18_fatal_wrapper_survives_iff : forall e : werr,
  has_fatal (wunpack e) = true <-> exists depth y, e = wwrap depth (WWrap y) /\ has_fatal y = true.
Proof. exact Proofs.RetryMore.wunpack_leaves_fatal_iff. Qed.
Print Assumptions C18_fatal_wrapper_survives_iff.

(* REFUTED: "the returned error contains no fatal wrapper at any depth" is false of the code as it is.  For
   value() = (5, FatalError(fmt.Errorf("%w", FatalError(e9)))) the closure returns after one call with result 5 and the
   error  fmt.Errorf("%w", FatalError(e9)) : not a fatalError itself, but errors.As finds a fatalError inside it
   (reproduced on /repo: errors.As(err, &fatalError{}) = true, and errors.Is(err, e9) = false because fatalError has no
   Unwrap).  Only errors with a non-fatal wrapper BETWEEN fatal wrappers are affected (previous theorem). *)
Theorem C18_no_fatal_wrapper_at_any_depth_refuted :
  exists script,
    let R := wrun max_shift_go default_rate_go Proofs.Retry.rnd_zero None 1000 script in
    g_calls R = 1%nat /\ g_res R = Some 5 /\
    g_ret R = GErr (WWrap (WFatal (WBase 9))) /\ has_fatal (WWrap (WFatal (WBase 9))) = true.
Proof. exact Proofs.RetryMore.wrun_any_depth_refuted. Qed.
Print Assumptions C18_no_fatal_wrapper_at_any_depth_refuted.

(* What DOES hold for every script of such errors: a returned error is the unpacked error of a fatal outcome of the
   script, it is not a fatalError itself, and the delay computation never panics ... *)
Theorem C18_returned_error_is_not_fatal_at_its_head : forall ms drate rnd ca rate (script : list (outcomeG werr)),
  0 <= ms <= 31 ->
  match g_ret (wrun ms drate rnd ca rate script) with
  | GErr x => wis_fatal x = false /\
              exists o e, In o script /\ og_err o = Some e /\ wis_fatal e = true /\ x = wunpack e
  | GPanic => False
  | _ => True
  end.
Proof. exact Proofs.RetryMore.wrun_returned_error_head. Qed.
Print Assumptions C18_returned_error_is_not_fatal_at_its_head.

(* ... and it has no fatal wrapper at any depth when no error of the script hides one under a non-fatal wrapper. *)
Theorem C18_no_fatal_wrapper_at_any_depth_when_consecutive : forall ms drate rnd ca rate (script : list (outcomeG werr)),
  0 <= ms <= 31 ->
  (forall o e, In o script -> og_err o = Some e -> has_fatal (wunpack e) = false) ->
  match g_ret (wrun ms drate rnd ca rate script) with GErr x => has_fatal x = false | _ => True end.
Proof. exact Proofs.RetryMore.wrun_clean_when_consecutive. Qed.
Print Assumptions C18_no_fatal_wrapper_at_any_depth_when_consecutive.

(* The outcome clauses (1)-(4) of C18_outcome below, re-proved for the closure on errors with non-fatal wrappers:
   plainG o = "an error whose OUTERMOST value is not a fatalError" (a fatal error hidden under a non-fatal wrapper is a
   plain failure: the loop goes on), and clause (2) returns wunpack e. *)
Theorem C18_outcome_with_nonfatal_wrappers : forall ms drate rnd ca rate (script : list (outcomeG werr)),
  0 <= ms <= 31 ->
  let R := wrun ms drate rnd ca rate script in
  let plainW := Proofs.RetryMore.plainG werr wis_fatal in
  (forall pre o post, script = pre ++ o :: post -> Forall plainW pre -> og_err o = None ->
     Proofs.Retry.before_cancel ca (2 * length pre) ->
     g_calls R = S (length pre) /\ g_res R = og_res o /\ g_ret R = GNil) /\
  (forall pre o post e, script = pre ++ o :: post -> Forall plainW pre -> og_err o = Some e -> wis_fatal e = true ->
     Proofs.Retry.before_cancel ca (2 * length pre) ->
     g_calls R = S (length pre) /\ g_res R = og_res o /\ g_ret R = GErr (wunpack e)) /\
  (forall t m, ca = Some t -> (t <= 2 * m)%nat -> (2 * m <= t + 1)%nat ->
     (g_calls R <= m)%nat /\
     (Forall plainW (firstn m script) -> (m <= length script)%nat ->
      g_calls R = m /\ g_res R = None /\ g_ret R = GCtx)) /\
  match g_ret R with GErr x => exists e, wis_fatal e = true /\ x = wunpack e | GPanic => False | _ => True end /\
  (length (g_waits R) <= g_calls R <= length script)%nat /\
  (g_ret R = GExhausted -> Forall plainW script /\ g_calls R = length script).
Proof. exact Proofs.RetryMore.outcome_wrun. Qed.
Print Assumptions C18_outcome_with_nonfatal_wrappers.

(* [loopG] is the same loop: instantiated with the errors of Model/Retry.v it is [loop faithful], field by field. *)
Theorem C18_generic_closure_is_the_model : forall ms calc ca rate script k c,
  let R := loopG err is_fatal unpack ms calc ca rate (map Proofs.RetryMore.toG script) k c in
  let R0 := loop faithful ms calc ca rate script k c in
  g_calls R = calls R0 /\ g_res R = res R0 /\ g_ret R = Proofs.RetryMore.toR (ret R0) /\ g_waits R = waits R0.
Proof. exact Proofs.RetryMore.loopG_is_loop. Qed.
Print Assumptions C18_generic_closure_is_the_model.

(* For EVERY outcome script, EVERY cancellation point, EVERY random oracle and EVERY rate, with R the run:
   (1) first success (all earlier outcomes plain failures, context not cancelled before that attempt's check):
       exactly that many calls, its result, nil error;
   (2) first fatal error: exactly that many calls, THAT call's result, the fully unwrapped error (not fatal; the base
       error whatever the nesting depth);
   (3) cancellation at event t when m calls had been started (t = 2m or t = 2m-1): never more than m calls, and if the
       first m outcomes are plain failures: exactly m calls, nil result, the context's error — when t = 2m-1 and call m
       succeeds or fails fatally, (1)/(2) apply instead (their hypothesis 2(m-1) < t holds): the in-flight call ends the loop;
   (4) the returned error is never a fatal wrapper, the delay computation never panics, there are never more delays than
       calls, and the script is only exhausted by plain failures. *)
Theorem C18_outcome : forall (max_shift default_rate : Z) (rnd : nat -> Z -> Z) (cancel_at : option nat) (rate : Z)
                             (script : list outcome),
  0 <= max_shift <= 31 ->
  let R := run faithful max_shift default_rate rnd cancel_at rate script in
  (forall pre o post, script = pre ++ o :: post -> Forall Proofs.Retry.plain pre -> Proofs.Retry.success o ->
     Proofs.Retry.before_cancel cancel_at (2 * length pre) ->
     calls R = S (length pre) /\ res R = o_res o /\ ret R = RNil) /\
  (forall pre o post e, script = pre ++ o :: post -> Forall Proofs.Retry.plain pre -> o_err o = Some e -> is_fatal e = true ->
     Proofs.Retry.before_cancel cancel_at (2 * length pre) ->
     calls R = S (length pre) /\ res R = o_res o /\ ret R = RErr (unpack e) /\ is_fatal (unpack e) = false /\
     (forall depth id, e = wrap depth (EBase id) -> ret R = RErr (EBase id))) /\
  (forall t m, cancel_at = Some t -> (t <= 2 * m)%nat -> (2 * m <= t + 1)%nat ->
     (calls R <= m)%nat /\
     (Forall Proofs.Retry.plain (firstn m script) -> (m <= length script)%nat ->
      calls R = m /\ res R = None /\ ret R = RCtx)) /\
  match ret R with RErr e => is_fatal e = false | RPanic => False | _ => True end /\
  (length (waits R) <= calls R <= length script)%nat /\
  (ret R = RExhausted -> Forall Proofs.Retry.plain script /\ calls R = length script).
Proof. exact Proofs.Retry.outcome_run. Qed.
Print Assumptions C18_outcome.

(* The same clauses hold whatever (total) function is plugged into the calcExponentialRetry seam — in particular for
   `run_seam`, the function the correspondence checker runs against the recorded implementation behaviour. *)
Theorem C18_outcome_any_delay_function : forall (max_shift : Z) (calc : nat -> Z -> Z -> option Z)
                                                (cancel_at : option nat) (rate : Z) (script : list outcome),
  Proofs.Retry.calc_total calc ->
  Proofs.Retry.outcome_spec (loop faithful max_shift calc cancel_at rate script 0 0) cancel_at script.
Proof. exact Proofs.Retry.outcome_any_seam. Qed.
Print Assumptions C18_outcome_any_delay_function.

Theorem C18_outcome_checker_entry : forall cancel_at ds rate script,
  Proofs.Retry.outcome_spec (run_seam cancel_at ds rate script) cancel_at script.
Proof. exact Proofs.Retry.outcome_run_seam. Qed.
Print Assumptions C18_outcome_checker_entry.

(* The delay before the k-th retry (the (k-1)-th entry of `waits`): calcExponentialRetry is called with the effective rate
   and c = min(k, max_shift); the oracle is consulted with exactly n = 2^min(k,max_shift), so the delay is j slots,
   0 <= j <= 2^min(k,max_shift) - 1, and EVERY such j is attainable (j is the oracle's value); the delay is j * rate
   computed in an int64, which is the exact product when the largest delay fits a Duration. *)
Theorem C18_delay_range : forall (max_shift default_rate : Z) (rnd : nat -> Z -> Z) (cancel_at : option nat) (rate : Z)
                                 (script : list outcome),
  0 <= max_shift <= 31 -> 0 < default_rate -> Proofs.Retry.oracle_ok rnd ->
  let R := run faithful max_shift default_rate rnd cancel_at rate script in
  let r := eff_rate default_rate rate in
  0 < r /\
  forall i w, nth_error (waits R) i = Some w ->
    let k := Z.of_nat (S i) in
    let slots := 2 ^ Z.min k max_shift in
    w_rate w = r /\ w_c w = Z.min k max_shift /\
    exists j, j = rnd i slots /\ 0 <= j <= slots - 1 /\
              w_d w = i64 (j * r) /\
              ((slots - 1) * r < 2 ^ 63 -> w_d w = j * r).
Proof. exact Proofs.Retry.delay_range. Qed.
Print Assumptions C18_delay_range.

(* The uint32 arithmetic of the counter and of `1 << c` never wraps under the cap 31. *)
Theorem C18_counter_and_shift_do_not_wrap : forall (max_shift : Z),
  0 <= max_shift <= 31 ->
  (forall k : nat, bump max_shift (Z.min (Z.of_nat k) max_shift) = Z.min (Z.of_nat (S k)) max_shift) /\
  (forall c, 0 <= c -> calc_n max_shift c = 2 ^ Z.min c max_shift /\ 0 < calc_n max_shift c).
Proof. exact Proofs.Retry.counter_and_shift_do_not_wrap. Qed.
Print Assumptions C18_counter_and_shift_do_not_wrap.

(* rate <= 0 behaves exactly like the default rate (300ms in retry.go); a positive rate is used as given. *)
Theorem C18_default_rate : forall fl max_shift default_rate rnd cancel_at rate script,
  rate <= 0 ->
  eff_rate default_rate rate = default_rate /\
  run fl max_shift default_rate rnd cancel_at rate script = run fl max_shift default_rate rnd cancel_at default_rate script.
Proof. exact Proofs.Retry.default_rate_used. Qed.
Print Assumptions C18_default_rate.

Theorem C18_given_rate : forall default_rate rate, 0 < rate -> eff_rate default_rate rate = rate.
Proof. exact Proofs.Retry.given_rate_used. Qed.
Print Assumptions C18_given_rate.

(* waitDuration: returns at once for d <= 0; otherwise returns as soon as the context is done OR the timer fires.
   DEFINITIONAL: this only restates the definition of [wait_returns] (a three-way disjunction); it is kept as the
   reading of that definition.  The statement with content is C18_wait_returns_at_the_earliest right below. *)
Theorem C18_wait_select : forall d ctx_done timer_fired,
  wait_returns d ctx_done timer_fired = true <-> (d <= 0 \/ ctx_done = true \/ timer_fired = true).
Proof. exact Proofs.Retry.wait_returns_spec. Qed.
Print Assumptions C18_wait_select.

(* "the wait is cut short by cancellation", in (discrete) time counted from the entry into waitDuration(ctx, d), with
   the context cancelled at instant tc (None: never; Some 0: already done) and the timer firing at instant d:
   the first instant at which the select of [wait_returns] can return is
       wait_time d tc  =  0 if d <= 0, else min(tc, d)
   - it does return then, it is blocked at every earlier instant, it never outlasts the delay, and never outlasts the
   cancellation. *)
Theorem C18_wait_returns_at_the_earliest : forall d tc fuel,
  (Proofs.RetryMore.wait_time d tc <= fuel)%nat ->
  first_return d (ctx_done_from tc) (timer_from d) 0 fuel = Some (Proofs.RetryMore.wait_time d tc) /\
  (forall m, (m < Proofs.RetryMore.wait_time d tc)%nat ->
             wait_returns d (ctx_done_from tc m) (timer_from d m) = false) /\
  (Proofs.RetryMore.wait_time d tc <= Z.to_nat d)%nat /\
  (forall t, tc = Some t -> (Proofs.RetryMore.wait_time d tc <= t)%nat).
Proof. exact Proofs.RetryMore.wait_returns_at_earliest. Qed.
Print Assumptions C18_wait_returns_at_the_earliest.

(* (definitional: the closed form of the proof-side definition [wait_time] used above) *)
Theorem C18_wait_time_closed_form : forall d tc,
  Proofs.RetryMore.wait_time d tc =
  if d <=? 0 then O else match tc with Some t => Nat.min t (Z.to_nat d) | None => Z.to_nat d end.
Proof. exact Proofs.RetryMore.wait_time_closed_form. Qed.
Print Assumptions C18_wait_time_closed_form.

(* Every wait of every run: no timer for d <= 0; the full delay only if the context is not cancelled by the end of the
   wait; a wait during or before which the context is cancelled (t <= 2i+2) does not run to its timer, and is the last
   thing the closure does: no further call, no further wait, nil result and the context's error. *)
Theorem C18_wait_cut_by_cancel : forall (max_shift default_rate : Z) (rnd : nat -> Z -> Z) (cancel_at : option nat)
                                        (rate : Z) (script : list outcome),
  0 <= max_shift <= 31 ->
  let R := run faithful max_shift default_rate rnd cancel_at rate script in
  forall i w, nth_error (waits R) i = Some w ->
    (w_d w <= 0 -> w_how w = WNone) /\
    (0 < w_d w -> Proofs.Retry.before_cancel cancel_at (2 * i + 2) -> w_how w = WTimer) /\
    (forall t, cancel_at = Some t -> (t <= 2 * i + 2)%nat ->
       (0 < w_d w -> w_how w = WCut) /\ w_how w <> WTimer /\
       w_done w = Nat.leb t (2 * i + 1) /\
       calls R = S i /\ length (waits R) = S i /\ res R = None /\ ret R = RCtx).
Proof. exact Proofs.Retry.wait_cut_run. Qed.
Print Assumptions C18_wait_cut_by_cancel.

(* ---- sensitivity: each clause fails for a realistic defect (variants of the same loop function) ---- *)

(* counter incremented at the end of the loop body instead of before the call: first delay computed with c = 0 *)
Theorem C18_counter_late_refuted :
  exists rnd script, Proofs.Retry.oracle_ok rnd /\
    ~ Proofs.Retry.delay_spec (run (mkF true false false false) max_shift_go default_rate_go rnd None 1000 script)
                              max_shift_go 1000 rnd.
Proof. exact Proofs.Retry.counter_late_refuted. Qed.
Print Assumptions C18_counter_late_refuted.

(* only one level of FatalError removed *)
Theorem C18_unwrap_one_level_refuted :
  exists ca script,
    ~ Proofs.Retry.outcome_spec
        (run (mkF false true false false) max_shift_go default_rate_go Proofs.Retry.rnd_zero ca 1000 script) ca script.
Proof. exact Proofs.Retry.unwrap_one_refuted. Qed.
Print Assumptions C18_unwrap_one_level_refuted.

(* fatal test applied to the unwrapped error *)
Theorem C18_fatal_test_on_unwrapped_refuted :
  exists ca script,
    ~ Proofs.Retry.outcome_spec
        (run (mkF false false true false) max_shift_go default_rate_go Proofs.Retry.rnd_zero ca 1000 script) ca script.
Proof. exact Proofs.Retry.fatal_inner_refuted. Qed.
Print Assumptions C18_fatal_test_on_unwrapped_refuted.

(* no ctx.Err() check before an attempt *)
Theorem C18_no_ctx_check_refuted :
  exists ca script,
    ~ Proofs.Retry.outcome_spec
        (run (mkF false false false true) max_shift_go default_rate_go Proofs.Retry.rnd_zero ca 1000 script) ca script.
Proof. exact Proofs.Retry.no_ctx_check_refuted. Qed.
Print Assumptions C18_no_ctx_check_refuted.

(* the side condition max_shift <= 31 is necessary: with 32 the shift wraps to 0 and rand.Int63n panics *)
Theorem C18_cap_above_31_refuted :
  exists script,
    ret (run faithful 32 default_rate_go Proofs.Retry.rnd_zero None 1 script) = RPanic /\
    ~ Proofs.Retry.outcome_spec (run faithful 32 default_rate_go Proofs.Retry.rnd_zero None 1 script) None script.
Proof. exact Proofs.Retry.cap_above_31_refuted. Qed.
Print Assumptions C18_cap_above_31_refuted.

(* the model's constants are those of retry.go:26-29 (also compared with the implementation's at run time, record
   `F retry_consts`), and they satisfy the side conditions *)
Theorem C18_constants_satisfy_side_conditions :
  max_shift_go = 31 /\ default_rate_go = 300 * 1000000 /\ 0 <= max_shift_go <= 31 /\ 0 < default_rate_go /\
  (2 ^ Z.min 40 max_shift_go - 1) * default_rate_go < 2 ^ 63.
Proof. exact Proofs.Retry.constants_satisfy_side_conditions. Qed.
Print Assumptions C18_constants_satisfy_side_conditions.

(* ================================================================================================================
   calcExponentialRetry AS WRITTEN IN THE CURRENT SOURCE is the model's delay function [calc_real] of C18_delay_range
   above (with the constant maxShiftUint32 of the current retry.go).  coq/Gen/ImplPureRetry.v is printed from retry.go by
   harness/cmd/gotr on every run; [GoFrag2.run2] is the interpreter of the fragment it is written in (Model/GoFrag2.v: the
   uint32 clamp, `1 << c` in a uint32 and the int64 product with EXPLICIT wraps); math/rand.Int63n is an oracle,
   [PureSpec.rand_fenv rnd] = "Int63n(n) returns rnd n for n > 0 and panics otherwise", for ANY function rnd.
   [PureSpec.delay_expected (Some r)] = the function returns r, no panic, no effect.
   ================================================================================================================ *)
From BB.Model Require GoFrag GoFrag2 PureSpec.
From BB.Gen Require ImplPureRetry.
From BB.Proofs Require RetryGen.

(* For EVERY duration d, EVERY uint32 c and EVERY random source: the translated source returns exactly the model's delay. *)
Theorem C18_delay_source_is_model : forall (rnd : Z -> Z) (d c : Z),
  0 <= c < 2 ^ 32 ->
  GoFrag2.run2 (PureSpec.rand_fenv rnd) BB.Gen.ImplPureRetry.calcExponentialRetry_def
    (GoFrag.VInt d :: GoFrag.VInt c :: nil)
  = PureSpec.delay_expected (calc_real max_shift_go (fun _ => rnd) 0 d c).
Proof. exact Proofs.RetryGen.calc_src_eq_model. Qed.
Print Assumptions C18_delay_source_is_model.

(* Hence, under Int63n's contract (a HYPOTHESIS on the oracle): the translated source returns j slots of length d with
   0 <= j <= 2^min(c,31) - 1, j being the oracle's answer to exactly n = 2^min(c,31); the product is taken in an int64 and is
   the exact one (a whole number of slots, [slot_ok]) when the largest delay fits a Duration. *)
Theorem C18_delay_source_in_slots : forall (rnd : Z -> Z) (d c : Z),
  0 <= c < 2 ^ 32 ->
  (forall n, 0 < n -> 0 <= rnd n < n) ->
  let slots := 2 ^ Z.min c max_shift_go in
  let run := GoFrag2.run2 (PureSpec.rand_fenv rnd) BB.Gen.ImplPureRetry.calcExponentialRetry_def
               (GoFrag.VInt d :: GoFrag.VInt c :: nil) in
  exists j, j = rnd slots /\ 0 <= j <= slots - 1 /\
    run = GoFrag2.Returned (GoFrag.VInt (i64 (j * d))) nil /\
    (0 < d -> (slots - 1) * d < 2 ^ 63 ->
     run = GoFrag2.Returned (GoFrag.VInt (j * d)) nil /\ slot_ok d c (j * d) = true).
Proof. exact Proofs.RetryGen.calc_src_slots. Qed.
Print Assumptions C18_delay_source_in_slots.

(* Not vacuous (oracle "always the largest value", n - 1, which satisfies the contract): c = 3 gives 7 slots; c = 40 and
   c = 2^32 - 1 are clamped and give what c = 31 gives; a product that does not fit an int64 wraps. *)
Theorem C18_delay_source_examples :
  let mx := fun n => n - 1 in
  let run := fun d c => GoFrag2.run2 (PureSpec.rand_fenv mx) BB.Gen.ImplPureRetry.calcExponentialRetry_def
                          (GoFrag.VInt d :: GoFrag.VInt c :: nil) in
  run 1000 3 = GoFrag2.Returned (GoFrag.VInt 7000) nil /\
  run 1000 0 = GoFrag2.Returned (GoFrag.VInt 0) nil /\
  run 1000 31 = GoFrag2.Returned (GoFrag.VInt 2147483647000) nil /\
  run 1000 40 = GoFrag2.Returned (GoFrag.VInt 2147483647000) nil /\
  run 1000 4294967295 = GoFrag2.Returned (GoFrag.VInt 2147483647000) nil /\
  run (2 ^ 33) 31 = GoFrag2.Returned (GoFrag.VInt (- 2 ^ 33)) nil /\
  (forall n, 0 < n -> 0 <= mx n < n).
Proof. exact Proofs.RetryGen.calc_src_examples_run. Qed.
Print Assumptions C18_delay_source_examples.
