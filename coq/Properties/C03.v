(* C03 — Buffer retention: nothing unread is evicted; a lagging consumer fails loudly.  (cleaner-function part)
   Statements only. *)
From Coq Require Import List ZArith Bool.
From BB.Model Require Import Cleaner Buffer.
From BB.Model Require GoFrag.
From BB.Gen Require ImplCleaners.
From BB.Proofs Require Cleaner Buffer CleanerGen.
Import ListNotations.
Open Scope Z_scope.

(* For every size >= 0 and every list of offsets (negative, zero, equal to size, beyond size): the default cleaner's
   result is within [0,size], never exceeds any non-negative offset (so nothing an active consumer has not committed past
   is evicted), is 0 when no offset is non-negative, and otherwise is size or one of the offsets (the least active one). *)
Theorem C03_default_cleaner_spec : forall size offsets,
  0 <= size ->
  let r := default_cleaner size offsets in
  0 <= r <= size /\
  Forall (fun o => 0 <= o -> r <= o) offsets /\
  (Forall (fun o => o < 0) offsets -> r = 0) /\
  (Exists (fun o => 0 <= o) offsets ->
     (r = size \/ In r offsets) /\ Forall (fun o => 0 <= o -> r <= o) offsets).
Proof. exact Proofs.Cleaner.default_cleaner_spec. Qed.
Print Assumptions C03_default_cleaner_spec.

Theorem C03_default_cleaner_closed_form : forall size offsets,
  0 <= size -> default_cleaner size offsets = default_spec size offsets.
Proof. exact Proofs.Cleaner.default_cleaner_is_spec. Qed.
Print Assumptions C03_default_cleaner_closed_form.

Theorem C03_fixed_cleaner_spec : forall max target size offsets,
  0 <= size ->
  (size > max -> fixed_cleaner max target size offsets = size - target) /\
  (size <= max -> fixed_cleaner max target size offsets = default_cleaner size offsets).
Proof. exact Proofs.Cleaner.fixed_cleaner_spec. Qed.
Print Assumptions C03_fixed_cleaner_spec.

Theorem C03_shift_is_clamped : forall len shift,
  0 <= len ->
  let r := clamp_shift len shift in
  0 <= r <= len /\ (0 <= shift <= len -> r = shift) /\ (shift < 0 -> r = 0) /\ (shift > len -> r = len).
Proof. exact Proofs.Cleaner.clamp_shift_spec. Qed.
Print Assumptions C03_shift_is_clamped.

(* ---- the tie for the cleaner functions is a translation, not a sample: the functions AS WRITTEN IN THE CURRENT SOURCE
   (coq/Gen/ImplCleaners.v, printed from bigbuff.go by harness/cmd/gotr on every run; [GoFrag.call] is the interpreter of the
   Go fragment they are written in) compute the model functions above, for every input ------------------------------------ *)
Theorem C03_DefaultCleaner_source_is_model : forall size offsets,
  GoFrag.call [] BB.Gen.ImplCleaners.DefaultCleaner_def [GoFrag.VInt size; GoFrag.VList offsets]
  = Some (GoFrag.VInt (default_cleaner size offsets)).
Proof. exact Proofs.CleanerGen.DefaultCleaner_src_eq_model. Qed.
Print Assumptions C03_DefaultCleaner_source_is_model.

(* FixedBufferCleaner(max, target, callback)(size, offsets), with a nil or a non-nil callback (called for effect only) *)
Theorem C03_FixedBufferCleaner_source_is_model : forall max target cb size offsets,
  GoFrag.call Proofs.CleanerGen.fe1 BB.Gen.ImplCleaners.FixedBufferCleaner_def
    [GoFrag.VInt max; GoFrag.VInt target; GoFrag.VFunc cb; GoFrag.VInt size; GoFrag.VList offsets]
  = Some (GoFrag.VInt (fixed_cleaner max target size offsets)).
Proof. exact Proofs.CleanerGen.FixedBufferCleaner_src_eq_model. Qed.
Print Assumptions C03_FixedBufferCleaner_source_is_model.

Close Scope Z_scope.

(* ---- the Buffer under its cleaners (Model/Buffer.v; schedules = any interleaving of operations, cleaner runs, shutdown) ---- *)

(* Default cleaner: in every reachable state the base is at or below the committed offset of every registered consumer
   (uncommitted reads do not count) — nothing a registered consumer has not committed past is ever evicted. *)
Theorem C03_default_never_evicts_unread : forall evs,
  let s := fst (erun (init CDefault) evs) in
  Forall (fun c => creg c = true -> base s <= ccommit c) (cs s).
Proof.
  intros evs. apply Proofs.Buffer.default_never_evicts_unread; [reflexivity|apply Proofs.Buffer.Inv_init|constructor].
Qed.
Print Assumptions C03_default_never_evicts_unread.

(* so a consumer that keeps reading never gets an offset error, however far ahead the others are *)
Theorem C03_default_get_never_offset_error : forall evs c k,
  let s := fst (erun (init CDefault) evs) in
  getc s c = Some k -> creg k = true -> ccancel k = false -> bclosed s = false ->
  snd (step s (OGet c)) <> RErr.
Proof. exact Proofs.Buffer.default_get_never_offset_error. Qed.
Print Assumptions C03_default_get_never_offset_error.

(* and nothing is removed while no consumer exists *)
Theorem C03_default_no_consumer_no_eviction : forall s,
  cfg s = CDefault -> Proofs.Buffer.Inv s -> Proofs.Buffer.DInv s -> filter creg (cs s) = [] -> base (clean s) = base s.
Proof. exact Proofs.Buffer.default_no_consumer_no_eviction. Qed.
Print Assumptions C03_default_no_consumer_no_eviction.

(* Any cleaner (any function at all): a run of cleanupLogic only moves the base forward, within the log, and touches
   neither the log nor any consumer — consumers at or beyond the trim point are unaffected. *)
Theorem C03_any_cleaner_only_advances_base : forall (f : Z -> list Z -> Z) s,
  Proofs.Buffer.Inv s -> let s' := clean_with f s in
  base s <= base s' <= length (log s) /\ log s' = log s /\ cs s' = cs s.
Proof. exact Proofs.Buffer.any_cleaner_only_advances_base. Qed.
Print Assumptions C03_any_cleaner_only_advances_base.

(* A consumer whose next value has been evicted (cursor below the base) stays so under every later schedule, and every
   later Get of it returns an error and changes nothing: never a skipped, stale or wrong value. *)
Theorem C03_evicted_fails_forever : forall evs s i,
  Proofs.Buffer.Inv s -> Proofs.Buffer.lagging s i ->
  let s' := fst (erun s evs) in Proofs.Buffer.lagging s' i /\ step s' (OGet i) = (s', RErr).
Proof. exact Proofs.Buffer.evicted_fails_forever. Qed.
Print Assumptions C03_evicted_fails_forever.

(* Slice and Size are the not-yet-evicted suffix of the put order; Diff is (values put) - (read position), and exceeds
   Size exactly when the consumer has fallen behind the base. *)
Theorem C03_slice_size_diff : forall s c k,
  Proofs.Buffer.Inv s -> getc s c = Some k -> creg k = true ->
  step s OSlice = (s, RBuf (skipn (base s) (log s))) /\
  step s OSize = (s, RInt (length (log s) - base s)) /\
  length (skipn (base s) (log s)) = length (log s) - base s /\
  step s (ODiff c) = (s, RDiff (Z.of_nat (length (log s)) - Z.of_nat (ccommit k + cdelta k)) true) /\
  ((Z.of_nat (length (log s)) - Z.of_nat (ccommit k + cdelta k) > Z.of_nat (length (log s) - base s))%Z
     <-> ccommit k + cdelta k < base s).
Proof. exact Proofs.Buffer.slice_size_diff. Qed.
Print Assumptions C03_slice_size_diff.

(* ================================================================================================================
   Extensions (proofs in Proofs/BufferMore.v): schedules in which ANY cleaner function may run, a different one at every
   run ([Proofs.BufferMore.GShift f] = one run of cleanupLogic with f while the buffer is open; [Proofs.BufferMore.grun];
   see Properties/C01.v, C01_schedules_are_a_special_case / C01_generalised_event), and the "consumers at or beyond the
   trim point are unaffected" clause.
   ================================================================================================================ *)
From BB.Proofs Require BufferMore.

(* the invariant of the buffer survives every such schedule *)
Theorem C03_invariant_any_cleaners : forall gs s,
  Proofs.Buffer.Inv s -> Proofs.Buffer.Inv (fst (Proofs.BufferMore.grun s gs)).
Proof. exact Proofs.BufferMore.Inv_grun. Qed.
Print Assumptions C03_invariant_any_cleaners.

(* the base and every consumer's committed offset never decrease (eviction and Commit are permanent), and no consumer
   record disappears *)
Theorem C03_base_and_commits_monotone_any_cleaners : forall gs s,
  Proofs.Buffer.Inv s ->
  let s' := fst (Proofs.BufferMore.grun s gs) in
  base s <= base s' /\
  (forall c k, getc s c = Some k ->
     exists k', getc s' c = Some k' /\ ccommit k <= ccommit k' /\ cstart k = cstart k' /\ chigh k <= chigh k').
Proof. exact Proofs.BufferMore.sle_grun. Qed.
Print Assumptions C03_base_and_commits_monotone_any_cleaners.

(* a consumer whose next value has been evicted stays so, and every later Get of it is an error that changes nothing,
   whatever cleaners run later *)
Theorem C03_evicted_fails_forever_any_cleaners : forall gs s i,
  Proofs.Buffer.Inv s -> Proofs.Buffer.lagging s i ->
  let s' := fst (Proofs.BufferMore.grun s gs) in Proofs.Buffer.lagging s' i /\ step s' (OGet i) = (s', RErr).
Proof. exact Proofs.BufferMore.evicted_fails_forever_g. Qed.
Print Assumptions C03_evicted_fails_forever_any_cleaners.

(* [lagging]: the consumer exists and its cursor is below the base *)
Theorem C03_lagging_def : forall s c,
  Proofs.Buffer.lagging s c <-> exists k, getc s c = Some k /\ ccommit k + cdelta k < base s.
Proof. exact Proofs.BufferMore.lagging_def. Qed.
Print Assumptions C03_lagging_def.

(* One cleaner run with ANY function f, and a consumer whose cursor (committed offset + reads since) is at or beyond the
   new base: its Get, Diff, Commit and Rollback return exactly what they would have returned without the trim; the trim
   commutes with Get, Diff and Rollback (same final state in either order); after a Commit the two states have the same
   log and the same consumers (the base is the trimmed one). *)
Theorem C03_beyond_trim_unaffected : forall (f : Z -> list Z -> Z) s c k,
  Proofs.Buffer.Inv s -> getc s c = Some k ->
  let s' := clean_with f s in
  base s' <= ccommit k + cdelta k ->
  snd (step s' (OGet c)) = snd (step s (OGet c)) /\
  snd (step s' (ODiff c)) = snd (step s (ODiff c)) /\
  snd (step s' (OCommit c)) = snd (step s (OCommit c)) /\
  snd (step s' (ORollback c)) = snd (step s (ORollback c)) /\
  fst (step s' (OGet c)) = clean_with f (fst (step s (OGet c))) /\
  fst (step s' (ODiff c)) = clean_with f (fst (step s (ODiff c))) /\
  fst (step s' (ORollback c)) = clean_with f (fst (step s (ORollback c))) /\
  (cs (fst (step s' (OCommit c))) = cs (fst (step s (OCommit c))) /\
   log (fst (step s' (OCommit c))) = log (fst (step s (OCommit c))) /\
   base (fst (step s' (OCommit c))) = base s').
Proof. exact Proofs.BufferMore.beyond_trim_unaffected. Qed.
Print Assumptions C03_beyond_trim_unaffected.

(* Any sequence of Get/Diff/Commit/Rollback calls on a consumer whose COMMITTED offset is at or beyond the new base (so
   that not even a Rollback takes its cursor below it): exactly the same results with and without the trim, and the same
   consumers and log at the end. *)
Theorem C03_beyond_trim_unaffected_calls : forall (f : Z -> list Z -> Z) s c k ops,
  Proofs.Buffer.Inv s -> getc s c = Some k -> base (clean_with f s) <= ccommit k ->
  Forall (fun o => o = OGet c \/ o = ODiff c \/ o = OCommit c \/ o = ORollback c) ops ->
  snd (erun (clean_with f s) (map EOp ops)) = snd (erun s (map EOp ops)) /\
  cs (fst (erun (clean_with f s) (map EOp ops))) = cs (fst (erun s (map EOp ops))) /\
  log (fst (erun (clean_with f s) (map EOp ops))) = log (fst (erun s (map EOp ops))).
Proof. exact Proofs.BufferMore.beyond_trim_unaffected_calls. Qed.
Print Assumptions C03_beyond_trim_unaffected_calls.

(* ================================================================================================================
   Buffer.cleanupLogic and Buffer.consumerOffsets AS WRITTEN IN THE CURRENT SOURCE are the model's [clean_with] and
   [rel_offsets] of the theorems above.  coq/Gen/ImplBuffer.v is printed from buffer.go (and the struct declaration of
   Buffer) by harness/cmd/gotr -set buffer on every run; [GoFrag3.run3 oe me perm fuel] is the interpreter of the fragment
   it is written in (Model/GoFrag3.v): [oe] the oracles - here b.cleaner.Cleaner, ANY function f ([cleaner_oenv f]) -, [me]
   the read-only methods callable from an expression - here the TRANSLATED consumerOffsets ([buffer_menv], through
   [pure_call], which refuses a method that writes or has an effect) -, [perm] the order in which `range b.consumers`
   visits the map (Go leaves it unspecified: the theorems hold for EVERY perm that permutes its argument), [fuel] the
   iterations allowed to a loop (the theorems hold for every fuel above the buffer's length; a run that stays within its
   fuel does not depend on it, C03_source_loop_bound_is_only_a_bound).  Vocabulary (Model/BufferSrc.v): [mkstore], [abs] as
   in Properties/C01.v; [offsets_spec order off] the offsets of the map entries in iteration order, minus off;
   [cleanup_spec] the closed form of cleanupLogic; [cleanup_moved f s]: did clean_with f s move the base.
   ================================================================================================================ *)
From Coq Require Import String.
From BB.Model Require Import GoFrag3 BufferSrc.
From BB.Gen Require ImplBuffer.
From BB.Proofs Require GoFrag3 BufferSrc BufferGen.
Import GoFrag.
Open Scope Z_scope.

(* On EVERY source-level state: consumerOffsets changes nothing, has no effect and returns consumers[c] - b.offset for the
   entries of the map in the order in which it is iterated. *)
Theorem C03_consumer_offsets_source_is_spec : forall oe me perm fuel closed consumers offset buffer,
  run3 oe me perm fuel BB.Gen.ImplBuffer.consumerOffsets_def (mkstore closed consumers offset buffer) []
  = Returned3 (mkstore closed consumers offset buffer) [W (VList (offsets_spec (perm consumers) offset))] [].
Proof. exact Proofs.BufferGen.consumerOffsets_src_eq_spec. Qed.
Print Assumptions C03_consumer_offsets_source_is_spec.

(* On the image of EVERY model state and for every iteration order: what consumerOffsets returns is a permutation of the
   model's [rel_offsets s] (and exactly that list when the map is iterated in the order of the consumer ids). *)
Theorem C03_consumer_offsets_source_is_model : forall oe me perm fuel s,
  (forall l, Permutation.Permutation (perm l) l) ->
  exists offsets,
    run3 oe me perm fuel BB.Gen.ImplBuffer.consumerOffsets_def (abs s) [] = Returned3 (abs s) [W (VList offsets)] [] /\
    Permutation.Permutation offsets (rel_offsets s).
Proof. exact Proofs.BufferGen.consumerOffsets_src_eq_model. Qed.
Print Assumptions C03_consumer_offsets_source_is_model.

Theorem C03_consumer_offsets_source_is_model_in_id_order : forall oe me fuel s,
  run3 oe me (fun l => l) fuel BB.Gen.ImplBuffer.consumerOffsets_def (abs s) []
  = Returned3 (abs s) [W (VList (rel_offsets s))] [].
Proof. exact Proofs.BufferGen.consumerOffsets_src_eq_model_id. Qed.
Print Assumptions C03_consumer_offsets_source_is_model_in_id_order.

(* On EVERY source-level state, for every cleaner f, every iteration order and every loop bound above the buffer's length:
   cleanupLogic calls f with (len(buffer), the relative offsets in iteration order), clamps the answer to [0, len]
   ([clamp_shift] of C03_clamp_spec), returns false without any change or effect if that is 0, and otherwise drops that many
   values from the front of b.buffer, adds as much to b.offset, broadcasts once and returns true.  (The loop that nils the
   dropped slots runs on the part of the slice that is then cut off; a bound one too large is an index panic when shift =
   len and a lost value otherwise.) *)
Theorem C03_cleanup_source_is_spec : forall (f : Z -> list Z -> Z) perm fuel closed consumers offset buffer,
  (List.length buffer < fuel)%nat ->
  run3 (cleaner_oenv f) (Proofs.BufferGen.buffer_menv perm fuel) perm fuel BB.Gen.ImplBuffer.cleanupLogic_def
       (mkstore closed consumers offset buffer) []
  = cleanup_spec f (perm consumers) closed consumers offset buffer.
Proof. exact Proofs.BufferGen.cleanup_src_eq_spec. Qed.
Print Assumptions C03_cleanup_source_is_spec.

(* [buffer_menv]: the one method cleanupLogic calls is the translated consumerOffsets itself *)
Theorem C03_cleanup_source_calls_translated_offsets : forall perm fuel,
  Proofs.BufferGen.buffer_menv perm fuel
  = [("consumerOffsets"%string, pure_call [] [] perm fuel BB.Gen.ImplBuffer.consumerOffsets_def)].
Proof. exact (fun perm fuel => eq_refl). Qed.
Print Assumptions C03_cleanup_source_calls_translated_offsets.

(* On the image of EVERY model state, for every cleaner f that does not depend on the ORDER of its offsets
   ([perm_invariant]), every iteration order of the map and every loop bound above Size: the state after cleanupLogic is
   the image of the model's [clean_with f s], its result says whether the base moved, and it broadcasts exactly then. *)
Theorem C03_cleanup_source_is_model : forall (f : Z -> list Z -> Z) perm fuel s,
  Proofs.BufferSrc.perm_invariant f -> (forall l, Permutation.Permutation (perm l) l) -> (size s < fuel)%nat ->
  run3 (cleaner_oenv f) (Proofs.BufferGen.buffer_menv perm fuel) perm fuel BB.Gen.ImplBuffer.cleanupLogic_def (abs s) []
  = Returned3 (abs (clean_with f s)) [W (VBool (cleanup_moved f s))] (cleanup_log (cleanup_moved f s)).
Proof. exact Proofs.BufferGen.cleanup_src_eq_model. Qed.
Print Assumptions C03_cleanup_source_is_model.

(* [perm_invariant], and: every cleaner of the model - DefaultCleaner, FixedBufferCleaner max target, the two custom ones
   the harness uses - is independent of the order of its offsets, so the theorem above applies to the model's [clean] *)
Theorem C03_perm_invariant_def : forall f,
  Proofs.BufferSrc.perm_invariant f <-> (forall size l l', Permutation.Permutation l l' -> f size l = f size l').
Proof. exact (fun f => conj (fun H => H) (fun H => H)). Qed.
Print Assumptions C03_perm_invariant_def.

Theorem C03_model_cleaners_ignore_order : forall k, Proofs.BufferSrc.perm_invariant (cleaner_of k).
Proof. exact Proofs.BufferSrc.cleaner_of_perm. Qed.
Print Assumptions C03_model_cleaners_ignore_order.

Theorem C03_cleanup_source_is_model_clean : forall k perm fuel s,
  (forall l, Permutation.Permutation (perm l) l) -> (size s < fuel)%nat ->
  run3 (cleaner_oenv (cleaner_of k)) (Proofs.BufferGen.buffer_menv perm fuel) perm fuel
       BB.Gen.ImplBuffer.cleanupLogic_def (abs s) []
  = Returned3 (abs (clean_with (cleaner_of k) s)) [W (VBool (cleanup_moved (cleaner_of k) s))]
              (cleanup_log (cleanup_moved (cleaner_of k) s)).
Proof. exact Proofs.BufferGen.cleanup_src_eq_model_cfg. Qed.
Print Assumptions C03_cleanup_source_is_model_clean.

(* The interpreter's loop bound is only a bound: a run that does not end in OutOfFuel is the run with any larger bound. *)
Theorem C03_source_loop_bound_is_only_a_bound : forall oe me perm fa fb f st args, (fa <= fb)%nat ->
  run3 oe me perm fa f st args <> OutOfFuel ->
  run3 oe me perm fb f st args = run3 oe me perm fa f st args.
Proof. exact Proofs.GoFrag3.run3_fuel_mono. Qed.
Print Assumptions C03_source_loop_bound_is_only_a_bound.

(* A method reached through [pure_call] (here consumerOffsets from cleanupLogic) returned one value, left the receiver's
   state alone and had no effect. *)
Theorem C03_source_pure_call_is_pure : forall oe me perm fuel f st args v,
  pure_call oe me perm fuel f st args = Some v -> run3 oe me perm fuel f st args = Returned3 st [v] [].
Proof. exact Proofs.GoFrag3.pure_call_sound. Qed.
Print Assumptions C03_source_pure_call_is_pure.

(* Not vacuous, by running the translated source on a state the model reaches (three values put, one consumer that has
   committed two): a cleaner asking for more than there is (CAll: size + 5) is CLAMPED to everything; one asking for a
   negative number (CNone) shifts nothing, returns false and does not broadcast; the default cleaner shifts up to the
   consumer; a loop bound that is too small is reported as OutOfFuel, never as a result. *)
Theorem C03_cleanup_source_examples :
  let s := fst (erun (init CDefault) [EOp (OPut [10; 20; 30]); EOp ONew; EOp (OGet 0); EOp (OGet 0); EOp (OCommit 0)]) in
  let run := fun k => run3 (cleaner_oenv (cleaner_of k)) (Proofs.BufferGen.buffer_menv (fun l => l) 4) (fun l => l) 4
                        BB.Gen.ImplBuffer.cleanupLogic_def (abs s) [] in
  run CAll = Returned3 (mkstore false [(0%nat, 2)] 3 []) [W (VBool true)] [log_broadcast] /\
  run CNone = Returned3 (abs s) [W (VBool false)] [] /\
  run CDefault = Returned3 (mkstore false [(0%nat, 2)] 2 [Some 30]) [W (VBool true)] [log_broadcast] /\
  run3 (cleaner_oenv (cleaner_of CAll)) (Proofs.BufferGen.buffer_menv (fun l => l) 3) (fun l => l) 3
       BB.Gen.ImplBuffer.cleanupLogic_def (abs s) [] = OutOfFuel /\
  rel_offsets s = [2] /\ size s = 3%nat.
Proof. exact Proofs.BufferGen.cleanup_src_examples. Qed.
Print Assumptions C03_cleanup_source_examples.

(* the iteration order matters to consumerOffsets' result and not to cleanupLogic's: two consumers at 2 and 1, the map
   iterated backwards *)
Theorem C03_iteration_order_examples :
  let s := fst (erun (init CDefault) [EOp (OPut [10; 20; 30]); EOp ONew; EOp ONew; EOp (OGet 0); EOp (OGet 0); EOp (OCommit 0);
                                      EOp (OGet 1); EOp (OCommit 1)]) in
  run3 [] [] (@List.rev _) 0 BB.Gen.ImplBuffer.consumerOffsets_def (abs s) [] = Returned3 (abs s) [W (VList [1; 2])] [] /\
  rel_offsets s = [2; 1] /\
  run3 (cleaner_oenv default_cleaner) (Proofs.BufferGen.buffer_menv (@List.rev _) 9) (@List.rev _) 9 BB.Gen.ImplBuffer.cleanupLogic_def (abs s) []
  = Returned3 (mkstore false [(0%nat, 2); (1%nat, 1)] 1 [Some 20; Some 30]) [W (VBool true)] [log_broadcast] /\
  run3 (cleaner_oenv default_cleaner) (Proofs.BufferGen.buffer_menv (fun l => l) 9) (fun l => l) 9 BB.Gen.ImplBuffer.cleanupLogic_def (abs s) []
  = Returned3 (mkstore false [(0%nat, 2); (1%nat, 1)] 1 [Some 20; Some 30]) [W (VBool true)] [log_broadcast].
Proof. exact Proofs.BufferGen.order_examples. Qed.
Print Assumptions C03_iteration_order_examples.
