(* C03 — Buffer retention: nothing unread is evicted; a lagging consumer fails loudly.  (cleaner-function part)
   Statements only. *)
From Coq Require Import List ZArith Bool.
From BB.Model Require Import Cleaner Buffer.
From BB.Model Require GoFrag.
From BB.Gen Require ImplCleaners.
From BB.Proofs Require Cleaner Buffer CleanerGen.
Import ListNotations.
Open Scope Z_scope.

(* For every size >= 0 and every list of offsets (negative, zero, equal to size, beyond size): the default cleaner's
   result is within [0,size], never exceeds any non-negative offset (so nothing an active consumer has not committed past
   is evicted), is 0 when no offset is non-negative, and otherwise is size or one of the offsets (the least active one). *)
Theorem C03_default_cleaner_spec : forall size offsets,
  0 <= size ->
  let r := default_cleaner size offsets in
  0 <= r <= size /\
  Forall (fun o => 0 <= o -> r <= o) offsets /\
  (Forall (fun o => o < 0) offsets -> r = 0) /\
  (Exists (fun o => 0 <= o) offsets ->
     (r = size \/ In r offsets) /\ Forall (fun o => 0 <= o -> r <= o) offsets).
Proof. exact Proofs.Cleaner.default_cleaner_spec. Qed.
Print Assumptions C03_default_cleaner_spec.

Theorem C03_default_cleaner_closed_form : forall size offsets,
  0 <= size -> default_cleaner size offsets = default_spec size offsets.
Proof. exact Proofs.Cleaner.default_cleaner_is_spec. Qed.
Print Assumptions C03_default_cleaner_closed_form.

Theorem C03_fixed_cleaner_spec : forall max target size offsets,
  0 <= size ->
  (size > max -> fixed_cleaner max target size offsets = size - target) /\
  (size <= max -> fixed_cleaner max target size offsets = default_cleaner size offsets).
Proof. exact Proofs.Cleaner.fixed_cleaner_spec. Qed.
Print Assumptions C03_fixed_cleaner_spec.

Theorem C03_shift_is_clamped : forall len shift,
  0 <= len ->
  let r := clamp_shift len shift in
  0 <= r <= len /\ (0 <= shift <= len -> r = shift) /\ (shift < 0 -> r = 0) /\ (shift > len -> r = len).
Proof. exact Proofs.Cleaner.clamp_shift_spec. Qed.
Print Assumptions C03_shift_is_clamped.

(* ---- the tie for the cleaner functions is a translation, not a sample: the functions AS WRITTEN IN THE CURRENT SOURCE
   (coq/Gen/ImplCleaners.v, printed from bigbuff.go by harness/cmd/gotr on every run; [GoFrag.call] is the interpreter of the
   Go fragment they are written in) compute the model functions above, for every input ------------------------------------ *)
Theorem C03_DefaultCleaner_source_is_model : forall size offsets,
  GoFrag.call [] BB.Gen.ImplCleaners.DefaultCleaner_def [GoFrag.VInt size; GoFrag.VList offsets]
  = Some (GoFrag.VInt (default_cleaner size offsets)).
Proof. exact Proofs.CleanerGen.DefaultCleaner_src_eq_model. Qed.
Print Assumptions C03_DefaultCleaner_source_is_model.

(* FixedBufferCleaner(max, target, callback)(size, offsets), with a nil or a non-nil callback (called for effect only) *)
Theorem C03_FixedBufferCleaner_source_is_model : forall max target cb size offsets,
  GoFrag.call Proofs.CleanerGen.fe1 BB.Gen.ImplCleaners.FixedBufferCleaner_def
    [GoFrag.VInt max; GoFrag.VInt target; GoFrag.VFunc cb; GoFrag.VInt size; GoFrag.VList offsets]
  = Some (GoFrag.VInt (fixed_cleaner max target size offsets)).
Proof. exact Proofs.CleanerGen.FixedBufferCleaner_src_eq_model. Qed.
Print Assumptions C03_FixedBufferCleaner_source_is_model.

Close Scope Z_scope.

(* ---- the Buffer under its cleaners (Model/Buffer.v; schedules = any interleaving of operations, cleaner runs, shutdown) ---- *)

(* Default cleaner: in every reachable state the base is at or below the committed offset of every registered consumer
   (uncommitted reads do not count) — nothing a registered consumer has not committed past is ever evicted. *)
Theorem C03_default_never_evicts_unread : forall evs,
  let s := fst (erun (init CDefault) evs) in
  Forall (fun c => creg c = true -> base s <= ccommit c) (cs s).
Proof.
  intros evs. apply Proofs.Buffer.default_never_evicts_unread; [reflexivity|apply Proofs.Buffer.Inv_init|constructor].
Qed.
Print Assumptions C03_default_never_evicts_unread.

(* so a consumer that keeps reading never gets an offset error, however far ahead the others are *)
Theorem C03_default_get_never_offset_error : forall evs c k,
  let s := fst (erun (init CDefault) evs) in
  getc s c = Some k -> creg k = true -> ccancel k = false -> bclosed s = false ->
  snd (step s (OGet c)) <> RErr.
Proof. exact Proofs.Buffer.default_get_never_offset_error. Qed.
Print Assumptions C03_default_get_never_offset_error.

(* and nothing is removed while no consumer exists *)
Theorem C03_default_no_consumer_no_eviction : forall s,
  cfg s = CDefault -> Proofs.Buffer.Inv s -> Proofs.Buffer.DInv s -> filter creg (cs s) = [] -> base (clean s) = base s.
Proof. exact Proofs.Buffer.default_no_consumer_no_eviction. Qed.
Print Assumptions C03_default_no_consumer_no_eviction.

(* Any cleaner (any function at all): a run of cleanupLogic only moves the base forward, within the log, and touches
   neither the log nor any consumer — consumers at or beyond the trim point are unaffected. *)
Theorem C03_any_cleaner_only_advances_base : forall (f : Z -> list Z -> Z) s,
  Proofs.Buffer.Inv s -> let s' := clean_with f s in
  base s <= base s' <= length (log s) /\ log s' = log s /\ cs s' = cs s.
Proof. exact Proofs.Buffer.any_cleaner_only_advances_base. Qed.
Print Assumptions C03_any_cleaner_only_advances_base.

(* A consumer whose next value has been evicted (cursor below the base) stays so under every later schedule, and every
   later Get of it returns an error and changes nothing: never a skipped, stale or wrong value. *)
Theorem C03_evicted_fails_forever : forall evs s i,
  Proofs.Buffer.Inv s -> Proofs.Buffer.lagging s i ->
  let s' := fst (erun s evs) in Proofs.Buffer.lagging s' i /\ step s' (OGet i) = (s', RErr).
Proof. exact Proofs.Buffer.evicted_fails_forever. Qed.
Print Assumptions C03_evicted_fails_forever.

(* Slice and Size are the not-yet-evicted suffix of the put order; Diff is (values put) - (read position), and exceeds
   Size exactly when the consumer has fallen behind the base. *)
Theorem C03_slice_size_diff : forall s c k,
  Proofs.Buffer.Inv s -> getc s c = Some k -> creg k = true ->
  step s OSlice = (s, RBuf (skipn (base s) (log s))) /\
  step s OSize = (s, RInt (length (log s) - base s)) /\
  length (skipn (base s) (log s)) = length (log s) - base s /\
  step s (ODiff c) = (s, RDiff (Z.of_nat (length (log s)) - Z.of_nat (ccommit k + cdelta k)) true) /\
  ((Z.of_nat (length (log s)) - Z.of_nat (ccommit k + cdelta k) > Z.of_nat (length (log s) - base s))%Z
     <-> ccommit k + cdelta k < base s).
Proof. exact Proofs.Buffer.slice_size_diff. Qed.
Print Assumptions C03_slice_size_diff.

(* ================================================================================================================
   Extensions (proofs in Proofs/BufferMore.v): schedules in which ANY cleaner function may run, a different one at every
   run ([Proofs.BufferMore.GShift f] = one run of cleanupLogic with f while the buffer is open; [Proofs.BufferMore.grun];
   see Properties/C01.v, C01_schedules_are_a_special_case / C01_generalised_event), and the "consumers at or beyond the
   trim point are unaffected" clause.
   ================================================================================================================ *)
From BB.Proofs Require BufferMore.

(* the invariant of the buffer survives every such schedule *)
Theorem C03_invariant_any_cleaners : forall gs s,
  Proofs.Buffer.Inv s -> Proofs.Buffer.Inv (fst (Proofs.BufferMore.grun s gs)).
Proof. exact Proofs.BufferMore.Inv_grun. Qed.
Print Assumptions C03_invariant_any_cleaners.

(* the base and every consumer's committed offset never decrease (eviction and Commit are permanent), and no consumer
   record disappears *)
Theorem C03_base_and_commits_monotone_any_cleaners : forall gs s,
  Proofs.Buffer.Inv s ->
  let s' := fst (Proofs.BufferMore.grun s gs) in
  base s <= base s' /\
  (forall c k, getc s c = Some k ->
     exists k', getc s' c = Some k' /\ ccommit k <= ccommit k' /\ cstart k = cstart k' /\ chigh k <= chigh k').
Proof. exact Proofs.BufferMore.sle_grun. Qed.
Print Assumptions C03_base_and_commits_monotone_any_cleaners.

(* a consumer whose next value has been evicted stays so, and every later Get of it is an error that changes nothing,
   whatever cleaners run later *)
Theorem C03_evicted_fails_forever_any_cleaners : forall gs s i,
  Proofs.Buffer.Inv s -> Proofs.Buffer.lagging s i ->
  let s' := fst (Proofs.BufferMore.grun s gs) in Proofs.Buffer.lagging s' i /\ step s' (OGet i) = (s', RErr).
Proof. exact Proofs.BufferMore.evicted_fails_forever_g. Qed.
Print Assumptions C03_evicted_fails_forever_any_cleaners.

(* [lagging]: the consumer exists and its cursor is below the base *)
Theorem C03_lagging_def : forall s c,
  Proofs.Buffer.lagging s c <-> exists k, getc s c = Some k /\ ccommit k + cdelta k < base s.
Proof. exact Proofs.BufferMore.lagging_def. Qed.
Print Assumptions C03_lagging_def.

(* One cleaner run with ANY function f, and a consumer whose cursor (committed offset + reads since) is at or beyond the
   new base: its Get, Diff, Commit and Rollback return exactly what they would have returned without the trim; the trim
   commutes with Get, Diff and Rollback (same final state in either order); after a Commit the two states have the same
   log and the same consumers (the base is the trimmed one). *)
Theorem C03_beyond_trim_unaffected : forall (f : Z -> list Z -> Z) s c k,
  Proofs.Buffer.Inv s -> getc s c = Some k ->
  let s' := clean_with f s in
  base s' <= ccommit k + cdelta k ->
  snd (step s' (OGet c)) = snd (step s (OGet c)) /\
  snd (step s' (ODiff c)) = snd (step s (ODiff c)) /\
  snd (step s' (OCommit c)) = snd (step s (OCommit c)) /\
  snd (step s' (ORollback c)) = snd (step s (ORollback c)) /\
  fst (step s' (OGet c)) = clean_with f (fst (step s (OGet c))) /\
  fst (step s' (ODiff c)) = clean_with f (fst (step s (ODiff c))) /\
  fst (step s' (ORollback c)) = clean_with f (fst (step s (ORollback c))) /\
  (cs (fst (step s' (OCommit c))) = cs (fst (step s (OCommit c))) /\
   log (fst (step s' (OCommit c))) = log (fst (step s (OCommit c))) /\
   base (fst (step s' (OCommit c))) = base s').
Proof. exact Proofs.BufferMore.beyond_trim_unaffected. Qed.
Print Assumptions C03_beyond_trim_unaffected.

(* Any sequence of Get/Diff/Commit/Rollback calls on a consumer whose COMMITTED offset is at or beyond the new base (so
   that not even a Rollback takes its cursor below it): exactly the same results with and without the trim, and the same
   consumers and log at the end. *)
Theorem C03_beyond_trim_unaffected_calls : forall (f : Z -> list Z -> Z) s c k ops,
  Proofs.Buffer.Inv s -> getc s c = Some k -> base (clean_with f s) <= ccommit k ->
  Forall (fun o => o = OGet c \/ o = ODiff c \/ o = OCommit c \/ o = ORollback c) ops ->
  snd (erun (clean_with f s) (map EOp ops)) = snd (erun s (map EOp ops)) /\
  cs (fst (erun (clean_with f s) (map EOp ops))) = cs (fst (erun s (map EOp ops))) /\
  log (fst (erun (clean_with f s) (map EOp ops))) = log (fst (erun s (map EOp ops))).
Proof. exact Proofs.BufferMore.beyond_trim_unaffected_calls. Qed.
Print Assumptions C03_beyond_trim_unaffected_calls.
