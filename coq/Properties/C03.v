(* C03 — Buffer retention: nothing unread is evicted; a lagging consumer fails loudly.  (cleaner-function part)
   Statements only. *)
From Coq Require Import List ZArith Bool.
From BB.Model Require Import Cleaner.
From BB.Proofs Require Cleaner.
Import ListNotations.
Open Scope Z_scope.

(* For every size >= 0 and every list of offsets (negative, zero, equal to size, beyond size): the default cleaner's
   result is within [0,size], never exceeds any non-negative offset (so nothing an active consumer has not committed past
   is evicted), is 0 when no offset is non-negative, and otherwise is size or one of the offsets (the least active one). *)
Theorem C03_default_cleaner_spec : forall size offsets,
  0 <= size ->
  let r := default_cleaner size offsets in
  0 <= r <= size /\
  Forall (fun o => 0 <= o -> r <= o) offsets /\
  (Forall (fun o => o < 0) offsets -> r = 0) /\
  (Exists (fun o => 0 <= o) offsets ->
     (r = size \/ In r offsets) /\ Forall (fun o => 0 <= o -> r <= o) offsets).
Proof. exact Proofs.Cleaner.default_cleaner_spec. Qed.
Print Assumptions C03_default_cleaner_spec.

Theorem C03_default_cleaner_closed_form : forall size offsets,
  0 <= size -> default_cleaner size offsets = default_spec size offsets.
Proof. exact Proofs.Cleaner.default_cleaner_is_spec. Qed.
Print Assumptions C03_default_cleaner_closed_form.

Theorem C03_fixed_cleaner_spec : forall max target size offsets,
  0 <= size ->
  (size > max -> fixed_cleaner max target size offsets = size - target) /\
  (size <= max -> fixed_cleaner max target size offsets = default_cleaner size offsets).
Proof. exact Proofs.Cleaner.fixed_cleaner_spec. Qed.
Print Assumptions C03_fixed_cleaner_spec.

Theorem C03_shift_is_clamped : forall len shift,
  0 <= len ->
  let r := clamp_shift len shift in
  0 <= r <= len /\ (0 <= shift <= len -> r = shift) /\ (shift < 0 -> r = 0) /\ (shift > len -> r = len).
Proof. exact Proofs.Cleaner.clamp_shift_spec. Qed.
Print Assumptions C03_shift_is_clamped.
